"""Per-property registration: which Go test functions decide it, and the texts
that go into the evidence file."""

HOOKS = {
    "guard": "verif",
    "enable": "go test -tags verif (the harness module replaces github.com/craterdog/go-collection-framework/v4 by /repo/v4)",
    "baseline_off_cmd": "cd /repo/v4 && GOFLAGS=-mod=mod GOPROXY=off GOSUMDB=off go test -vet=off -count=1 ./...",
    "source_commits": [],
    "add_only": True,
}

# properties not (yet) claimed, with the reason
NOT_APPLICABLE = {}

CHECKS = {
    "C13": {
        "parts": [{"pkg": "seq", "test": "TestC13", "subs": ["history", "words", "ctor-sizes"], "thorough_shards": 8}],
        "technique": "model-based stateful property testing (rapid) against a top-first slice model + exhaustive enumeration of push/pop words and constructor sizes",
        "level_text": "Generated histories over every constructor and operation of the quantifier are compared step by step with a reference model; the small spaces (all push/pop words to length 9/12 for capacities 1-3, all constructor sizes 0..33) are enumerated completely. This is bounded search, not proof.",
        "level_note": "Trusts the Go runtime and the harness model (a slice). Values are ints; capacity and sizes beyond the enumerated bounds are sampled only.",
        "rule": "history: rapid-generated constructor + 1..40 push/pop/clear/view operations checked step by step against a top-first slice model; "
                "non-trivial = the history reached a full or an empty stack at least once. words: every push/pop word up to the length bound for "
                "capacities 1..3 (exhaustive). ctor-sizes: MakeFromArray/MakeFromSequence for every initial size 0..33 (2*default+1) followed by pushes "
                "and pops past empty. distinct = distinct case encodings (FNV-64 of the decoded case).",
        "assumptions": ["the default capacity is read from the class (DefaultCapacity()), not assumed",
                        "a constructor given more values than the default capacity may either refuse (panic) or return a stack whose capacity covers them; both satisfy the statement"],
    },
}
