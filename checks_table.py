"""Per-property registration: which Go test functions decide it, and the texts
that go into the evidence file."""

HOOKS = {
    "guard": "verif",
    "enable": "go test -tags verif (the harness module replaces github.com/craterdog/go-collection-framework/v4 by /repo/v4)",
    "baseline_off_cmd": "cd /repo/v4 && GOFLAGS=-mod=mod GOPROXY=off GOSUMDB=off go test -vet=off -count=1 ./...",
    "source_commits": [],
    "add_only": True,
}

# properties not (yet) claimed, with the reason
NOT_APPLICABLE = {}

CHECKS = {
    "C01": {
        "parts": [{"pkg": "seq", "test": "TestC01", "subs": ["history", "small-histories"]}],
        "technique": "model-based stateful property testing (rapid) against an abstract Go slice + exhaustive enumeration of short histories",
        "level_text": "Generated histories (constructor + 1..40 operations, five element types, index/slot/range arguments drawn by boundary class, fresh/empty/receiver-aliased operands) are executed on List and Array and compared after every call with an abstract slice: outcome class (returned/panicked), returned values, AsArray, size, emptiness, iteration. All one-operation histories (quick) and all two-operation histories of a narrowed space (thorough) over a 2-value alphabet on sizes 0..3 are enumerated. Bounded search, not proof.",
        "level_note": "Trusts the harness model. Inverted in-range ranges and SetValues with an empty operand at a valid index may either panic or do nothing (the statement does not address them); panic payloads are not inspected; a hang watchdog of 60 s decides 'every call returns'.",
        "rule": "history: random case = element type x {List,Array} x constructor x initial values (4-5 value alphabet with duplicates) x 1..40 operations; non-trivial = at least one structural mutation returned AND at least one call from a boundary class (zero/out-of-range index, slot past end, inverted or out-of-range range, empty or receiver-aliased operand). small-histories: every history of the enumerated space. distinct = distinct decoded cases (FNV-64).",
        "assumptions": ["NaN elements are excluded (C07/C08 own NaN equality)", "Sort results are checked as ordered permutations; ShuffleValues as a permutation",
                        "a call is judged 'never returns' after 60 s (calls normally take microseconds)"],
    },
    "C13": {
        "parts": [{"pkg": "seq", "test": "TestC13", "subs": ["history", "words", "ctor-sizes"], "thorough_shards": 8}],
        "technique": "model-based stateful property testing (rapid) against a top-first slice model + exhaustive enumeration of push/pop words and constructor sizes",
        "level_text": "Generated histories over every constructor and operation of the quantifier are compared step by step with a reference model; the small spaces (all push/pop words to length 9/12 for capacities 1-3, all constructor sizes 0..33) are enumerated completely. This is bounded search, not proof.",
        "level_note": "Trusts the Go runtime and the harness model (a slice). Values are ints; capacity and sizes beyond the enumerated bounds are sampled only.",
        "rule": "history: rapid-generated constructor + 1..40 push/pop/clear/view operations checked step by step against a top-first slice model; "
                "non-trivial = the history reached a full or an empty stack at least once. words: every push/pop word up to the length bound for "
                "capacities 1..3 (exhaustive). ctor-sizes: MakeFromArray/MakeFromSequence for every initial size 0..33 (2*default+1) followed by pushes "
                "and pops past empty. distinct = distinct case encodings (FNV-64 of the decoded case).",
        "assumptions": ["the default capacity is read from the class (DefaultCapacity()), not assumed",
                        "a constructor given more values than the default capacity may either refuse (panic) or return a stack whose capacity covers them; both satisfy the statement"],
    },
}
