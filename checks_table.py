"""Per-property registration: which Go test functions decide it, and the texts
that go into the evidence file."""

HOOKS = {
    "guard": "verif",
    "enable": "go test -tags verif (the harness module replaces github.com/craterdog/go-collection-framework/v4 by /repo/v4)",
    "baseline_off_cmd": "cd /repo/v4 && GOFLAGS=-mod=mod GOPROXY=off GOSUMDB=off go test -vet=off -count=1 ./...",
    "source_commits": [],
    "add_only": True,
}

# properties not (yet) claimed, with the reason
NOT_APPLICABLE = {}

CHECKS = {
    "C01": {
        "parts": [{"pkg": "seq", "test": "TestC01", "subs": ["history", "small-histories"]}],
        "technique": "model-based stateful property testing (rapid) against an abstract Go slice + exhaustive enumeration of short histories",
        "level_text": "Generated histories (constructor + 1..40 operations, five element types, index/slot/range arguments drawn by boundary class, fresh/empty/receiver-aliased operands) are executed on List and Array and compared after every call with an abstract slice: outcome class (returned/panicked), returned values, AsArray, size, emptiness, iteration. All one-operation histories (quick) and all two-operation histories of a narrowed space (thorough) over a 2-value alphabet on sizes 0..3 are enumerated. Bounded search, not proof.",
        "level_note": "Trusts the harness model. Inverted in-range ranges and SetValues with an empty operand at a valid index may either panic or do nothing (the statement does not address them); panic payloads are not inspected; a hang watchdog of 60 s decides 'every call returns'.",
        "rule": "history: random case = element type x {List,Array} x constructor x initial values (4-5 value alphabet with duplicates) x 1..40 operations; non-trivial = at least one structural mutation returned AND at least one call from a boundary class (zero/out-of-range index, slot past end, inverted or out-of-range range, empty or receiver-aliased operand). small-histories: every history of the enumerated space. distinct = distinct decoded cases (FNV-64).",
        "assumptions": ["NaN elements are excluded (C07/C08 own NaN equality)", "Sort results are checked as ordered permutations; ShuffleValues as a permutation",
                        "a call is judged 'never returns' after 60 s (calls normally take microseconds)"],
    },
    "C02": {
        "parts": [{"pkg": "seq", "test": "TestC02", "subs": ["history", "insertion-orders"]}],
        "technique": "model-based stateful property testing (rapid) against a sorted duplicate-free reference set + exhaustive enumeration of insertion orders",
        "level_text": "Generated histories over the Set constructors and operations, five element types (int, string, []int, any, nested sets) and three collators (default, reversed and coarse harness collators that are total preorders by construction) are compared after every call with a mathematical set kept by an independent comparator: content, strict ascent under the set's own collator, size, iteration, ContainsValue/GetIndex/GetValue agreement for every value of the small domain. Every insertion order of every subset of {1..6}, each followed by every single removal and re-insertion, is enumerated for the default and the reversed collator (1957 orders x 2 x 8).",
        "level_note": "For element types whose cross-type order is implementation defined (any, nested sets) membership is compared as an unordered set and order is checked as an invariant under the set's own collator (that collator's correctness is C07's subject).",
        "rule": "history: constructor x collator x element type x small(8)/large(64) value domain x insertion-order mood x 1..40 operations; non-trivial = a duplicate (or rank-equal) AddValue happened, a RemoveValue hit an absent value or a boundary member, and size >= 3 was reached. insertion-orders: exhaustive. distinct = distinct decoded cases.",
        "assumptions": ["caller-supplied collators are total preorders (stated by the property); the harness collators are, by construction"],
    },
    "C03": {
        "parts": [{"pkg": "seq", "test": "TestC03", "subs": ["history", "small-histories"]}],
        "technique": "model-based stateful property testing (rapid) against an ordered association list + exhaustive enumeration of short histories",
        "level_text": "Generated histories over the four constructors and all Associative/Sortable operations, six key types (string, int, rune, float64, any, pointer keys with structurally equal pointees), values repeating across keys, are compared after every call with an ordered list of (key,value) pairs: GetValue for every key of the universe (present and absent), GetKeys, size, AsArray pairs and iteration must all describe the same associations in the same order; sort/reverse/shuffle may only permute. All histories of up to 3 (quick) / 4 (thorough) operations over 3 keys are enumerated for string and pointer keys.",
        "level_note": "Keys are compared with Go == (identity for pointers). Where order is unspecified (MakeFromMap, ShuffleValues, ties of a ranker) the model adopts the catalog's order after checking it is a permutation. NaN keys are excluded.",
        "rule": "history: constructor (with repeated keys in the initial data) x key type x 1..40 operations over an 8-key universe and values 0..3; non-trivial = a removal, overwrite or reorder happened while >= 2 associations were present, followed by look-ups (every step reads every key of the universe). small-histories: exhaustive. distinct = distinct decoded cases.",
        "assumptions": ["sorting is checked as: permutation, mapping unchanged, keys non-descending under the reference order (pointer keys: by pointee; any keys: under a fresh Collator[any])"],
    },
    "C14": {
        "parts": [{"pkg": "seq", "test": "TestC14", "subs": ["history", "small-histories"]}],
        "technique": "model-based stateful property testing (rapid) against a Go map + exhaustive enumeration of short histories",
        "level_text": "Generated histories over the four Map constructors (with repeated keys: the last value must win) and the Associative/Sequential methods, key types string, int, rune and any, are compared after every call with a reference association list: GetValue for every universe key, GetValues/RemoveValue(s) results (zero for absent keys), size, and the unordered views (GetKeys, AsArray, iteration) as sets with each association exactly once. All histories up to 3/4 operations over 3 keys are enumerated.",
        "level_note": "Unordered views are compared as sets; RemoveAll is also exercised while a key snapshot and an iterator are held.",
        "rule": "history: constructor x key type x 1..40 operations; non-trivial = at least one removal or overwrite at size >= 2. distinct = distinct decoded cases.",
        "assumptions": [],
    },
    "C15": {
        "parts": [{"pkg": "seq", "test": "TestC15", "subs": ["all-subset-pairs", "random-pairs"]}],
        "technique": "exhaustive small-scope enumeration (all pairs of subsets of a 6/7-value universe x 4 operations, int and string, plus the aliased pair) + rapid random pairs with custom collators; oracle = set algebra on equivalence classes computed independently",
        "level_text": "And/Or/Sans/Xor are run on every ordered pair of subsets of a 6-value universe (7 in the thorough tier) for int and string elements, including the same set passed twice, and on random pairs over larger universes, []int, nested sets, any, under default, reversed and coarse collators. The result must be a new set with exactly the expected members, strictly ascending; operands must be unchanged; later changes of the result or of an operand must not reach the other side.",
        "level_note": "Membership is compared on equivalence classes of the operands' (shared) ordering; both operands carry the same ordering, as a mathematical set algebra presupposes.",
        "rule": "all-subset-pairs: exhaustive (2 element types x 4 operations x 64 x 65 operand pairs). random-pairs: operands of 0..11 values over domains of 10 or 64 values; relations forced: aliased, equal content, nested, free. non-trivial = both operands non-empty, overlapping, neither equal nor aliased; the degenerate classes are counted in the classes histogram. distinct = distinct decoded cases.",
        "assumptions": [],
    },
    "C16": {
        "parts": [{"pkg": "seq", "test": "TestC16", "subs": ["all-small-operands", "random-operands"]}],
        "technique": "exhaustive small-scope enumeration of operand pairs and key sequences + rapid random operands; oracle = the documented laws computed on plain slices, plus metamorphic mutate-after-call purity checks",
        "level_text": "Concatenate on all pairs of lists over a 3-value alphabet up to length 4, Merge on all pairs of catalogs whose key lists are ordered subsets of a 4-key universe (values 100*operand+key so the winner is observable), Extract for every key sequence up to length 3 over present, absent and repeated keys against catalogs that store the zero value under a present key; aliased operands; random larger cases. Results are compared with the law, must be new, operands unchanged, and mutations of result/operands (including through yielded association objects) must not cross.",
        "level_note": "Extract's result for a requested key that the catalog does not contain must be nothing (the statement says so); repeated requested keys appear once, at their first position.",
        "rule": "exhaustive: 121 x (121+1) list pairs, 65 x (65+1) catalog pairs, 16 catalogs x 2 x 85 key sequences. non-trivial: operands non-empty; Merge: >= 1 shared and >= 1 new key; Extract: >= 1 absent or repeated key. distinct = distinct decoded cases.",
        "assumptions": [],
    },
    "C17": {
        "parts": [{"pkg": "seq", "test": "TestC17", "subs": ["all-move-sequences", "random-walks", "snapshot-small", "snapshot-random"]}],
        "technique": "exhaustive enumeration of iterator move sequences against an abstract cursor + rapid random walks + enumerated/random interleavings of collection mutations with iterator moves (snapshot metamorphic check)",
        "level_text": "Cursor part: for sizes 0..4 every sequence of up to 4 (quick) / 6 (thorough) moves over {GetNext, GetPrevious, ToStart, ToEnd, ToSlot(k), k in -size-2..size+2} is run on an agent-made and a List-made iterator, and slot, HasNext, HasPrevious, GetSize, IsEmpty and the returned values are compared with an abstract cursor after every move; random walks up to 200 moves on sizes up to 50. Snapshot part: for each of the seven collection kinds an iterator is obtained (and partly advanced), the collection is mutated by every mutating operation (sequences of 1..3, random up to 5), a second iterator is moved, and the first iterator must still enumerate, forwards and backwards, exactly what the collection held when it was obtained.",
        "level_note": "ToSlot(k) for k < -size is documented only as 'clamps': slot 0 or the implementation's slot 1 are both accepted. Catalog iterators yield the catalog's own association objects (compared by identity); a Map makes fresh association objects per view and orders them arbitrarily, so its snapshot is compared as a set of (key,value) pairs, and each iterator with itself exactly.",
        "rule": "all-move-sequences / snapshot-small: exhaustive. non-trivial (cursor) = size > 0 and the walk visited both ends and used ToSlot with a negative or clamped argument; (snapshot) = a mutation happened between two yields of an iterator that still had values to yield. distinct = distinct decoded cases.",
        "assumptions": [],
    },
    "C18": {
        "parts": [{"pkg": "seq", "test": "TestC18", "subs": ["entry-points", "self-operands"]}],
        "technique": "exhaustive enumeration of a table of API entry points x sizes 0..4 x mutation position; metamorphic mutate-after-call oracle; self-operand calls compared differentially with an independent copy as operand",
        "level_text": "Every entry point that accepts or returns a Go array, Go map or sequence (constructors from array/map/sequence of all seven kinds; AsArray, GetValues, GetKeys, RemoveValues; Concatenate, Merge, Extract, And/Or/Sans/Xor) is exercised at sizes 0..4 and every position: one side is written through (argument after the call, result after the call, collection after obtaining the result) and the other side must print exactly as before. Every bulk operation is also run with the receiver itself and with views of it as operand and must give what an independent copy gives. The table is finite and enumerated completely.",
        "level_note": "Association objects yielded by a Catalog are references by design (see C17); the check writes to Go arrays, maps and sequences, and to association objects only where a constructor/class function must have copied them. Iterators are covered by C17.",
        "rule": "entry-points: the table of entry points x sizes 0..4 x positions (exhaustive). self-operands: 15 operations x sizes 0..4 x slot/index x 3 operand views (exhaustive). non-trivial = size >= 1 and the write changed a value. distinct = distinct decoded cases.",
        "assumptions": [],
    },
    "C07": {
        "parts": [{"pkg": "agents", "test": "TestC07", "subs": ["leaf-pools", "composite-pools", "typed-composites"]}],
        "technique": "exhaustive pairs and triples over boundary-value pools of every primitive type + rapid pools of related composite values; oracle = order axioms (reflexive, mirror, transitive), differential against a reference order where the property defines one, metamorphic rebuild/insertion-order/collator-reuse relations",
        "level_text": "Leaf types: for bool, every signed and unsigned integer width, rune, float32/float64 (incl. +-0, +-Inf, NaN, subnormals, every exponent band), complex64/128 (signed zeros, equal-magnitude families, overflowing magnitudes) and strings (empty, prefixes, non-UTF-8) all pairs and all triples of a boundary pool are ranked under the typed collator: reflexive, mirror image, transitive, and equal to the natural order where one exists. Composite values: pools of 4-7 related values (derived from a common ancestor by copy, prefix, single-point mutation; Arrays, Lists, Sets, Stacks, Queues, Catalogs, Maps, []any, map[any]any, nil, nesting to depth 3) are ranked in all pairs and triples under Collator[any]: the axioms, the defined order (nil first, lexicographic with proper prefix first, maps by sorted keys then values) where the reference defines it, and independence from map insertion order, from which equal-content object is passed, and from earlier calls on the same collator. Typed composite collators ([]int, []string, [][]int, map[string]int, map[int][]int) are compared with a reference order exactly.",
        "level_note": "Between values of different types the library orders by an internal type name; the property does not specify that order, so only the axioms are required there. NaN and distinct complex numbers have no natural order: axioms only. Under Collator[any] only the canonical dynamic types are mixed.",
        "rule": "leaf-pools: one case = one element of one type's pool, checked against every pair and triple of that pool (exhaustive; pairs/triples counted in extra); non-trivial = at least two different ranks occurred. composite-pools / typed-composites: non-trivial = the pool produced at least one non-Equal rank. distinct = distinct decoded cases.",
        "assumptions": [],
    },
    "C08": {
        "parts": [{"pkg": "agents", "test": "TestC08", "subs": ["leaf-pools", "composite-pools", "typed-composites", "copies-and-mutants", "cyclic"]}],
        "technique": "exhaustive pairs over leaf pools + rapid composite pools; oracle = agreement of CompareValues with RankValues and with reference structural equality, independently rebuilt copies, every single-point mutation, cyclic values must end in the documented depth-limit panic and leave collators usable",
        "level_text": "On the universe of C07 (leaf pools exhaustively, composite and typed pools by rapid) CompareValues must be reflexive, symmetric, transitive, true exactly when RankValues is Equal, and equal to reference structural equality (sequences in order, maps regardless of insertion order, collections by kind and content). For every generated value an independently rebuilt copy (maps filled in the opposite order) must compare equal, and every single-point mutation (each leaf changed, each element removed, one added, each unequal neighbour pair swapped, each key renamed, the kind changed) must compare unequal and rank non-Equal. Self-containing collections (cycle length 1-3 through List, Array, Stack, Queue, Set, Catalog value, Map value, alone or among siblings, against themselves or a separately built copy) must end with the documented depth-limit panic; afterwards the same collator and a fresh one must compare and rank acyclic pairs exactly as before.",
        "level_note": "Mutants that do not change the built value (adding to a Set what it already holds) are skipped. NaN is compared through the axioms only (Go == says NaN != NaN; the property requires reflexivity). Pointer-only cycles (an association that is its own value) are outside the quantifier.",
        "rule": "copies-and-mutants: non-trivial = at least one structurally different mutant was checked on a value of depth >= 1 (mutants counted in extra). cyclic: every case. pools as in C07. distinct = distinct decoded cases.",
        "assumptions": ["a hang is decided by the 60 s watchdog, a fatal stack overflow by the per-case journal"],
    },
    "C09": {
        "parts": [{"pkg": "seq", "test": "TestC09", "subs": ["all-small-arrays", "random-arrays", "default-ranker"]}],
        "technique": "exhaustive enumeration of all arrays of length 0..7/0..9 over a 4-value alphabet x 7 rankers + rapid random arrays (shapes, power-of-two lengths); oracle = tagged-element permutation check and adjacent-pair order check; differential collection methods vs sorter",
        "level_text": "SortValues is run on every array of length 0..7 (quick) / 0..9 (thorough) over a 4-value alphabet under natural, reversed, coarse, constant, always-Lesser, always-Greater and hash-random rankers, and on random arrays up to length 700/5000 in six shapes. Elements carry their original position, so the output must be a permutation of the individual input elements; for total-preorder rankers no adjacent pair may rank Greater. ReverseValues must reverse exactly and be an involution, ShuffleValues must permute, and Array/List/Catalog Sort/Reverse/Shuffle must equal the sorter's effect on the equivalent Go array (catalogs must also keep the key-value pairing).",
        "level_note": "Stability is not required by the property and not checked. The 'random' inconsistent ranker is a pure hash of (a, b, salt), salt drawn from the generator. Termination is decided by the 60 s hang watchdog.",
        "rule": "all-small-arrays: exhaustive. random-arrays: length clustered at 2^k-1..2^k+1 or uniform, shapes random/dups/sorted/reversed/sawtooth/organpipe, via sorter/Array/List/Catalog. non-trivial = length >= 2 and (not already sorted under the ranker, or the ranker is inconsistent). distinct = distinct decoded cases.",
        "assumptions": [],
    },
    "C10": {
        "parts": [{"pkg": "notation", "test": "TestC10", "subs": ["roundtrip", "typed-fixpoint", "deep-and-cyclic", "format-histories"]}],
        "technique": "round-trip property testing (rapid) over a recursive generator of the canonical value universe; oracle = bit-exact abstract comparison before/after ParseSource(FormatValue(v)), text fixpoint, fresh-notation differential for call histories",
        "level_text": "Values are drawn from a recursive generator over the canonical universe (nil, bool, int64 and uint64 boundaries, every float64 magnitude class incl. exponent bands, subnormals and signed zero, complex, every rune class, strings with escapes and invalid UTF-8, all seven collection kinds, empty/singleton/multi-item, sizes to 40, nesting to the formatter's 8 levels), built through the class constructors, formatted, parsed, and compared bit-exactly through an abstraction function that uses the public API only; the parsed value must format to the same text (a Map with >= 2 entries: to a text that parses to the same value); String(), a notation instance and the module function must agree. Typed variants (int8..uint, float32, complex64, Go slices and maps) are checked for the text fixpoint. Deeper-than-limit nests and self-containing collections (cycle length 1..3, alone or among siblings) must return a text with the elision marker (a fatal stack overflow is caught through the case journal). Call histories mixing supported and unsupported values on one notation/formatter must print what a fresh notation prints.",
        "level_note": "Non-finite floats, invalid code points and non-intrinsic keys are outside the stated universe. Text size is bounded (the parser is quadratic). A self-containing Set is replaced by a List (inserting a set into itself needs the ranking C08 owns).",
        "rule": "roundtrip: non-trivial = the value contains a collection of >= 2 items or a leaf from a non-default class (exponent form, subnormal, boundary integer, non-ASCII or escaped rune/string). typed-fixpoint: >= 2 numbers. format-histories: a successful call follows a failed one. deep-and-cyclic: every case. distinct = distinct decoded cases (FNV-64 of the rendered value).",
        "assumptions": ["'never hangs' is decided by the 60 s watchdog; process death (stack overflow) by the per-case journal"],
    },
    "C11": {
        "parts": [{"pkg": "notation", "test": "TestC11", "subs": ["small-derivations", "random-derivations", "unrepresentable-literals"]}],
        "technique": "grammar-based generation (derivations of Syntax.cdsn with their denotation computed by the generator via strconv) - exhaustive for a small bound, rapid beyond; oracle = denotation comparison; controlled scanner/parser schedules for determinism",
        "level_text": "Sentences are derived from Syntax.cdsn by a generator that returns text and denotation together: every Items alternative (inline, multi-line, the empty forms), every Intrinsic alternative with every literal form (signed/unsigned/boundary integers, hexadecimal with 1-16 digits and leading zeros, floats with optional signs and e/E exponents of 1-3 digits of both signs, complex with all sign combinations, plain and escaped runes and strings), all seven type contexts, nesting, insignificant spaces, 0-3 trailing EOLs, token streams below, at and above the scanner queue capacity. The parsed object must match the denotation computed with strconv on the generator's side (kind, source order, Catalog first-position/last-value, Map last value, Set membership = de-duplicated literals and strictly ascending). Small derivations are enumerated completely; literals that cannot be represented (out-of-range integers/hex/floats, ill-formed escapes) inside valid documents must be rejected.",
        "level_note": "The published rune rule and the scanner disagree on quotes and escapes: only forms both accept are generated as sentences (plain non-control runes other than ' and \\, Go-valid escapes). A foreign quote escape (\\' in a string, \\\" in a rune) may be rejected or accepted with its one possible meaning. Float underflow to zero may be rejected or accepted. Determinism under perturbed goroutine schedules is decided by the controlled-scheduler part (conc package).",
        "rule": "small-derivations: exhaustive for the stated bound (one representative literal per alternative, <= 2 items, nesting 2). random-derivations: non-trivial = >= 2 items, or nesting >= 1, or a non-default literal form. unrepresentable-literals: 24 literals x 6 wrappers, exhaustive. distinct = distinct decoded cases.",
        "assumptions": ["standard Go semantics of a literal = strconv.ParseInt/ParseUint/ParseFloat/UnquoteChar/Unquote applied by the generator to the text it wrote"],
    },
    "C12": {
        "parts": [{"pkg": "notation", "test": "TestC12", "subs": ["all-single-edits", "mutants", "token-soup", "located-errors", "tails-after-error", "deep-nesting"],
                   "budget_s": {"quick": 900, "thorough": 5400}}],
        "technique": "mutation-based and grammar-based input generation (rapid) + exhaustive single-character edits of small documents; oracle = outcome classification (value | located syntax diagnostic whose quoted text must begin at the reported line/column | anything else is a violation) + goroutine-dump leak oracle; native go fuzzing with the same oracle in the thorough tier",
        "level_text": "Inputs: every prefix, every single-character deletion and every insertion/substitution from a 21-character hostile alphabet at every position of 8 small documents (exhaustive); 1-3 random edits (delete, insert, substitute, truncate, duplicate, swap) of grammar-derived documents; arbitrary bytes, arbitrary runes, valid tokens in invalid orders, item kinds that do not match the type context; an illegal character injected at a token boundary of multi-line documents (the diagnostic must be an error token at exactly that line and column); syntax errors followed by 0..40 further units (more than 16 tokens after the error point); nesting depth up to 600 (quick) / 2000 (thorough). Oracle: ParseSource returns a collection, or panics with a string of the documented shape whose quoted token text begins at the reported line/position of the input (rune-wise); a runtime.Error, any other payload, a hang (watchdog) or a dead process is a violation; afterwards no goroutine may remain inside the scanner (goroutine dump: polled until every scanner goroutine has finished or is blocked in a channel send; the latter is the leak).",
        "level_note": "Which token the parser blames is pinned down only in the located-errors sub-check, where it is unambiguous. Inputs are size-bounded (the scanner is quadratic); depth beyond 2000 is not explored (a Go stack overflow would need ~10^5 levels, minutes per parse).",
        "rule": "non-trivial = the input is rejected (outcome is a diagnostic); accepted inputs count as trivial. distinct = distinct decoded cases. classes report the diagnostic's token type, long tails and error lines.",
        "assumptions": ["'never hangs' = returns within 120 s on inputs of at most a few KiB (>= 100x the measured cost)", "the goroutine-dump leak oracle never reports a scanner that is still runnable"],
    },
    "C20": {
        "parts": [{"pkg": "notation", "test": "TestC20", "subs": ["constructors", "associations"]}],
        "technique": "differential property testing (rapid) of module-level vs class-level constructors over the cross product kind x argument form x element type x contents x notation position; exhaustive type-pair table for Association",
        "level_text": "For each of Array, List, Set, Stack, Queue, Catalog, Map, every documented argument form (none, size/capacity, Go array, Go map, sequence, collator alone and with values, CDCN source, each with the notation absent, first or last), element types int64, uint64, float64, string, rune, bool, any and contents of 0..20 values spanning the default capacity, the module-level result must equal the class-level constructor's on the same data: contents, order (maps: mapping), capacity, collator. The source form must equal what ParseSource gives for the same text, element by element. Association[K,V](k, v) is checked for all 49 type pairs, identical ones included.",
        "level_note": "Size/capacity 0 is not a documented argument and is not generated; an empty Go array is. For a Set built from source the expectation is a class-level set of the parsed values.",
        "rule": "constructors: non-trivial = contents non-empty and the form carries data. associations: every case. distinct = distinct decoded cases.",
        "assumptions": [],
    },
    "C13": {
        "parts": [{"pkg": "seq", "test": "TestC13", "subs": ["history", "words", "ctor-sizes"], "thorough_shards": 8}],
        "technique": "model-based stateful property testing (rapid) against a top-first slice model + exhaustive enumeration of push/pop words and constructor sizes",
        "level_text": "Generated histories over every constructor and operation of the quantifier are compared step by step with a reference model; the small spaces (all push/pop words to length 9/12 for capacities 1-3, all constructor sizes 0..33) are enumerated completely. This is bounded search, not proof.",
        "level_note": "Trusts the Go runtime and the harness model (a slice). Values are ints; capacity and sizes beyond the enumerated bounds are sampled only.",
        "rule": "history: rapid-generated constructor + 1..40 push/pop/clear/view operations checked step by step against a top-first slice model; "
                "non-trivial = the history reached a full or an empty stack at least once. words: every push/pop word up to the length bound for "
                "capacities 1..3 (exhaustive). ctor-sizes: MakeFromArray/MakeFromSequence for every initial size 0..33 (2*default+1) followed by pushes "
                "and pops past empty. distinct = distinct case encodings (FNV-64 of the decoded case).",
        "assumptions": ["the default capacity is read from the class (DefaultCapacity()), not assumed",
                        "a constructor given more values than the default capacity may either refuse (panic) or return a stack whose capacity covers them; both satisfy the statement"],
    },
}
