package notation

import (
	"fmt"
	"math"
	"reflect"
	"strconv"
	"strings"
	"testing"

	mod "github.com/craterdog/go-collection-framework/v4"
	age "github.com/craterdog/go-collection-framework/v4/agent"
	col "github.com/craterdog/go-collection-framework/v4/collection"
	"verifharness/core"
	"verifharness/lib"
	"verifharness/model"
)

// ---------------------------------------------------------------- C20: universal constructors

type ucCase struct {
	Kind     string `json:"kind"`     // Array List Set Stack Queue Catalog Map
	Form     string `json:"form"`     // none size array map sequence collator collator+array source
	Elem     string `json:"elem"`     // int64 uint64 float64 string rune bool any
	Codes    []int  `json:"codes"`    // contents (pool indices)
	Size     int    `json:"size"`     // size / capacity argument
	Notation string `json:"notation"` // absent first last
	SrcCtx   string `json:"src_ctx,omitempty"`
	Coarse   bool   `json:"coarse,omitempty"` // collator forms: the collator calls pool neighbours equal
}

var ucKinds = []string{"Array", "List", "Set", "Stack", "Queue", "Catalog", "Map"}
var ucElems = []string{"int64", "uint64", "float64", "string", "rune", "bool", "any"}

func ucForms(kind string) []string {
	switch kind {
	case "Array":
		return []string{"size", "array", "sequence", "source"}
	case "List":
		return []string{"none", "array", "sequence", "source"}
	case "Set":
		return []string{"none", "array", "sequence", "source", "collator", "collator+array", "collator+sequence"}
	case "Stack", "Queue":
		return []string{"none", "size", "array", "sequence", "source"}
	default:
		return []string{"none", "array", "map", "sequence", "source"}
	}
}

func genUC(s core.Source) ucCase {
	c := ucCase{Kind: core.Pick(s, ucKinds, "kind")}
	c.Form = core.Pick(s, ucForms(c.Kind), "form")
	c.Elem = core.Pick(s, ucElems, "elem")
	c.Notation = core.Pick(s, []string{"absent", "first", "last"}, "notation")
	c.Size = 1 + s.Choose(20, "size")
	var n int
	switch s.Choose(4, "nclass") {
	case 0:
		n = 0
	case 1:
		n = 15 + s.Choose(6, "n") // around the default capacity
	default:
		n = 1 + s.Choose(6, "n")
	}
	c.Codes = []int{}
	for i := 0; i < n; i++ {
		c.Codes = append(c.Codes, s.Choose(12, "code"))
	}
	if strings.HasPrefix(c.Form, "collator") {
		c.Coarse = s.Choose(2, "coarse") == 1
	}
	if c.Form == "source" {
		if model.Associative(c.Kind) {
			c.SrcCtx = core.Pick(s, []string{"Catalog", "Map", c.Kind}, "srcctx")
		} else {
			c.SrcCtx = core.Pick(s, []string{c.Kind, c.Kind, "List", "Set", "Stack", "Array", "Queue"}, "srcctx")
		}
	}
	return c
}

// pools: 12 values per element type, and their CDCN literals
type ucElem[V any] struct {
	pool []V
	lit  func(V) string
}

func anyLit(v any) string {
	switch t := v.(type) {
	case nil:
		return "nil"
	case int64:
		return strconv.FormatInt(t, 10)
	case uint64:
		return "0x" + strconv.FormatUint(t, 16)
	case float64:
		s := strconv.FormatFloat(t, 'f', -1, 64)
		if !strings.Contains(s, ".") {
			s += ".0"
		}
		return s
	case string:
		return strconv.Quote(t)
	case rune:
		return strconv.QuoteRune(t)
	case bool:
		return strconv.FormatBool(t)
	case col.ListLike[any]:
		parts := []string{}
		for _, x := range t.AsArray() {
			parts = append(parts, anyLit(x))
		}
		if len(parts) == 0 {
			return "[ ](List)"
		}
		return "[" + strings.Join(parts, ", ") + "](List)"
	}
	panic(core.HarnessError{Msg: fmt.Sprintf("no literal for %T", v)})
}

var (
	ueInt    = ucElem[int64]{[]int64{0, 1, -1, 2, 3, 5, 8, -13, 21, 1 << 40, -9223372036854775808, 9223372036854775807}, func(v int64) string { return anyLit(v) }}
	ueUint   = ucElem[uint64]{[]uint64{0, 1, 2, 3, 5, 8, 13, 255, 256, 1 << 40, 1 << 63, 18446744073709551615}, func(v uint64) string { return anyLit(v) }}
	ueFloat  = ucElem[float64]{[]float64{0, 1, -1, 0.5, 1.5, -2.25, 3.125, 100, 1234.5, -0.001, 99999.5, 7}, func(v float64) string { return anyLit(v) }}
	ueString = ucElem[string]{[]string{"", "a", "b", "ab", "abc", "x y", "q\"q", "line\n", "é", "[1](List)", "nil", "zz"}, func(v string) string { return anyLit(v) }}
	ueRune   = ucElem[rune]{[]rune{'a', 'b', 'c', 'A', '0', ' ', '\'', '\n', 'é', '😀', 'z', '~'}, func(v rune) string { return anyLit(v) }}
	ueBool   = ucElem[bool]{[]bool{true, false, true, false, true, false, true, false, true, false, true, false}, func(v bool) string { return anyLit(v) }}
)

func ueAny() ucElem[any] {
	L := col.List[any](model.Notation())
	return ucElem[any]{[]any{int64(1), "a", 1.5, true, uint64(0), 'x', nil, int64(0), "", L.MakeFromArray([]any{int64(1), "", nil}), L.Make(), false}, anyLit}
}

func execUC(c ucCase, _ core.Source) core.Result {
	switch c.Elem {
	case "int64":
		return runUC(c, ueInt)
	case "uint64":
		return runUC(c, ueUint)
	case "float64":
		return runUC(c, ueFloat)
	case "string":
		return runUC(c, ueString)
	case "rune":
		return runUC(c, ueRune)
	case "bool":
		return runUC(c, ueBool)
	default:
		return runUC(c, ueAny())
	}
}

// same compares two element values: leaves with ==, collections through the abstraction
func same(a, b any) bool {
	aa, ab := model.Abstract(a), model.Abstract(b)
	if aa.K == model.Opaque || ab.K == model.Opaque {
		return reflect.DeepEqual(a, b)
	}
	return model.Identical(aa, ab)
}

func sameSeq[V any](a []V, b []any) bool {
	if len(a) != len(b) {
		return false
	}
	for i := range a {
		if !same(any(a[i]), b[i]) {
			return false
		}
	}
	return true
}

func toAny[V any](xs []V) []any {
	out := make([]any, len(xs))
	for i, x := range xs {
		out[i] = x
	}
	return out
}

func withNotation(pos string, args ...any) []any {
	if pos != "absent" {
		// the notation handed to the constructor has a past: it has just refused a malformed source
		lib.Call(func() { model.Notation().ParseSource("[1, 2, 3(List)") })
		lib.Call(func() { model.Notation().ParseSource("[1 2](Array)") })
	}
	switch pos {
	case "first":
		return append([]any{model.Notation()}, args...)
	case "last":
		return append(args, model.Notation())
	}
	return args
}

// keyed kinds use int64 keys 0..n-1 derived from the position (distinct), K = int64
func runUC[V any](c ucCase, ue ucElem[V]) (res core.Result) {
	n := model.Notation()
	vals := make([]V, len(c.Codes))
	for i, k := range c.Codes {
		vals[i] = ue.pool[k%len(ue.pool)]
	}
	lits := make([]string, len(vals))
	for i, v := range vals {
		lits[i] = ue.lit(v)
	}
	desc := fmt.Sprintf("%s[%s](%s form, %d values, notation %s)", c.Kind, c.Elem, c.Form, len(vals), c.Notation)
	res.Classes = append(res.Classes, "kind-"+c.Kind, "form-"+c.Form, "elem-"+c.Elem)
	res.NonTrivial = len(vals) > 0 && c.Form != "none" && c.Form != "size" && c.Form != "collator"

	// the reversed harness collator for the Set forms
	natural := age.Collator[V]().Make()
	reversed := &revCollator[V]{inner: natural}
	if c.Coarse {
		// a collator of the caller's own that calls neighbours in the pool equal (first and second, third and
		// fourth, ...): which of two such values a set keeps is decided by the order they are added in
		pool := ue.pool
		reversed = &revCollator[V]{inner: natural, class: func(v V) int {
			for i := range pool {
				if same(any(v), any(pool[i])) {
					return i / 2
				}
			}
			return -1
		}}
		res.Classes = append(res.Classes, "coarse-collator")
	}

	fail := func(sig, format string, args ...any) core.Result {
		res.Violation = core.Violate("C20/"+c.Kind+"/"+c.Form+"/"+sig, desc+": "+format, args...)
		return res
	}

	if model.Associative(c.Kind) {
		// data
		A := col.Association[int64, V](n)
		assocs := []col.AssociationLike[int64, V]{}
		gomap := map[int64]V{}
		srcItems := []string{}
		for i, v := range vals {
			k := int64(i % 7) // repeated keys on purpose
			assocs = append(assocs, A.Make(k, v))
			gomap[k] = v
			srcItems = append(srcItems, fmt.Sprintf("%d: %s", k, lits[i]))
		}
		source := "[" + strings.Join(srcItems, ", ") + "](" + c.SrcCtx + ")"
		if len(srcItems) == 0 {
			source = "[:](" + c.SrcCtx + ")"
		}
		var args []any
		switch c.Form {
		case "array":
			args = []any{assocs}
		case "map":
			args = []any{gomap}
		case "sequence":
			args = []any{col.List[col.AssociationLike[int64, V]](n).MakeFromArray(assocs)}
		case "source":
			args = []any{source}
		}
		args = withNotation(c.Notation, args...)
		type assocView interface {
			col.Associative[int64, V]
			col.Sequential[col.AssociationLike[int64, V]]
		}
		var got, want assocView
		if c.Form == "source" {
			lib.Call(func() {
				var earlier assocView
				if c.Kind == "Catalog" {
					earlier = mod.Catalog[int64, V](args...)
				} else {
					earlier = mod.Map[int64, V](args...)
				}
				for _, a := range earlier.AsArray() {
					scribble(any(a.GetValue()))
				}
			})
		}
		p, payload := lib.Call(func() {
			if c.Kind == "Catalog" {
				got = mod.Catalog[int64, V](args...)
			} else {
				got = mod.Map[int64, V](args...)
			}
		})
		if p {
			return fail("panicked", "the module-level constructor panicked: %s", lib.Short(payload))
		}
		pairsOf := func(v assocView) ([]int64, []any) {
			var ks []int64
			var vs []any
			for _, a := range v.AsArray() {
				ks = append(ks, a.GetKey())
				vs = append(vs, any(a.GetValue()))
			}
			return ks, vs
		}
		var wantK []int64
		var wantV []any
		if c.Form == "source" {
			var parsed any
			if p, payload := lib.Call(func() { parsed = mod.ParseSource(source) }); p {
				panic(core.HarnessError{Msg: "harness source does not parse: " + source + " " + lib.Short(payload)})
			}
			for _, a := range parsed.(col.Sequential[col.AssociationLike[any, any]]).AsArray() {
				wantK = append(wantK, a.GetKey().(int64))
				wantV = append(wantV, a.GetValue())
			}
		} else {
			lib.Call(func() {
				if c.Kind == "Catalog" {
					C := col.Catalog[int64, V](n)
					switch c.Form {
					case "none":
						want = C.Make()
					case "array":
						want = C.MakeFromArray(assocs)
					case "map":
						want = C.MakeFromMap(gomap)
					case "sequence":
						want = C.MakeFromSequence(col.List[col.AssociationLike[int64, V]](n).MakeFromArray(assocs))
					}
				} else {
					M := col.Map[int64, V](n)
					switch c.Form {
					case "none":
						want = M.Make()
					case "array":
						want = M.MakeFromArray(assocs)
					case "map":
						want = M.MakeFromMap(gomap)
					case "sequence":
						want = M.MakeFromSequence(col.List[col.AssociationLike[int64, V]](n).MakeFromArray(assocs))
					}
				}
			})
			wantK, wantV = pairsOf(want)
		}
		gotK, gotV := pairsOf(got)
		ordered := c.Kind == "Catalog" && c.Form != "map" && !(c.Form == "source" && c.SrcCtx == "Map")
		if len(gotK) != len(wantK) {
			return fail("contents", "has %d associations %v, expected %d %v", len(gotK), gotK, len(wantK), wantK)
		}
		if ordered {
			for i := range gotK {
				if gotK[i] != wantK[i] || !same(gotV[i], wantV[i]) {
					return fail("contents", "association %d is %v:%v, expected %v:%v", i+1, gotK[i], gotV[i], wantK[i], wantV[i])
				}
			}
		} else {
			for i := range wantK {
				hit := false
				for j := range gotK {
					if gotK[j] == wantK[i] && same(gotV[j], wantV[i]) {
						hit = true
					}
				}
				if !hit {
					return fail("contents", "lacks the association %v:%v (has keys %v)", wantK[i], wantV[i], gotK)
				}
			}
		}
		return res
	}

	// value kinds
	// the sequence handed to the constructors is a List, an Array, or a Set ordered by a reversed collator
	// (whose order and collator are its own business: the new collection is built from its values)
	var seqArg col.Sequential[V] = col.List[V](n).MakeFromArray(vals)
	// the sequence the class-level constructor gets for comparison (the same data, another object)
	var refArg col.Sequential[V] = col.List[V](n).MakeFromArray(vals)
	switch (len(c.Codes) + c.Size) % 4 {
	case 1:
		seqArg = col.Array[V](n).MakeFromArray(vals)
	case 2:
		rs := col.Set[V](n).MakeWithCollator(reversed)
		for _, v := range vals {
			rs.AddValue(v)
		}
		seqArg, refArg = rs, rs
	case 3:
		// a sequence an application wrote itself: its AsArray() hands out its own backing array
		seqArg = &appSequence[V]{backing: append([]V{}, vals...)}
		res.Classes = append(res.Classes, "application-sequence")
	}
	if (c.Form == "sequence" || c.Form == "collator+sequence") && len(vals) > 1 {
		// an earlier caller made a collection from the very same sequence object and changed it in place
		lib.Call(func() {
			var earlier any
			seqArgs := withNotation(c.Notation, seqArg)
			switch c.Kind {
			case "Array":
				earlier = mod.Array[V](seqArgs...)
			case "List":
				earlier = mod.List[V](seqArgs...)
			case "Stack":
				earlier = mod.Stack[V](seqArgs...)
			}
			if u, ok := earlier.(col.Sortable[V]); ok {
				u.ReverseValues()
			}
			if st, ok := earlier.(col.StackLike[V]); ok {
				st.RemoveTop()
			}
		})
	}
	source := "[" + strings.Join(lits, ", ") + "](" + c.SrcCtx + ")"
	if len(lits) == 0 {
		source = "[ ](" + c.SrcCtx + ")"
	}
	var args []any
	switch c.Form {
	case "size":
		if len(c.Codes)%2 == 0 {
			args = []any{uint(c.Size)}
		} else {
			args = []any{c.Size}
		}
	case "array":
		args = []any{vals}
	case "sequence":
		args = []any{seqArg}
	case "source":
		args = []any{source}
	case "collator":
		args = []any{age.CollatorLike[V](reversed)}
	case "collator+array":
		args = []any{age.CollatorLike[V](reversed), vals}
	case "collator+sequence":
		args = []any{seqArg, age.CollatorLike[V](reversed)}
	}
	args = withNotation(c.Notation, args...)
	var got col.Sequential[V]
	var gotCap, wantCap uint
	if c.Form == "source" {
		// an earlier caller built a collection from the same source and changed, in place, the collections nested
		// in what it got: they were its own
		lib.Call(func() {
			var earlier col.Sequential[V]
			switch c.Kind {
			case "Array":
				earlier = mod.Array[V](args...)
			case "List":
				earlier = mod.List[V](args...)
			case "Set":
				earlier = mod.Set[V](args...)
			case "Stack":
				earlier = mod.Stack[V](args...)
			case "Queue":
				earlier = mod.Queue[V](args...)
			}
			for _, e := range earlier.AsArray() {
				scribble(any(e))
			}
		})
	}
	p, payload := lib.Call(func() {
		switch c.Kind {
		case "Array":
			got = mod.Array[V](args...)
		case "List":
			got = mod.List[V](args...)
		case "Set":
			got = mod.Set[V](args...)
		case "Stack":
			s := mod.Stack[V](args...)
			got, gotCap = s, s.GetCapacity()
		case "Queue":
			q := mod.Queue[V](args...)
			got, gotCap = q, q.GetCapacity()
		}
	})
	if p {
		return fail("panicked", "the module-level constructor panicked: %s", lib.Short(payload))
	}
	var wantArr []any
	if c.Form == "source" {
		var parsed any
		if p, payload := lib.Call(func() { parsed = mod.ParseSource(source) }); p {
			panic(core.HarnessError{Msg: "harness source does not parse: " + source + " " + lib.Short(payload)})
		}
		wantArr = parsed.(interface{ AsArray() []any }).AsArray()
		if c.Kind == "Set" && c.SrcCtx == "Set" {
			// the source denotes a Set: the constructor returns what the parser returns, member by member -- and
			// what the class-level constructor makes of the values the source lists
			ref := col.Set[V](n).MakeFromArray(vals)
			if !sameSeq(ref.AsArray(), wantArr) {
				return fail("parsed-set-differs-from-class-level", "ParseSource gives %v, Set.MakeFromArray of the listed values %v", wantArr, ref.AsArray())
			}
		} else if c.Kind == "Set" {
			// a Set orders and de-duplicates what the source lists: compare with a class-level set of the same values
			ref := col.Set[V](n).Make()
			for _, x := range wantArr {
				v, _ := x.(V) // a nil element stays the zero value of an interface type
				ref.AddValue(v)
			}
			wantArr = toAny(ref.AsArray())
		}
		switch c.Kind {
		case "Stack":
			wantCap = col.Stack[V](n).DefaultCapacity()
		case "Queue":
			wantCap = col.Queue[V](n).DefaultCapacity()
		}
		if uint(len(wantArr)) > wantCap {
			wantCap = uint(len(wantArr))
		}
	} else {
		var want col.Sequential[V]
		if p, payload := lib.Call(func() {
			switch c.Kind {
			case "Array":
				A := col.Array[V](n)
				switch c.Form {
				case "size":
					want = A.Make(uint(c.Size))
				case "array":
					want = A.MakeFromArray(vals)
				case "sequence":
					want = A.MakeFromSequence(refArg)
				}
			case "List":
				L := col.List[V](n)
				switch c.Form {
				case "none":
					want = L.Make()
				case "array":
					want = L.MakeFromArray(vals)
				case "sequence":
					want = L.MakeFromSequence(refArg)
				}
			case "Set":
				S := col.Set[V](n)
				switch c.Form {
				case "none":
					want = S.Make()
				case "array":
					want = S.MakeFromArray(vals)
				case "sequence":
					want = S.MakeFromSequence(refArg)
				case "collator":
					want = S.MakeWithCollator(reversed)
				case "collator+array":
					s := S.MakeWithCollator(reversed)
					for _, v := range vals {
						s.AddValue(v)
					}
					want = s
				case "collator+sequence":
					s := S.MakeWithCollator(reversed)
					s.AddValues(refArg)
					want = s
				}
			case "Stack":
				S := col.Stack[V](n)
				var s col.StackLike[V]
				switch c.Form {
				case "none":
					s = S.Make()
				case "size":
					s = S.MakeWithCapacity(uint(c.Size))
				case "array":
					s = S.MakeFromArray(vals)
				case "sequence":
					s = S.MakeFromSequence(refArg)
				}
				want, wantCap = s, s.GetCapacity()
			case "Queue":
				Q := col.Queue[V](n)
				var q col.QueueLike[V]
				switch c.Form {
				case "none":
					q = Q.Make()
				case "size":
					q = Q.MakeWithCapacity(uint(c.Size))
				case "array":
					q = Q.MakeFromArray(vals)
				case "sequence":
					q = Q.MakeFromSequence(refArg)
				}
				want, wantCap = q, q.GetCapacity()
			}
		}); p {
			panic(core.HarnessError{Msg: "class-level constructor panicked: " + lib.Short(payload)})
		}
		wantArr = toAny(want.AsArray())
	}
	if !sameSeq(got.AsArray(), wantArr) {
		return fail("contents", "holds %v, expected %v", got.AsArray(), wantArr)
	}
	if (c.Kind == "Stack" || c.Kind == "Queue") && gotCap != wantCap {
		return fail("capacity", "has capacity %d, expected %d", gotCap, wantCap)
	}
	if c.Kind == "Set" && strings.HasPrefix(c.Form, "collator") {
		if s, ok := got.(col.SetLike[V]); !ok || s.GetCollator() != age.CollatorLike[V](reversed) {
			return fail("collator", "does not carry the collator that was passed")
		}
	}
	return res
}

type revCollator[V any] struct {
	inner age.CollatorLike[V]
	class func(V) int // when set: values are ranked by their class alone
}

func (c *revCollator[V]) GetClass() age.CollatorClassLike[V] { return age.Collator[V]() }
func (c *revCollator[V]) CompareValues(a, b V) bool {
	if c.class != nil {
		return c.class(a) == c.class(b)
	}
	return c.inner.CompareValues(a, b)
}
func (c *revCollator[V]) RankValues(a, b V) age.Rank {
	if c.class != nil {
		switch x, y := c.class(a), c.class(b); {
		case x < y:
			return age.GreaterRank
		case x > y:
			return age.LesserRank
		}
		return age.EqualRank
	}
	switch c.inner.RankValues(a, b) {
	case age.LesserRank:
		return age.GreaterRank
	case age.GreaterRank:
		return age.LesserRank
	}
	return age.EqualRank
}
func (c *revCollator[V]) GetDepth() int   { return 0 }
func (c *revCollator[V]) GetMaximum() int { return 16 }

// ---------------------------------------------------------------- Association(k, v) for every pair of types

type assocPairCase struct {
	K  string `json:"k"`
	V  string `json:"v"`
	KI int    `json:"ki"`
	VI int    `json:"vi"`
	N  string `json:"notation"`
}

func assocOne[K comparable, V any](k K, v V, npos string) *core.Violation {
	args := withNotation(npos, any(k), any(v))
	var a col.AssociationLike[K, V]
	p, payload := lib.Call(func() { a = mod.Association[K, V](args...) })
	sig := fmt.Sprintf("C20/Association/%T,%T", k, v)
	if p {
		return core.Violate(sig+"/panicked", "Association[%T,%T](%#v, %#v) panicked: %s", k, v, k, v, lib.Short(payload))
	}
	if any(a.GetKey()) != any(k) || !same(any(a.GetValue()), any(v)) {
		return core.Violate(sig+"/wrong", "Association[%T,%T](%#v, %#v) has key %#v and value %#v", k, v, k, v, a.GetKey(), a.GetValue())
	}
	return nil
}

func assocRow[K comparable](k K, c assocPairCase) *core.Violation {
	switch c.V {
	case "int64":
		return assocOne(k, ueInt.pool[c.VI], c.N)
	case "uint64":
		return assocOne(k, ueUint.pool[c.VI], c.N)
	case "float64":
		return assocOne(k, ueFloat.pool[c.VI], c.N)
	case "string":
		return assocOne(k, ueString.pool[c.VI], c.N)
	case "rune":
		return assocOne(k, ueRune.pool[c.VI], c.N)
	case "bool":
		return assocOne(k, ueBool.pool[c.VI], c.N)
	default:
		return assocOne[K, any](k, ueAny().pool[c.VI], c.N)
	}
}

func execAssocPair(c assocPairCase, _ core.Source) (res core.Result) {
	switch c.K {
	case "int64":
		res.Violation = assocRow(ueInt.pool[c.KI], c)
	case "uint64":
		res.Violation = assocRow(ueUint.pool[c.KI], c)
	case "float64":
		res.Violation = assocRow(ueFloat.pool[c.KI], c)
	case "string":
		res.Violation = assocRow(ueString.pool[c.KI], c)
	case "rune":
		res.Violation = assocRow(ueRune.pool[c.KI], c)
	case "bool":
		res.Violation = assocRow(ueBool.pool[c.KI], c)
	default:
		pool := []any{int64(1), "a", 1.5, true, uint64(7), 'x'}
		res.Violation = assocRow[any](pool[c.KI%len(pool)], c)
	}
	res.NonTrivial = true
	if c.K == c.V {
		res.Classes = append(res.Classes, "identical-types")
	}
	return
}

func TestC20(t *testing.T) {
	r := core.Begin(t, "C20")
	defer r.End()
	core.DFS(r, core.Check[mapFormCase]{Name: "map-form-keys", Gen: func(s core.Source) mapFormCase {
		return mapFormCase{Kind: core.Pick(s, []string{"Catalog", "Map"}, "kind"), Keys: core.Pick(s, []string{"float64", "any", "pointer"}, "keys"), Mask: s.Choose(64, "mask"), Note: core.Pick(s, []string{"absent", "first", "last"}, "notation")}
	}, Exec: execMapForm, NoJournal: true}, 0)
	core.Rapid(r, core.Check[ucCase]{Name: "constructors", Gen: genUC, Exec: execUC}, r.N(6000, 40000))
	core.DFS(r, core.Check[assocPairCase]{Name: "associations", NoJournal: true,
		Gen: func(s core.Source) assocPairCase {
			return assocPairCase{K: core.Pick(s, ucElems, "k"), V: core.Pick(s, ucElems, "v"), KI: s.Choose(4, "ki"), VI: s.Choose(6, "vi"), N: core.Pick(s, []string{"absent", "first", "last"}, "n")}
		}, Exec: execAssocPair}, 0)
}

// ---------------------------------------------------------------- the Go-map form with keys that are hard to look up

// Catalog[K, V](goMap) and Map[K, V](goMap) hold what the class-level MakeFromMap holds: every entry of the Go
// map, also one whose key is not equal to itself (NaN), keys that only the collator calls equal (pointers to
// equal numbers, int8(1) next to int64(1) under K = any) each with its own value.
type mapFormCase struct {
	Kind string `json:"kind"` // Catalog Map
	Keys string `json:"keys"` // float64 any pointer
	Mask int    `json:"mask"` // which keys of the pool are present
	Note string `json:"notation"`
}

var mapFormPointers = func() []*int {
	a, b, c := 1, 1, 2
	return []*int{&a, &b, &c}
}()

func execMapForm(c mapFormCase, _ core.Source) core.Result {
	switch c.Keys {
	case "float64":
		return mapForm(c, []float64{math.NaN(), 0, 2.5, 1.5, math.Inf(-1), math.Float64frombits(0x7ff8000000000002)},
			func(k float64) string { return fmt.Sprintf("%v#%x", k, math.Float64bits(k)) })
	case "pointer":
		return mapForm(c, mapFormPointers, func(k *int) string { return fmt.Sprintf("%p", k) })
	}
	return mapForm(c, []any{int8(1), int64(1), "1", math.NaN(), 1.0, uint8(1)}, func(k any) string {
		if f, ok := k.(float64); ok {
			return fmt.Sprintf("float64#%x", math.Float64bits(f))
		}
		return fmt.Sprintf("%T(%v)", k, k)
	})
}

func mapForm[K comparable](c mapFormCase, pool []K, ident func(K) string) (res core.Result) {
	n := model.Notation()
	gomap := map[K]int64{}
	want := map[string]int{}
	for i, k := range pool {
		if c.Mask&(1<<i) != 0 {
			gomap[k] = int64(10 + i)
			want[fmt.Sprintf("%s:%d", ident(k), 10+i)]++
		}
	}
	args := withNotation(c.Note, any(gomap))
	type view interface {
		col.Sequential[col.AssociationLike[K, int64]]
	}
	var got, class view
	desc := fmt.Sprintf("%s[%s, int64](Go map with the entries %v, notation %s)", c.Kind, c.Keys, want, c.Note)
	if p, payload := lib.Call(func() {
		if c.Kind == "Catalog" {
			got, class = mod.Catalog[K, int64](args...), col.Catalog[K, int64](n).MakeFromMap(gomap)
		} else {
			got, class = mod.Map[K, int64](args...), col.Map[K, int64](n).MakeFromMap(gomap)
		}
	}); p {
		res.Violation = core.Violate("C20/"+c.Kind+"/map/panicked", "%s panicked: %s", desc, lib.Short(payload))
		return
	}
	count := func(v view) map[string]int {
		out := map[string]int{}
		for _, a := range v.AsArray() {
			out[fmt.Sprintf("%s:%d", ident(a.GetKey()), a.GetValue())]++
		}
		return out
	}
	g, w := count(got), count(class)
	if fmt.Sprint(g) != fmt.Sprint(w) || fmt.Sprint(w) != fmt.Sprint(want) {
		res.Violation = core.Violate("C20/"+c.Kind+"/map/contents", "%s holds %v, the class-level MakeFromMap holds %v, the Go map %v", desc, g, w, want)
		return
	}
	res.NonTrivial = len(want) > 0
	res.Classes = append(res.Classes, "kind-"+c.Kind, "keys-"+c.Keys)
	return
}

// appSequence is a Sequential[V] the library did not make
type appSequence[V any] struct{ backing []V }

func (s *appSequence[V]) AsArray() []V  { return s.backing }
func (s *appSequence[V]) GetSize() int  { return len(s.backing) }
func (s *appSequence[V]) IsEmpty() bool { return len(s.backing) == 0 }
func (s *appSequence[V]) GetIterator() age.IteratorLike[V] {
	return age.Iterator[V]().MakeFromArray(s.backing)
}
