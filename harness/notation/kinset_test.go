package notation

import (
	"strconv"
	"strings"

	"verifharness/cdcngen"
	"verifharness/core"
	"verifharness/model"
)

// ---------------------------------------------------------------- Set literals whose items are kin

// A Set orders what its literal lists, so parsing one ranks its items against each other -- the one place
// where the meaning of a document depends on the collator.  The random derivations seldom put two items of
// one kind that are hard to tell apart into one Set; this family does nothing else: integers from both ends
// of the int64 range (2^63 or more apart), unsigned values around 2^63, strings and runes that share leading
// bytes, and Lists, Sets, Catalogs and Maps of which one is a prefix of the other or which differ in their last
// item only.  The expected Set holds every distinct item once, in the reference order (model.Ord).
type kinItem struct {
	lit string
	den model.Val
}

func kinInt(i int64) kinItem {
	return kinItem{strconv.FormatInt(i, 10), model.VInt(i)}
}
func kinUint(u uint64) kinItem {
	return kinItem{"0x" + strconv.FormatUint(u, 16), model.VUint(u)}
}
func kinStr(s string) kinItem { return kinItem{strconv.Quote(s), model.VStr(s)} }
func kinRune(r rune) kinItem  { return kinItem{strconv.QuoteRune(r), model.VRune(r)} }
func kinSeq(ck string, items ...kinItem) kinItem {
	var lits []string
	var dens []model.Val
	for _, it := range items {
		lits = append(lits, it.lit)
		dens = append(dens, it.den)
	}
	body := strings.Join(lits, ", ")
	if len(items) == 0 {
		body = " "
	}
	return kinItem{"[" + body + "](" + ck + ")", model.VColl(ck, dens...)}
}
func kinAssoc(ck string, kv ...kinItem) kinItem {
	var lits []string
	var pairs []model.Pair
	for i := 0; i+1 < len(kv); i += 2 {
		lits = append(lits, kv[i].lit+": "+kv[i+1].lit)
		pairs = append(pairs, model.Pair{Key: kv[i].den, Value: kv[i+1].den})
	}
	body := strings.Join(lits, ", ")
	if len(lits) == 0 {
		body = ":"
	}
	return kinItem{"[" + body + "](" + ck + ")", model.VAssoc(ck, pairs...)}
}

var kinNil = kinItem{"nil", model.VNil()}

var kinPools = map[string][]kinItem{
	"int":    {kinInt(-9223372036854775808), kinInt(-9223372036854775807), kinInt(-1), kinInt(0), kinInt(1), kinInt(9223372036854775806), kinInt(9223372036854775807)},
	"uint":   {kinUint(0), kinUint(1), kinUint(1<<63 - 1), kinUint(1 << 63), kinUint(1<<63 + 1), kinUint(1<<64 - 1)},
	"string": {kinStr(""), kinStr("a"), kinStr("ab"), kinStr("b"), kinStr("é"), kinStr("ü"), kinStr("aé")},
	"rune":   {kinRune('a'), kinRune('b'), kinRune('é'), kinRune('ü'), kinRune('~'), kinRune('😀')},
	"List": {kinSeq("List"), kinSeq("List", kinInt(1)), kinSeq("List", kinInt(1), kinInt(2)), kinSeq("List", kinInt(1), kinInt(3)), kinSeq("List", kinInt(2)),
		kinSeq("List", kinInt(-1)), kinSeq("List", kinInt(9223372036854775807))},
	"Set": {kinSeq("Set"), kinSeq("Set", kinInt(1)), kinSeq("Set", kinInt(1), kinInt(2)), kinSeq("Set", kinInt(2)), kinSeq("Set", kinInt(1), kinInt(3))},
	"Catalog": {kinAssoc("Catalog"), kinAssoc("Catalog", kinStr("a"), kinInt(1)), kinAssoc("Catalog", kinStr("a"), kinInt(1), kinStr("b"), kinInt(2)),
		kinAssoc("Catalog", kinStr("a"), kinInt(1), kinStr("b"), kinInt(3)), kinAssoc("Catalog", kinStr("b"), kinInt(2), kinStr("a"), kinInt(1)), kinAssoc("Catalog", kinStr("a"), kinInt(2))},
	"Map": {kinAssoc("Map"), kinAssoc("Map", kinStr("a"), kinInt(1)), kinAssoc("Map", kinStr("a"), kinInt(1), kinStr("b"), kinInt(2)),
		kinAssoc("Map", kinStr("a"), kinInt(1), kinStr("b"), kinInt(3)), kinAssoc("Map", kinStr("a"), kinInt(2)), kinAssoc("Map", kinStr("b"), kinInt(1)),
		kinAssoc("Map", kinNil, kinInt(1)), kinAssoc("Map", kinStr("a"), kinInt(1), kinStr("b"), kinInt(2), kinStr("c"), kinInt(3))},
}

var kinKinds = []string{"int", "uint", "string", "rune", "List", "Set", "Catalog", "Map"}

type kinCase struct {
	Kind   string `json:"kind"`
	Picks  []int  `json:"picks"`
	Nested bool   `json:"nested"` // the Set is the one item of a List
	Multi  bool   `json:"multi"`  // one item per line
}

func genKin(s core.Source) kinCase {
	c := kinCase{Kind: core.Pick(s, kinKinds, "kind"), Nested: s.Choose(4, "nested") == 0, Multi: s.Choose(3, "multi") == 0, Picks: []int{}}
	n := 2 + s.Choose(4, "n")
	for i := 0; i < n; i++ {
		c.Picks = append(c.Picks, s.Choose(len(kinPools[c.Kind]), "pick"))
	}
	return c
}

func (c kinCase) doc() cdcngen.Doc {
	pool := kinPools[c.Kind]
	var lits []string
	var dens []model.Val
	for _, p := range c.Picks {
		it := pool[p%len(pool)]
		lits = append(lits, it.lit)
		dens = append(dens, it.den)
	}
	text := "[" + strings.Join(lits, ", ") + "](Set)"
	if c.Multi {
		text = "[\n    " + strings.Join(lits, "\n    ") + "\n](Set)"
	}
	den := model.VColl("Set", dens...)
	if c.Nested {
		text = "[" + text + "](List)"
		den = model.VColl("List", den)
	}
	return cdcngen.Doc{Text: text + "\n", Den: den}
}

func execKin(c kinCase, s core.Source) (res core.Result) {
	res = execDoc(docCase{Doc: c.doc(), Classes: []string{"kin-" + c.Kind}}, s)
	distinct := map[int]bool{}
	for _, p := range c.Picks {
		distinct[p] = true
	}
	res.NonTrivial = len(distinct) >= 2
	return
}

// ---------------------------------------------------------------- long documents of distinct literals

// Documents with dozens to hundreds of items that are all different literals of one kind (strings, runes,
// complex numbers, integers) or of all kinds in turn: whatever the parser remembers per literal must keep up.
type longDocCase struct {
	Kind    string `json:"kind"` // string rune complex int mixed
	N       int    `json:"n"`
	Context string `json:"context"`
	Multi   bool   `json:"multi"`
	Break   int    `json:"break,omitempty"` // C12: 1-based item in front of which an illegal character is put (0: none)
}

func genLongDoc(withBreak bool) func(core.Source) longDocCase {
	return func(s core.Source) longDocCase {
		c := longDocCase{Kind: core.Pick(s, []string{"string", "rune", "complex", "int", "mixed"}, "kind"), Context: core.Pick(s, []string{"List", "Array", "Stack", "Set"}, "context"), Multi: s.Choose(2, "multi") == 1}
		c.N = []int{17, 33, 60, 64, 65, 66, 100, 129, 200, 300}[s.Choose(10, "n")]
		if withBreak && s.Choose(2, "break") == 1 {
			c.Break = 1 + s.Choose(c.N, "at")
		}
		return c
	}
}

func longItem(kind string, i int) kinItem {
	switch kind {
	case "string":
		return kinStr("s" + strconv.Itoa(i))
	case "rune":
		return kinRune(rune(0x100 + i))
	case "complex":
		return kinItem{"(" + strconv.Itoa(i) + ".0+1.0i)", model.VComplex(complex(float64(i), 1))}
	case "int":
		return kinInt(int64(i) * 1000003)
	}
	return longItem([]string{"string", "rune", "complex", "int"}[i%4], i)
}

func (c longDocCase) doc() (cdcngen.Doc, int) {
	var lits []string
	var dens []model.Val
	for i := 0; i < c.N; i++ {
		it := longItem(c.Kind, i)
		lits = append(lits, it.lit)
		dens = append(dens, it.den)
	}
	if c.Break > 0 {
		lits[c.Break-1] = "$" + lits[c.Break-1]
	}
	text := "[" + strings.Join(lits, ", ") + "](" + c.Context + ")\n"
	if c.Multi {
		text = "[\n    " + strings.Join(lits, "\n    ") + "\n](" + c.Context + ")\n"
	}
	return cdcngen.Doc{Text: text, Den: model.VColl(c.Context, dens...)}, c.N
}

func execLongDoc(c longDocCase, s core.Source) (res core.Result) {
	d, _ := c.doc()
	// the same text several times: the outcome must not depend on anything but the text
	for round := 0; round < 2 && res.Violation == nil; round++ {
		res = execDoc(docCase{Doc: d, Classes: []string{"long-" + c.Kind}}, s)
	}
	res.NonTrivial = true
	return
}
