package notation

import (
	"fmt"
	"strings"

	mod "github.com/craterdog/go-collection-framework/v4"
	"verifharness/core"
	"verifharness/lib"
)

// ---------------------------------------------------------------- C12: which token does the diagnostic name?

// The sub-check builds documents from a known token list (so that every token's line and column are known
// without scanning), damages them at the token level, and compares the token the diagnostic names with a
// reference recognizer for the token grammar of Syntax.cdsn:
//
//	Document:    Collection EOL* EOF
//	Collection:  "[" Items "]" "(" type ")"
//	Items:       (nothing) | ":" | Value ("," Value)* | Association ("," Association)*
//	             | (EOL Value)+ EOL | (EOL Association)+ EOL
//	Association: intrinsic ":" Value          Value: intrinsic | Collection
//
// The recognizer follows every alternative and remembers the furthest token any of them reached: that is the
// first token no sentence can continue with (the unexpected token), together with the constructs that were
// still open there.  A diagnostic may name the unexpected token itself or the first token of a construct that
// is open at that point (the parser reports a missing colon at the key, for instance); naming a token of a
// construct that was already complete, or a token behind the unexpected one, is wrong.

type rtok struct {
	Kind string `json:"k"` // [ ] ( ) : , EOL type lit EOF
	Text string `json:"t"`
	line int
	pos  int
}

type refParser struct {
	toks      []rtok
	far       int
	farStacks [][]int
}

func (p *refParser) fail(i int, stack []int) {
	if i > p.far {
		p.far, p.farStacks = i, nil
	}
	if i == p.far {
		p.farStacks = append(p.farStacks, append([]int{}, stack...))
	}
}

func (p *refParser) expect(i int, kind string, stack []int) bool {
	if p.toks[i].Kind == kind {
		return true
	}
	p.fail(i, stack)
	return false
}

type itemsEnd struct {
	next  int
	assoc bool
	empty bool // "[ ]" or "[:]": the library takes either for an empty collection of any type
}

func (p *refParser) value(i int, stack []int) []int {
	var out []int
	if p.toks[i].Kind == "lit" {
		out = append(out, i+1)
	} else if p.toks[i].Kind != "[" {
		p.fail(i, stack)
	}
	if p.toks[i].Kind == "[" {
		out = append(out, p.collection(i, stack)...)
	}
	return out
}

func (p *refParser) assoc(i int, stack []int) []int {
	s2 := append(append([]int{}, stack...), i)
	if !p.expect(i, "lit", stack) {
		return nil
	}
	if !p.expect(i+1, ":", s2) {
		return nil
	}
	return p.value(i+2, s2)
}

func (p *refParser) items(i int, stack []int) []itemsEnd {
	out := []itemsEnd{{i, false, true}} // no values
	if p.toks[i].Kind == ":" {
		out = append(out, itemsEnd{i + 1, true, true})
	}
	// inline
	list := func(first int, one func(int, []int) []int, sep string, multi bool, assoc bool) {
		frontier := []int{first}
		seen := map[int]bool{}
		for len(frontier) > 0 {
			var next []int
			for _, j := range frontier {
				start := j
				if multi {
					if !p.expect(j, "EOL", stack) {
						continue
					}
					start = j + 1
				} else if j != first {
					if !p.expect(j, ",", stack) {
						continue
					}
					start = j + 1
				}
				for _, k := range one(start, stack) {
					if seen[k] {
						continue
					}
					seen[k] = true
					if multi {
						if p.expect(k, "EOL", stack) {
							out = append(out, itemsEnd{k + 1, assoc, false})
						}
					} else {
						out = append(out, itemsEnd{k, assoc, false})
					}
					next = append(next, k)
				}
			}
			frontier = next
		}
	}
	list(i, p.value, ",", false, false)
	list(i, p.assoc, ",", false, true)
	list(i, p.value, "", true, false)
	list(i, p.assoc, "", true, true)
	return out
}

func (p *refParser) collection(i int, stack []int) []int {
	s2 := append(append([]int{}, stack...), i)
	if !p.expect(i, "[", stack) {
		return nil
	}
	var out []int
	for _, e := range p.items(i+1, s2) {
		j := e.next
		if !p.expect(j, "]", s2) || !p.expect(j+1, "(", s2) || !p.expect(j+2, "type", s2) {
			continue
		}
		if !p.expect(j+3, ")", s2) {
			continue
		}
		keyed := p.toks[j+2].Text == "Catalog" || p.toks[j+2].Text == "Map"
		if keyed && !e.assoc && !e.empty {
			// plain values cannot fill a Catalog or a Map: the library finds out when it builds the collection,
			// after the closing ")" -- the context "(type)" as a whole is what does not fit.  (Associations in
			// an Array, List, ... are accepted: the collection then holds association objects.)
			p.fail(j+3, append(append([]int{}, s2...), j+1, j+2))
			continue
		}
		out = append(out, j+4)
	}
	return out
}

// recognize returns whether the token list is a document and, if not, the index of the unexpected token and
// the first tokens of the constructs open at that point.
func recognize(toks []rtok) (ok bool, unexpected int, open map[int]bool) {
	p := &refParser{toks: toks, far: -1}
	for _, j := range p.collection(0, nil) {
		k := j
		for p.toks[k].Kind == "EOL" {
			k++
		}
		if p.toks[k].Kind == "EOF" {
			return true, -1, nil
		}
		p.fail(k, nil)
	}
	open = map[int]bool{}
	for _, st := range p.farStacks {
		for _, s := range st {
			open[s] = true
		}
	}
	return false, p.far, open
}

type blameCase struct {
	Tokens []rtok   `json:"tokens"`
	Edits  []string `json:"edits"`
	Input  string   `json:"input"`
}

var blameLits = []string{"1", "-2", "0x1f", "1.5", "true", "nil", "\"s\"", "'c'", "(1.0+2.0i)"}
var blameTypes = []string{"Array", "List", "Set", "Stack", "Queue", "Catalog", "Map"}
var blameLoose = []string{"[", "]", "(", ")", ":", ",", "EOL", "lit", "type"}

func genBlameDoc(s core.Source, depth int) []rtok {
	lit := func() rtok { return rtok{Kind: "lit", Text: core.Pick(s, blameLits, "lit")} }
	var value func(d int) []rtok
	var collection func(d int) []rtok
	value = func(d int) []rtok {
		if d > 0 && s.Choose(3, "nest") == 0 {
			return collection(d - 1)
		}
		return []rtok{lit()}
	}
	collection = func(d int) []rtok {
		keyed := s.Choose(2, "keyed") == 1
		n := s.Choose(4, "nitems")
		multi := n > 0 && s.Choose(2, "multi") == 1
		out := []rtok{{Kind: "[", Text: "["}}
		if n == 0 && keyed {
			out = append(out, rtok{Kind: ":", Text: ":"})
		}
		for k := 0; k < n; k++ {
			if multi {
				out = append(out, rtok{Kind: "EOL", Text: "\n"})
			} else if k > 0 {
				out = append(out, rtok{Kind: ",", Text: ","})
			}
			if keyed {
				out = append(out, lit(), rtok{Kind: ":", Text: ":"})
			}
			out = append(out, value(d)...)
		}
		if multi {
			out = append(out, rtok{Kind: "EOL", Text: "\n"})
		}
		typ := core.Pick(s, blameTypes[:5], "type")
		if keyed {
			typ = core.Pick(s, blameTypes[5:], "ktype")
		}
		return append(out, rtok{Kind: "]", Text: "]"}, rtok{Kind: "(", Text: "("}, rtok{Kind: "type", Text: typ}, rtok{Kind: ")", Text: ")"})
	}
	return collection(depth)
}

func genBlame(s core.Source) blameCase {
	toks := genBlameDoc(s, 2)
	if s.Choose(2, "trailing-eol") == 1 {
		toks = append(toks, rtok{Kind: "EOL", Text: "\n"})
	}
	c := blameCase{}
	mk := func() rtok {
		k := core.Pick(s, blameLoose, "kind")
		switch k {
		case "lit":
			return rtok{Kind: k, Text: core.Pick(s, blameLits, "lit")}
		case "type":
			return rtok{Kind: k, Text: core.Pick(s, blameTypes, "type")}
		case "EOL":
			return rtok{Kind: k, Text: "\n"}
		}
		return rtok{Kind: k, Text: k}
	}
	nedits := 1 + s.Choose(2, "nedits")
	for e := 0; e < nedits && len(toks) > 0; e++ {
		i := s.Choose(len(toks), "at")
		switch core.Pick(s, []string{"delete", "insert", "replace", "duplicate", "swap"}, "edit") {
		case "delete":
			c.Edits = append(c.Edits, fmt.Sprintf("delete %d", i))
			toks = append(toks[:i:i], toks[i+1:]...)
		case "insert":
			t := mk()
			c.Edits = append(c.Edits, fmt.Sprintf("insert %s at %d", t.Kind, i))
			toks = append(toks[:i:i], append([]rtok{t}, toks[i:]...)...)
		case "replace":
			t := mk()
			c.Edits = append(c.Edits, fmt.Sprintf("replace %d by %s", i, t.Kind))
			toks = append(toks[:i:i], append([]rtok{t}, toks[i+1:]...)...)
		case "duplicate":
			c.Edits = append(c.Edits, fmt.Sprintf("duplicate %d", i))
			toks = append(toks[:i+1:i+1], toks[i:]...)
		default:
			j := s.Choose(len(toks), "with")
			c.Edits = append(c.Edits, fmt.Sprintf("swap %d %d", i, j))
			toks[i], toks[j] = toks[j], toks[i]
		}
	}
	c.Tokens = toks
	return c
}

// render writes the tokens with one space between tokens of a line and records where each begins.
func renderTokens(toks []rtok) (string, []rtok) {
	var b strings.Builder
	out := append([]rtok{}, toks...)
	line, pos := 1, 1
	for i := range out {
		if i > 0 && out[i-1].Kind != "EOL" && out[i].Kind != "EOL" {
			b.WriteString(" ")
			pos++
		}
		out[i].line, out[i].pos = line, pos
		b.WriteString(out[i].Text)
		if out[i].Kind == "EOL" {
			line, pos = line+1, 1
		} else {
			pos += len([]rune(out[i].Text))
		}
	}
	out = append(out, rtok{Kind: "EOF", line: line, pos: pos})
	return b.String(), out
}

func execBlame(c blameCase, _ core.Source) (res core.Result) {
	input, toks := renderTokens(c.Tokens)
	valid, unexpected, open := recognize(toks)
	o := parseChecked(input)
	if o.Kind == "violation" {
		res.Violation = o.Violation
		return
	}
	if valid {
		if o.Kind != "value" {
			res.Violation = core.Violate("C12/blame/refused-a-sentence", "ParseSource(%q) refused a text that is a sentence of the token grammar: %s %q at line %d position %d", input, o.TokType, o.TokText, o.Line, o.Pos)
		}
		res.Classes = append(res.Classes, "still-a-sentence")
		return
	}
	if o.Kind == "value" {
		if p, _ := lib.Call(func() { mod.ParseSource(input) }); !p {
			res.Violation = core.Violate("C12/blame/accepted-a-non-sentence", "ParseSource(%q) accepted a text that is not a sentence of the grammar (unexpected token %d: %q)", input, unexpected, toks[unexpected].Text)
		}
		return
	}
	// which token does the diagnostic name?
	named := -1
	for i, t := range toks {
		if t.line == o.Line && t.pos == o.Pos {
			named = i
		}
	}
	if o.TokType == "EOF" {
		named = len(toks) - 1
	}
	u := toks[unexpected]
	desc := fmt.Sprintf("ParseSource(%q) names %s %q at line %d position %d; the first token no sentence can continue with is %q at line %d position %d", input, o.TokType, o.TokText, o.Line, o.Pos, u.Text, u.line, u.pos)
	switch {
	case named < 0:
		res.Violation = core.Violate("C12/blame/names-no-token", "%s; no token begins where the diagnostic points", desc)
	case named == unexpected:
		res.Classes = append(res.Classes, "names-the-unexpected-token")
	case open[named]:
		res.Classes = append(res.Classes, "names-the-start-of-an-open-construct")
	case named > unexpected:
		res.Violation = core.Violate("C12/blame/names-a-later-token", "%s: the diagnostic points behind the place where the text went wrong", desc)
	default:
		res.Violation = core.Violate("C12/blame/names-a-completed-token", "%s: the named token belongs to a part of the text that was complete and acceptable", desc)
	}
	res.NonTrivial = true
	return
}
