package notation

import (
	"encoding/json"
	"fmt"
	"regexp"
	"runtime"
	"strconv"
	"strings"
	"testing"
	"time"
	"unicode/utf8"

	mod "github.com/craterdog/go-collection-framework/v4"
	cdc "github.com/craterdog/go-collection-framework/v4/cdcn"
	"verifharness/cdcngen"
	"verifharness/core"
	"verifharness/lib"
	"verifharness/model"
)

// ---------------------------------------------------------------- C12: ParseSource is total

var diagRE = regexp.MustCompile(`^An unexpected token was received by the parser: Token \[type: ([A-Za-z]+), line: (\d+), position: (\d+)\]: ("(?:[^"\\]|\\.)*")(\.\.\.)?\n`)

var controlNames = map[string]string{"<NULL>": "\x00", "<BELL>": "\a", "<BKSP>": "\b", "<HTAB>": "\t", "<FMFD>": "\f", "<EOLN>": "\n", "<CRTN>": "\r", "<VTAB>": "\v"}

type parseOutcome struct {
	Kind      string // value | diagnostic | violation
	TokType   string
	Line      int
	Pos       int
	TokText   string
	Cut       bool   // the quoted token text was shortened ("...")
	Raw       string // the complete panic message
	Violation *core.Violation
}

// scannerGoroutines counts goroutines that are inside the scanner, and how many of them are blocked in a channel send.
func scannerGoroutines() (total, blocked int) {
	buf := make([]byte, 1<<20)
	for {
		n := runtime.Stack(buf, true)
		if n < len(buf) {
			buf = buf[:n]
			break
		}
		buf = make([]byte, 2*len(buf))
	}
	for _, g := range strings.Split(string(buf), "\n\n") {
		if strings.Contains(g, "(*scanner_).scanTokens") {
			total++
			if strings.Contains(g[:strings.IndexByte(g+"\n", '\n')], "chan send") {
				blocked++
			}
		}
	}
	return
}

// knownLeaked is the number of scanner goroutines leaked by earlier cases of this process.
var knownLeaked int

// parseChecked runs ParseSource on an arbitrary input and judges the outcome against the property.
func parseChecked(input string) parseOutcome {
	return parseCheckedWith(input, func(source string) any { return mod.ParseSource(source) })
}

func parseCheckedWith(input string, parse func(string) any) parseOutcome {
	base := runtime.NumGoroutine()
	var obj any
	p, payload := lib.Call(func() { obj = parse(input) })
	var out parseOutcome
	show := input
	if len(show) > 300 {
		show = show[:300] + "..."
	}
	if !p {
		a := model.Abstract(obj)
		if a.K != model.Coll {
			out.Kind = "violation"
			out.Violation = core.Violate("C12/returned-non-collection", "ParseSource(%q) returned %v, not a collection", show, a)
			return out
		}
		out.Kind = "value"
	} else {
		switch e := payload.(type) {
		case runtime.Error:
			out.Kind = "violation"
			sig := "C12/runtime-error/other"
			switch {
			case strings.Contains(e.Error(), "nil pointer"):
				sig = "C12/runtime-error/nil-dereference"
			case strings.Contains(e.Error(), "interface conversion"):
				sig = "C12/runtime-error/type-assertion"
			case strings.Contains(e.Error(), "index out of range") || strings.Contains(e.Error(), "slice bounds"):
				sig = "C12/runtime-error/index"
			}
			out.Violation = core.Violate(sig, "ParseSource(%q) failed with a Go runtime error: %v", show, e)
			return out
		case string:
			m := diagRE.FindStringSubmatch(e)
			if m == nil && strings.HasPrefix(e, "The maximum traversal depth was exceeded") {
				out.Kind = "violation"
				out.Violation = core.Violate("C12/not-a-syntax-diagnostic/collator-depth-limit", "ParseSource(%q) panicked with the collator's depth-limit message, which names no token, line or column: %s", show, lib.Short(e))
				return out
			}
			if m == nil {
				out.Kind = "violation"
				out.Violation = core.Violate("C12/not-a-syntax-diagnostic", "ParseSource(%q) panicked with a message that is not a located syntax diagnostic: %s", show, lib.Short(e))
				return out
			}
			out.Kind = "diagnostic"
			out.Raw = e
			out.TokType = m[1]
			out.Line, _ = strconv.Atoi(m[2])
			out.Pos, _ = strconv.Atoi(m[3])
			text, err := strconv.Unquote(m[4])
			if err != nil {
				out.Kind = "violation"
				out.Violation = core.Violate("C12/diagnostic-unreadable", "the token text in the diagnostic cannot be unquoted: %s", m[4])
				return out
			}
			if real, ok := controlNames[text]; ok {
				text = real
			}
			out.TokText = text
			out.Cut = m[5] != ""
			// the quoted text must begin at (line, position) of the input, counting runes
			if v := checkLocation(input, out); v != nil {
				out.Kind = "violation"
				out.Violation = v
				return out
			}
		default:
			out.Kind = "violation"
			out.Violation = core.Violate("C12/panic-payload-not-text", "ParseSource(%q) panicked with a %T: %v", show, payload, lib.Short(payload))
			return out
		}
	}
	// leak: after the call no scanner goroutine may be left running or blocked
	if runtime.NumGoroutine() > base {
		deadline := time.Now().Add(10 * time.Second)
		for {
			total, blocked := scannerGoroutines()
			if total == 0 {
				break
			}
			if total == blocked && blocked <= knownLeaked {
				break // only goroutines leaked by earlier cases of this process (already reported)
			}
			if total == blocked {
				knownLeaked = blocked
				out.Kind = "violation"
				out.Violation = core.Violate("C12/scanner-goroutine-left-blocked", "after ParseSource(%q) ended (%s) %d scanner goroutine(s) are blocked forever in a channel send", show, outcomeWord(p), blocked)
				return out
			}
			if time.Now().After(deadline) {
				panic(core.HarnessError{Msg: "scanner goroutines neither finished nor blocked within 10 s"})
			}
			time.Sleep(200 * time.Microsecond)
		}
	}
	return out
}

func outcomeWord(panicked bool) string {
	if panicked {
		return "with a diagnostic"
	}
	return "normally"
}

func checkLocation(input string, o parseOutcome) *core.Violation {
	runes := []rune(input)
	// rune offset of (line, position)
	line, off := 1, 0
	for off < len(runes) && line < o.Line {
		if runes[off] == '\n' {
			line++
		}
		off++
	}
	if line != o.Line || o.Pos < 1 {
		return core.Violate("C12/diagnostic-location", "the diagnostic names line %d position %d, the input has %d line(s)", o.Line, o.Pos, line)
	}
	off += o.Pos - 1
	if off > len(runes) {
		return core.Violate("C12/diagnostic-location", "the diagnostic names line %d position %d, beyond the end of the input", o.Line, o.Pos)
	}
	rest := string(runes[off:])
	want := o.TokText
	if !strings.HasPrefix(rest, want) {
		if len(rest) > 30 {
			rest = rest[:30]
		}
		return core.Violate("C12/diagnostic-location", "the diagnostic says token %q (type %s) begins at line %d position %d, but the input continues there with %q", want, o.TokType, o.Line, o.Pos, rest)
	}
	if o.TokType == "EOF" && off != len(runes) && want == "" {
		return core.Violate("C12/diagnostic-location", "the diagnostic reports EOF at line %d position %d, which is not the end of the input", o.Line, o.Pos)
	}
	return nil
}

// ---------------------------------------------------------------- sub-check: mutants of valid documents

type mutCase struct {
	Base  string   `json:"base"`
	Edits []string `json:"edits"`
	Input string   `json:"input"`
}

var hostile = []rune{'[', ']', '(', ')', ':', ',', '"', '\'', '\\', 'e', 'E', 'x', 'i', '0', '1', '9', '.', '+', '-', '\t', '\r', '\n', 0, ' ', 'é', '😀', '#', 'n', 't', 'A', 'L'}

func genMutant(s core.Source) mutCase {
	cl := model.Classes{}
	o := &cdcngen.Opts{MaxDepth: 2, MaxItems: 5, Classes: cl}
	d := cdcngen.GenDocument(s, o)
	runes := []rune(d.Text)
	c := mutCase{Base: d.Text}
	nedits := 1 + s.Choose(3, "nedits")
	for i := 0; i < nedits; i++ {
		kind := core.Pick(s, []string{"delete", "insert", "substitute", "prefix", "duplicate", "swap"}, "edit")
		if len(runes) == 0 {
			kind = "insert"
		}
		switch kind {
		case "delete":
			p := s.Choose(len(runes), "pos")
			runes = append(runes[:p:p], runes[p+1:]...)
			c.Edits = append(c.Edits, fmt.Sprintf("delete@%d", p))
		case "insert":
			p := s.Choose(len(runes)+1, "pos")
			ch := hostile[s.Choose(len(hostile), "char")]
			runes = append(runes[:p:p], append([]rune{ch}, runes[p:]...)...)
			c.Edits = append(c.Edits, fmt.Sprintf("insert %q@%d", ch, p))
		case "substitute":
			p := s.Choose(len(runes), "pos")
			ch := hostile[s.Choose(len(hostile), "char")]
			runes = append(runes[:p:p], append([]rune{ch}, runes[p+1:]...)...)
			c.Edits = append(c.Edits, fmt.Sprintf("substitute %q@%d", ch, p))
		case "prefix":
			p := s.Choose(len(runes)+1, "pos")
			runes = runes[:p]
			c.Edits = append(c.Edits, fmt.Sprintf("prefix %d", p))
		case "duplicate":
			p := s.Choose(len(runes), "pos")
			q := p + 1 + s.Choose(min(8, len(runes)-p), "len")
			runes = append(runes[:q:q], append(append([]rune{}, runes[p:q]...), runes[q:]...)...)
			c.Edits = append(c.Edits, fmt.Sprintf("duplicate %d..%d", p, q))
		case "swap":
			p := s.Choose(len(runes), "pos")
			q := s.Choose(len(runes), "pos2")
			runes[p], runes[q] = runes[q], runes[p]
			c.Edits = append(c.Edits, fmt.Sprintf("swap %d,%d", p, q))
		}
	}
	c.Input = string(runes)
	return c
}

// offsetOf returns the rune offset of (line, position) in the input.
func offsetOf(runes []rune, line, pos int) int {
	l, off := 1, 0
	for off < len(runes) && l < line {
		if runes[off] == '\n' {
			l++
		}
		off++
	}
	return off + pos - 1
}

// namedTokenIsTheUnexpectedOne: a parser that reads from left to right refuses a token because of what came
// before it, never because of what follows.  So the input cut off right behind the token the diagnostic names
// must be refused for the same token at the same place.  A diagnostic that names another token than the one the
// parser could not accept (the last token it did accept, say) fails this: cut off behind that token the text is
// refused for its end, or not at all.
func namedTokenIsTheUnexpectedOne(input string, o parseOutcome) *core.Violation {
	if o.Cut || o.TokType == "EOF" || o.TokText == "" {
		return nil
	}
	runes := []rune(input)
	end := offsetOf(runes, o.Line, o.Pos) + len([]rune(o.TokText))
	if end >= len(runes) {
		return nil
	}
	prefix := string(runes[:end])
	p := parseChecked(prefix)
	if p.Kind == "violation" {
		return p.Violation
	}
	if p.Kind != "diagnostic" || p.Line != o.Line || p.Pos != o.Pos || p.TokText != o.TokText || p.TokType != o.TokType {
		got := "accepted"
		if p.Kind == "diagnostic" {
			got = fmt.Sprintf("refused for %s %q at line %d position %d", p.TokType, p.TokText, p.Line, p.Pos)
		}
		show := input
		if len(show) > 300 {
			show = show[:300] + "..."
		}
		return core.Violate("C12/diagnostic-names-another-token", "ParseSource(%q) names %s %q at line %d position %d as the unexpected token; but the input cut off right behind that token is %s, so that token is not what the parser could not accept", show, o.TokType, o.TokText, o.Line, o.Pos, got)
	}
	return nil
}

func execInput(input string) (res core.Result) {
	o := parseChecked(input)
	if o.Kind == "diagnostic" {
		if v := namedTokenIsTheUnexpectedOne(input, o); v != nil {
			res.Violation = v
			return
		}
	}
	switch o.Kind {
	case "violation":
		res.Violation = o.Violation
	case "diagnostic":
		res.NonTrivial = true
		res.Classes = append(res.Classes, "rejected-"+o.TokType)
	default:
		res.Classes = append(res.Classes, "accepted")
	}
	return
}

func execMutant(c mutCase, _ core.Source) core.Result { return execInput(c.Input) }

// every prefix, single deletion, and single insertion/substitution from a reduced alphabet of small documents
type editCase struct {
	Doc   int    `json:"doc"`
	Kind  string `json:"kind"`
	Pos   int    `json:"pos"`
	Char  string `json:"char,omitempty"`
	Input string `json:"input"`
}

var smallDocs = []string{
	"[1, 2](List)\n", "[ ](Set)\n", "[:](Map)\n", "[\"k\": 'v'](Catalog)\n", "[\n    1.5E+3\n    nil\n](Array)\n", "[(1.0-2.0i), 0x1f](Stack)\n",
	"[[true](Queue), \"a\\n\"](List)\n", "[\n    1: [ ](List)\n    2: nil\n](Catalog)\n",
}

var reducedHostile = []string{"[", "]", "(", ")", ":", ",", "\"", "'", "\\", "e", "x", "i", "0", ".", "-", "\t", "\n", "\x00", " ", "é", "#"}

func genEdit(s core.Source) editCase {
	c := editCase{Doc: s.Choose(len(smallDocs), "doc")}
	runes := []rune(smallDocs[c.Doc])
	c.Kind = core.Pick(s, []string{"prefix", "delete", "insert", "substitute"}, "kind")
	switch c.Kind {
	case "prefix":
		c.Pos = s.Choose(len(runes), "pos")
		c.Input = string(runes[:c.Pos])
	case "delete":
		c.Pos = s.Choose(len(runes), "pos")
		c.Input = string(runes[:c.Pos]) + string(runes[c.Pos+1:])
	case "insert":
		c.Pos = s.Choose(len(runes)+1, "pos")
		c.Char = core.Pick(s, reducedHostile, "char")
		c.Input = string(runes[:c.Pos]) + c.Char + string(runes[c.Pos:])
	default:
		c.Pos = s.Choose(len(runes), "pos")
		c.Char = core.Pick(s, reducedHostile, "char")
		c.Input = string(runes[:c.Pos]) + c.Char + string(runes[c.Pos+1:])
	}
	return c
}

// ---------------------------------------------------------------- sub-check: token soup and arbitrary strings

type soupCase struct {
	Input string `json:"input"`
}

var soupTokens = []string{"[", "]", "(", ")", ":", ",", "\n", " ", "List", "Catalog", "Map", "Set", "Array", "Stack", "Queue", "true", "false", "nil", "1", "-2", "0", "0xff", "1.5", "2.5E+3",
	"(1.0+2.0i)", "'a'", "\"s\"", "\"\"", "[ ]", "[:]", "(List)", "(Catalog)", "1: 2", "[1, 2](List)", "\"k\": [ ](Set)"}

func genSoup(s core.Source) soupCase {
	var b strings.Builder
	switch s.Choose(4, "soupkind") {
	case 0: // arbitrary bytes
		n := s.Choose(24, "len")
		for i := 0; i < n; i++ {
			b.WriteByte(byte(s.Choose(256, "byte")))
		}
	case 1: // arbitrary runes from the hostile alphabet
		n := s.Choose(24, "len")
		for i := 0; i < n; i++ {
			b.WriteRune(hostile[s.Choose(len(hostile), "rune")])
		}
	case 2: // item kinds that do not match the type context
		item := core.Pick(s, []string{"1, 2", "1: 2, 3: 4", "\n    1\n    2\n", "\n    1: 2\n", "1", "\"k\": nil", "[1: 2](Map)", "1, 2: 3", "1: 2, 3"}, "items")
		ctx := core.Pick(s, model.CollKinds, "ctx")
		inner := "[" + item + "](" + ctx + ")"
		if s.Choose(2, "nest") == 1 {
			inner = "[" + inner + ", " + inner + "](" + core.Pick(s, model.CollKinds, "ctx2") + ")"
		}
		b.WriteString(inner + "\n")
	default: // valid tokens in arbitrary order
		n := s.Choose(14, "ntokens")
		for i := 0; i < n; i++ {
			b.WriteString(soupTokens[s.Choose(len(soupTokens), "tok")])
			if s.Choose(3, "space") == 0 {
				b.WriteString(" ")
			}
		}
	}
	return soupCase{Input: b.String()}
}

// ---------------------------------------------------------------- sub-check: located errors

type locCase struct {
	Doc      string `json:"doc"`
	Boundary int    `json:"boundary"` // index into the token starts
	Char     string `json:"char"`
	Input    string `json:"input"`
	Line     int    `json:"line"`
	Pos      int    `json:"pos"`
	After    int    `json:"tokens_after"`
}

// tokenStarts is a small lexer for documents produced by cdcngen (whose
// literal forms are known): it returns the rune offsets at which tokens start.
func tokenStarts(runes []rune) []int {
	var starts []int
	i := 0
	for i < len(runes) {
		r := runes[i]
		switch {
		case r == ' ':
			i++
		case r == '"':
			starts = append(starts, i)
			i++
			for i < len(runes) && runes[i] != '"' {
				if runes[i] == '\\' {
					i++
				}
				i++
			}
			i++
		case r == '\'':
			starts = append(starts, i)
			i++
			if i < len(runes) && runes[i] == '\\' {
				i++
				for i < len(runes) && runes[i] != '\'' {
					i++
				}
				if i+1 < len(runes) && runes[i+1] == '\'' { // '\''
					i++
				}
			} else {
				i++
			}
			i++
		case r == '(' && i+1 < len(runes) && (runes[i+1] == '+' || runes[i+1] == '-' || (runes[i+1] >= '0' && runes[i+1] <= '9')):
			starts = append(starts, i)
			for i < len(runes) && runes[i] != ')' {
				i++
			}
			i++
		case strings.ContainsRune("[]():,\n", r):
			starts = append(starts, i)
			i++
		default:
			starts = append(starts, i)
			for i < len(runes) && !strings.ContainsRune("[]():,\n \"'", runes[i]) {
				i++
			}
		}
	}
	return starts
}

var illegalChars = []string{"#", "@", "$", "%", "&", ";", "!", "?", "^", "|", "~", "\t", "\r", "\x00", "é", "\a"}

func genLocated(s core.Source) locCase {
	o := &cdcngen.Opts{MaxDepth: 2, MaxItems: 24, Classes: model.Classes{}}
	var d cdcngen.Doc
	for try := 0; ; try++ {
		d = cdcngen.GenDocument(s, o)
		if strings.Count(d.Text, "\n") >= 2 || try > 4 {
			break
		}
	}
	runes := []rune(d.Text)
	starts := tokenStarts(runes)
	starts = append(starts, len(runes)) // the EOF boundary
	c := locCase{Doc: d.Text}
	// early boundaries are preferred half of the time, so that many tokens follow the error
	if s.Choose(2, "early") == 0 {
		c.Boundary = s.Choose(min(4, len(starts)), "boundary")
	} else {
		c.Boundary = s.Choose(len(starts), "boundary")
	}
	c.Char = core.Pick(s, illegalChars, "char")
	off := starts[c.Boundary]
	c.Input = string(runes[:off]) + c.Char + string(runes[off:])
	c.Line, c.Pos = 1, 1
	for _, r := range runes[:off] {
		if r == '\n' {
			c.Line++
			c.Pos = 1
		} else {
			c.Pos++
		}
	}
	c.After = len(starts) - 1 - c.Boundary
	return c
}

func execLocated(c locCase, _ core.Source) (res core.Result) {
	o := parseChecked(c.Input)
	if o.Kind == "violation" {
		res.Violation = o.Violation
		return
	}
	if o.Kind != "diagnostic" {
		res.Violation = core.Violate("C12/located/accepted", "an illegal character %q injected at a token boundary (line %d, position %d) was accepted:\n%s", c.Char, c.Line, c.Pos, c.Input)
		return
	}
	wantText := c.Char
	if o.TokType != "error" || o.Line != c.Line || o.Pos != c.Pos || o.TokText != wantText {
		res.Violation = core.Violate("C12/located/wrong-diagnostic", "illegal character %q injected at line %d position %d; the diagnostic names a token of type %s, text %q at line %d position %d\ninput:\n%s",
			c.Char, c.Line, c.Pos, o.TokType, o.TokText, o.Line, o.Pos, c.Input)
		return
	}
	res.NonTrivial = true
	if c.After > 16 {
		res.Classes = append(res.Classes, ">16-tokens-after-error")
	}
	if c.Line > 1 {
		res.Classes = append(res.Classes, "error-on-later-line")
	}
	return
}

// ---------------------------------------------------------------- sub-check: long tails after a syntax error, deep nesting

type tailCase struct {
	Head  string `json:"head"`
	Unit  string `json:"unit"`
	Count int    `json:"count"`
}

func genTail(s core.Source) tailCase {
	return tailCase{
		Head:  core.Pick(s, []string{"]", ")", ",", "nil", "[1 2", "[1, 2]", "[1, 2](", "[1: ](Map)", "[1, 2](List) [", "(List)"}, "head"),
		Unit:  core.Pick(s, []string{"[1, 2, 3](List)", "1, ", "\n", "\"s\" ", "[", "]", ": "}, "unit"),
		Count: []int{0, 1, 2, 3, 4, 5, 6, 8, 10, 16, 17, 18, 40}[s.Choose(13, "count")],
	}
}

func execTail(c tailCase, _ core.Source) (res core.Result) {
	res = execInput(c.Head + strings.Repeat(c.Unit, c.Count))
	if c.Count >= 6 {
		res.Classes = append(res.Classes, "long-tail")
	}
	return
}

// ---------------------------------------------------------------- sub-check: one parser instance, several documents

// A parser (and a notation) instance may be used for one document after another.  Whatever it keeps from
// an earlier document -- accepted or rejected -- must not show in the outcome of the next: the value or the
// complete diagnostic must be what a fresh parser gives for the same text.
type reuseCase struct {
	Via  string   `json:"via"` // parser | notation
	Docs []string `json:"docs"`
}

var reuseDocs = []string{
	"[1, 2](List)\n", "[1, 2", "[\n    1\n    2\n    #\n](List)\n", "[\n    1: 2\n    3: $\n    5: 6\n](Catalog)\n", "]", "[ ](Set)\n",
	"[\n    \"a\"\n    \"b\"\n    \"c\"\n    \"d\"\n    %\n](Stack)\n", "[1, 2](List) [", "[\n    [\n        1\n        ?\n    ](List)\n](List)\n", "[1: ](Map)", "",
	"[\n    1.5E+3\n    nil\n](Array)\n", "\n\n\n\n\n@", "[true, false](Queue)\n", "[\n    1\n](List)\n\n\n!",
}

func genReuse(s core.Source) reuseCase {
	c := reuseCase{Via: core.Pick(s, []string{"parser", "notation"}, "via")}
	n := 2 + s.Choose(3, "ndocs")
	for i := 0; i < n; i++ {
		c.Docs = append(c.Docs, core.Pick(s, reuseDocs, "doc"))
	}
	return c
}

func execReuse(c reuseCase, _ core.Source) (res core.Result) {
	var parse func(string) any
	if c.Via == "parser" {
		parser := cdc.Parser().Make()
		parse = func(source string) any { return parser.ParseSource(source) }
	} else {
		notation := cdc.Notation().Make()
		parse = func(source string) any { return notation.ParseSource(source) }
	}
	rejected := 0
	for i, doc := range c.Docs {
		o := parseCheckedWith(doc, parse)
		if o.Kind == "violation" {
			o.Violation.Signature += "/reused-" + c.Via
			o.Violation.Message = fmt.Sprintf("document %d of %q on one %s: %s", i+1, c.Docs, c.Via, o.Violation.Message)
			res.Violation = o.Violation
			return
		}
		fresh := parseChecked(doc)
		if fresh.Kind == "violation" {
			res.Violation = fresh.Violation
			return
		}
		if o.Kind != fresh.Kind || o.Raw != fresh.Raw {
			res.Violation = core.Violate("C12/outcome-depends-on-earlier-documents", "document %d of %q on one %s: %s %q, a fresh parser gives %s %q", i+1, c.Docs, c.Via, o.Kind, lib.Short(o.Raw), fresh.Kind, lib.Short(fresh.Raw))
			return
		}
		if o.Kind == "diagnostic" {
			rejected++
		}
	}
	res.NonTrivial = rejected >= 1 && len(c.Docs) >= 2
	if rejected >= 2 {
		res.Classes = append(res.Classes, "two-documents-rejected-by-one-instance")
	}
	res.Classes = append(res.Classes, "via-"+c.Via)
	return
}

type deepNestCase struct {
	Depth int    `json:"depth"`
	Shape string `json:"shape"`
}

func execDeepNest(c deepNestCase, _ core.Source) (res core.Result) {
	var input string
	switch c.Shape {
	case "valid":
		input = strings.Repeat("[", c.Depth) + "1" + strings.Repeat("](List)", c.Depth) + "\n"
	case "unclosed":
		input = strings.Repeat("[", c.Depth)
	case "assoc":
		input = strings.Repeat("[1: ", c.Depth) + "2" + strings.Repeat("](Catalog)", c.Depth) + "\n"
	case "items-in-Set", "items-in-Stack", "items-in-Queue", "items-in-Array", "items-in-List":
		// two deeply nested items side by side in each of the value contexts (a Set has to rank them)
		deep := func(leaf string) string {
			return strings.Repeat("[", c.Depth-1) + leaf + strings.Repeat("](List)", c.Depth-1)
		}
		input = "[" + deep("1") + ", " + deep("2") + "](" + strings.TrimPrefix(c.Shape, "items-in-") + ")\n"
	case "values-in-Map":
		deep := func(leaf string) string {
			return strings.Repeat("[", c.Depth-1) + leaf + strings.Repeat("](List)", c.Depth-1)
		}
		input = "[\"a\": " + deep("1") + ", \"b\": " + deep("2") + "](Map)\n"
	default: // wrong closer in the middle
		input = strings.Repeat("[", c.Depth) + "1" + strings.Repeat("](List)", c.Depth/2) + ")" + strings.Repeat("](List)", c.Depth/2)
	}
	o := parseChecked(input)
	if o.Kind == "violation" {
		v := o.Violation
		v.Message = fmt.Sprintf("nesting depth %d (%s, %d bytes): %s", c.Depth, c.Shape, len(input), lib.Short(v.Message))
		res.Violation = v
		return
	}
	if c.Shape != "unclosed" && c.Shape != "wrong-closer" && o.Kind != "value" {
		res.Violation = core.Violate("C12/deep/rejected-valid", "a valid document nested %d deep was rejected: type %s line %d position %d", c.Depth, o.TokType, o.Line, o.Pos)
		return
	}
	res.NonTrivial = true
	res.Classes = append(res.Classes, "shape-"+c.Shape)
	_ = utf8.RuneLen
	return
}

func TestC12(t *testing.T) {
	r := core.Begin(t, "C12")
	defer r.End()
	if rf := r.ReplayOf(); rf != nil && rf.Check == "native-fuzz" {
		// a crasher saved by the native fuzzer: its input is the reproducible unit
		var c struct {
			Input string `json:"input"`
		}
		json.Unmarshal(rf.Case, &c)
		res := execInput(c.Input)
		sub := &core.SubResult{Name: "native-fuzz", Mode: "replay", Evaluations: 1}
		if res.Violation != nil {
			sub.Violation = &core.ReplayFile{Property: "C12", Check: "native-fuzz", Signature: res.Violation.Signature, Message: res.Violation.Message, Case: rf.Case}
		}
		r.Custom(sub)
		return
	}
	core.DFS(r, core.Check[editCase]{Name: "all-single-edits", Gen: genEdit, Exec: func(c editCase, _ core.Source) core.Result { return execInput(c.Input) }, NoJournal: true}, 0)
	core.Rapid(r, core.Check[mutCase]{Name: "mutants", Gen: genMutant, Exec: execMutant, HangLimit: 120 * time.Second}, r.N(4000, 40000))
	core.Rapid(r, core.Check[soupCase]{Name: "token-soup", Gen: genSoup, Exec: func(c soupCase, _ core.Source) core.Result { return execInput(c.Input) }, HangLimit: 120 * time.Second}, r.N(3000, 30000))
	core.Rapid(r, core.Check[locCase]{Name: "located-errors", Gen: genLocated, Exec: execLocated, HangLimit: 120 * time.Second}, r.N(600, 6000))
	core.DFS(r, core.Check[tailCase]{Name: "tails-after-error", Gen: genTail, Exec: execTail}, 0)
	core.Rapid(r, core.Check[blameCase]{Name: "blamed-token", Gen: genBlame, Exec: execBlame, HangLimit: 120 * time.Second}, r.N(3000, 30000))
	core.Rapid(r, core.Check[reuseCase]{Name: "one-parser-many-documents", Gen: genReuse, Exec: execReuse, HangLimit: 120 * time.Second}, r.N(1500, 15000))
	// Set literals whose items are kin (kinset_test.go), as they are and with one edit: ordering the items of a
	// Set is the one step of parsing that runs the collator over what the document holds
	core.Rapid(r, core.Check[mutCase]{Name: "sets-of-kin", Gen: func(s core.Source) mutCase {
		base := genKin(s).doc().Text
		c := mutCase{Base: base, Input: base}
		if s.Choose(2, "edit") == 1 {
			runes := []rune(base)
			p := s.Choose(len(runes), "pos")
			if s.Choose(2, "kind") == 0 {
				runes = append(runes[:p:p], runes[p+1:]...)
				c.Edits = []string{fmt.Sprintf("delete@%d", p)}
			} else {
				ch := hostile[s.Choose(len(hostile), "char")]
				runes = append(runes[:p:p], append([]rune{ch}, runes[p+1:]...)...)
				c.Edits = []string{fmt.Sprintf("substitute %q@%d", ch, p)}
			}
			c.Input = string(runes)
		}
		return c
	}, Exec: execMutant, HangLimit: 120 * time.Second}, r.N(2000, 20000))
	// long documents of distinct literals (kinset_test.go), valid or with an illegal character in front of one item:
	// parsed several times, every time a value or the diagnostic that names that character where it stands
	core.Rapid(r, core.Check[longDocCase]{Name: "long-documents", Gen: genLongDoc(true), Exec: func(c longDocCase, _ core.Source) (res core.Result) {
		d, _ := c.doc()
		for round := 0; round < 4 && res.Violation == nil; round++ {
			res = execInput(d.Text)
		}
		if res.Violation == nil && c.Break > 0 {
			o := parseChecked(d.Text)
			if o.Kind != "diagnostic" {
				res.Violation = core.Violate("C12/long/accepted-an-illegal-character", "a document of %d %s items with '$' in front of item %d was not refused with a diagnostic (outcome %s)", c.N, c.Kind, c.Break, o.Kind)
			}
		}
		res.NonTrivial = true
		res.Classes = append(res.Classes, "long-"+c.Kind)
		return
	}, HangLimit: 120 * time.Second}, r.N(300, 3000))
	// a document with one very long line (a string of tens of thousands of characters cannot span lines) and a
	// syntax error on that line or on a later one
	core.DFS(r, core.Check[mutCase]{Name: "long-lines", Gen: func(s core.Source) mutCase {
		length := []int{1000, 65536, 70000}[s.Choose(3, "length")]
		long := strings.Repeat("abcdefgh", length/8)
		where := s.Choose(4, "error")
		doc := "[\n    1\n    \"" + long + "\"\n    2\n](List)\n"
		switch where {
		case 1: // on the long line
			doc = "[\n    1\n    \"" + long + "\" $\n    2\n](List)\n"
		case 2: // on the next line
			doc = "[\n    1\n    \"" + long + "\"\n    $2\n](List)\n"
		case 3: // at the very end
			doc = "[\n    1\n    \"" + long + "\"\n    2\n](Lisp)\n"
		}
		return mutCase{Base: fmt.Sprintf("a string of %d characters on line 3, error variant %d", length, where), Input: doc}
	}, Exec: func(c mutCase, _ core.Source) core.Result {
		res := execInput(c.Input)
		if res.Violation != nil && len(res.Violation.Message) > 700 {
			res.Violation.Message = c.Base + ": " + res.Violation.Message[:300] + " ... " + res.Violation.Message[len(res.Violation.Message)-300:]
		}
		res.NonTrivial = true
		return res
	}, NoJournal: true, HangLimit: 300 * time.Second}, 0)
	core.DFS(r, core.Check[coldParseCase]{Name: "cold-start", Gen: func(s core.Source) coldParseCase {
		return coldParseCase{Kind: "reject", Children: r.N(12, 60)}
	}, Exec: execColdParse("C12"), NoJournal: true, HangLimit: 1800 * time.Second}, 0)
	core.DFS(r, core.Check[longParserCase]{Name: "long-lived-parser", Gen: func(s core.Source) longParserCase {
		return longParserCase{Docs: r.N(12000, 60000), Notation: s.Choose(2, "notation") == 1}
	}, Exec: execLongParser("C12"), NoJournal: true, HangLimit: 600 * time.Second}, 0)
	depths := []int{1, 2, 8, 9, 16, 17, 18, 50, 100, 300}
	if r.Thorough() {
		depths = append(depths, 1000, 2000)
	} else {
		depths = append(depths, 600)
	}
	core.DFS(r, core.Check[deepNestCase]{Name: "deep-nesting", HangLimit: 600 * time.Second,
		Gen: func(s core.Source) deepNestCase {
			return deepNestCase{Depth: depths[s.Choose(len(depths), "depth")], Shape: core.Pick(s, []string{"valid", "unclosed", "assoc", "wrong-closer", "items-in-Set", "items-in-Stack", "items-in-Queue", "items-in-Array", "items-in-List", "values-in-Map"}, "shape")}
		}, Exec: execDeepNest}, 0)
}
