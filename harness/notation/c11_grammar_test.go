package notation

import (
	"fmt"
	"reflect"
	"strings"
	"testing"
	"time"

	mod "github.com/craterdog/go-collection-framework/v4"
	col "github.com/craterdog/go-collection-framework/v4/collection"
	"verifharness/cdcngen"
	"verifharness/core"
	"verifharness/lib"
	"verifharness/model"
)

// ---------------------------------------------------------------- C11: every sentence of the grammar is accepted with its intended meaning

type docCase struct {
	Doc     cdcngen.Doc `json:"doc"`
	Classes []string    `json:"-"`
}

func genDoc(small bool, maxDepth, maxItems int, level ...int) func(core.Source) docCase {
	return func(s core.Source) docCase {
		cl := model.Classes{}
		o := &cdcngen.Opts{Small: small, MaxDepth: maxDepth, MaxItems: maxItems, Classes: cl}
		if len(level) > 0 {
			o.Level = level[0]
		}
		d := cdcngen.GenDocument(s, o)
		return docCase{Doc: d, Classes: cl.List()}
	}
}

func execDoc(c docCase, _ core.Source) (res core.Result) {
	res.Classes = c.Classes
	var obj any
	if p, payload := lib.Call(func() { obj = mod.ParseSource(c.Doc.Text) }); p {
		res.Violation = core.Violate("C11/rejected"+rejectClass(payload), "ParseSource rejected a sentence of the grammar:\n%s\n%s", c.Doc.Text, lib.Short(payload))
		return
	}
	want := cdcngen.Expected(c.Doc.Den)
	if d := cdcngen.Matches(want, obj, "$"); d != "" {
		res.Violation = core.Violate("C11/wrong-meaning", "ParseSource accepted the text but the result differs from its denotation: %s\ntext:\n%s", d, c.Doc.Text)
		return
	}
	// every collection literal denotes a collection of its own: no object occurs twice in the result
	seen := map[any]bool{}
	var dup func(x any) string
	dup = func(x any) string {
		switch t := x.(type) {
		case col.CatalogLike[any, any]:
			if seen[t] {
				return "a Catalog"
			}
			seen[t] = true
			for _, a := range t.AsArray() {
				if d := dup(a.GetValue()); d != "" {
					return d
				}
			}
		case col.MapLike[any, any]:
			for _, a := range t.AsArray() {
				if d := dup(a.GetValue()); d != "" {
					return d
				}
			}
		case interface{ AsArray() []any }:
			if reflect.ValueOf(x).Kind() == reflect.Pointer {
				if seen[x] {
					return fmt.Sprintf("a %T", x)
				}
				seen[x] = true
			}
			for _, e := range t.AsArray() {
				if d := dup(e); d != "" {
					return d
				}
			}
		}
		return ""
	}
	if d := dup(obj); d != "" {
		res.Violation = core.Violate("C11/aliased-subcollections", "two collection literals of the source denote one and the same object (%s): changing one would change the other\n%s", d, c.Doc.Text)
		return
	}
	// one parser, two calls: what the first call returned belongs to the caller; changing it must not
	// change what the second call returns
	// The parser has a past: other texts, some of them rejected half-way.
	mask := int(core.Mix(uint64(len(c.Doc.Text))*31+uint64(len(c.Classes))) % 128)
	parse := parserWithPast(mask)
	var first, second any
	if p, payload := lib.Call(func() {
		first = parse(c.Doc.Text)
		scribble(first)
		second = parse(c.Doc.Text)
	}); p {
		res.Violation = core.Violate("C11/parser-reuse", "one parser that had parsed other texts before (past %07b) rejected a sentence of the grammar: %s\n%s", mask, lib.Short(payload), c.Doc.Text)
		return
	}
	if d := cdcngen.Matches(want, second, "$"); d != "" {
		res.Violation = core.Violate("C11/result-depends-on-earlier-results", "after the caller changed the result of an earlier ParseSource call on the same parser, the same text parses differently: %s\n%s", d, c.Doc.Text)
		return
	}
	// the same text parsed again gives the same value (plain run; controlled schedules are in the conc package)
	var again any
	if p, _ := lib.Call(func() { again = mod.ParseSource(c.Doc.Text) }); p || !model.Identical(model.Abstract(again), model.Abstract(obj)) {
		res.Violation = core.Violate("C11/not-deterministic", "parsing the same text twice gave different results:\n%s", c.Doc.Text)
		return
	}
	n := len(c.Doc.Den.Items) + len(c.Doc.Den.Pairs)
	res.NonTrivial = n >= 2 || c.Doc.Den.Depth() >= 2 || hasNonDefaultLiteral(c.Classes)
	return
}

// scribble changes every mutable collection of a parsed result in place
func scribble(x any) {
	switch t := x.(type) {
	case col.CatalogLike[any, any]:
		for _, a := range t.AsArray() {
			scribble(a.GetValue())
		}
		t.SetValue("scribble", int64(1))
	case col.MapLike[any, any]:
		for _, a := range t.AsArray() {
			scribble(a.GetValue())
		}
		t.SetValue("scribble", int64(1))
	case col.ListLike[any]:
		for _, e := range t.AsArray() {
			scribble(e)
		}
		t.AppendValue("scribble")
	case col.SetLike[any]:
		for _, e := range t.AsArray() {
			scribble(e)
		}
		t.AddValue("scribble")
	case col.StackLike[any]:
		for _, e := range t.AsArray() {
			scribble(e)
		}
		if uint(t.GetSize()) < t.GetCapacity() {
			t.AddValue("scribble")
		}
	case col.QueueLike[any]:
		for _, e := range t.AsArray() {
			scribble(e)
		}
		if uint(t.GetSize()) < t.GetCapacity() {
			t.AddValue("scribble")
		}
	case col.ArrayLike[any]:
		for _, e := range t.AsArray() {
			scribble(e)
		}
		if t.GetSize() > 0 {
			t.SetValue(1, "scribble")
		}
	}
}

func hasNonDefaultLiteral(cl []string) bool {
	for _, c := range cl {
		switch c {
		case "int-boundary", "int-plus-sign", "hex-boundary", "hex-leading-zeros", "hex-16-digits", "float-plus-sign", "exponent-1-digit", "exponent-2-digits", "exponent-3-digits",
			"lit-complex", "rune-escape", "rune-escape-quote", "rune-\\x", "rune-\\u", "rune-\\U", "string-escape", "string-escape-quote", "string-\\x", "string-\\u", "string-\\U", "string-long":
			return true
		}
	}
	return false
}

// unrepresentable literals inside otherwise valid documents must be rejected, not replaced
type badCase struct {
	Index   int    `json:"index"`
	Wrapper string `json:"wrapper"`
	Text    string `json:"text"`
}

var badWrappers = []string{"[%s](List)", "[1, %s, 2](Array)", "[\n    %s\n](Set)", "[\"k\": %s](Catalog)", "[[%s](Stack)](List)", "[1: 2, 3: %s](Map)"}

func genBad(s core.Source) badCase {
	c := badCase{Index: s.Choose(len(cdcngen.BadLiterals), "literal"), Wrapper: core.Pick(s, badWrappers, "wrapper")}
	c.Text = fmt.Sprintf(c.Wrapper, cdcngen.BadLiterals[c.Index].Text) + "\n"
	return c
}

func findLeaf(v model.Val, want model.Val) bool {
	if v.IsLeaf() {
		return model.Identical(v, want)
	}
	for _, x := range v.Items {
		if findLeaf(x, want) {
			return true
		}
	}
	for _, p := range v.Pairs {
		if findLeaf(p.Key, want) || findLeaf(p.Value, want) {
			return true
		}
	}
	return false
}

func execBad(c badCase, _ core.Source) (res core.Result) {
	lit := cdcngen.BadLiterals[c.Index]
	var obj any
	p, _ := lib.Call(func() { obj = mod.ParseSource(c.Text) })
	res.Classes = append(res.Classes, lit.Class)
	res.NonTrivial = true
	if p {
		return // rejected: fine
	}
	got := model.Abstract(obj)
	if lit.Natural != nil && findLeaf(got, *lit.Natural) {
		return // accepted with the one meaning the literal can have
	}
	res.Violation = core.Violate("C11/silently-altered/"+lit.Class, "the literal %s cannot be represented, but ParseSource accepted\n%s\nand returned %v", lit.Text, c.Text, got)
	return
}

// ---------------------------------------------------------------- deep sentences

// The grammar nests arbitrarily: two deeply nested items side by side in each of the seven type contexts.
type deepDocCase struct {
	Context string `json:"context"`
	Depth   int    `json:"depth"` // nesting depth of the whole document
}

func execDeepDoc(c deepDocCase, _ core.Source) (res core.Result) {
	deep := func(leaf string) string {
		return strings.Repeat("[", c.Depth-1) + leaf + strings.Repeat("](List)", c.Depth-1)
	}
	text := "[" + deep("1") + ", " + deep("2") + "](" + c.Context + ")\n"
	if c.Context == "Catalog" || c.Context == "Map" {
		text = "[\"a\": " + deep("1") + ", \"b\": " + deep("2") + "](" + c.Context + ")\n"
	}
	var obj any
	if p, payload := lib.Call(func() { obj = mod.ParseSource(text) }); p {
		sig := "C11/rejected" + rejectClass(payload)
		if strings.HasPrefix(fmt.Sprint(payload), "The maximum traversal depth was exceeded") {
			sig = "C11/rejected/collator-depth-limit"
		}
		res.Violation = core.Violate(sig, "ParseSource rejected a sentence of the grammar (two items nested %d deep in a %s): %s", c.Depth-1, c.Context, lib.Short(payload))
		return
	}
	// the leaves are where the text puts them: walk down the first and the second item
	walkDown := func(x any) (int, any) {
		depth := 0
		for {
			l, ok := x.(col.ListLike[any])
			if !ok || l.GetSize() != 1 {
				return depth, x
			}
			x = l.GetValue(1)
			depth++
		}
	}
	var items []any
	switch t := obj.(type) {
	case col.Sequential[any]:
		items = t.AsArray()
	case col.Sequential[col.AssociationLike[any, any]]:
		for _, a := range t.AsArray() {
			items = append(items, a.GetValue())
		}
	}
	if len(items) != 2 {
		res.Violation = core.Violate("C11/deep/wrong-meaning", "a %s of two items nested %d deep parsed to %d items", c.Context, c.Depth-1, len(items))
		return
	}
	leaves := map[any]bool{}
	for _, it := range items {
		d, leaf := walkDown(it)
		if d != c.Depth-1 {
			res.Violation = core.Violate("C11/deep/wrong-meaning", "an item written %d levels deep in a %s was parsed %d levels deep", c.Depth-1, c.Context, d)
			return
		}
		leaves[leaf] = true
	}
	if !leaves[int64(1)] || !leaves[int64(2)] {
		res.Violation = core.Violate("C11/deep/wrong-meaning", "the leaves 1 and 2 of a deep %s came back as %v", c.Context, leaves)
		return
	}
	res.NonTrivial = true
	res.Classes = append(res.Classes, "context-"+c.Context)
	return
}

func TestC11(t *testing.T) {
	r := core.Begin(t, "C11")
	defer r.End()
	core.DFS(r, core.Check[docCase]{Name: "small-derivations", Gen: genDoc(true, 1, 2, r.N(1, 2)), Exec: execDoc, NoJournal: true}, 0)
	core.Rapid(r, core.Check[docCase]{Name: "random-derivations", Gen: genDoc(false, 3, 26), Exec: execDoc}, r.N(3000, 12000))
	core.DFS(r, core.Check[badCase]{Name: "unrepresentable-literals", Gen: genBad, Exec: execBad}, 0)
	core.DFS(r, core.Check[assocSeqCase]{Name: "associations-in-sequence-contexts", Gen: func(s core.Source) assocSeqCase {
		c := assocSeqCase{Context: core.Pick(s, []string{"Array", "List", "Stack", "Queue", "Set"}, "context"), Multi: s.Choose(2, "multi") == 1, Keys: []int{}}
		n := 1 + s.Choose(4, "n")
		for i := 0; i < n; i++ {
			c.Keys = append(c.Keys, s.Choose(len(assocSeqKeys), "key"))
		}
		return c
	}, Exec: execAssocSeq, NoJournal: true}, 0)
	core.Rapid(r, core.Check[kinCase]{Name: "sets-of-kin", Gen: genKin, Exec: execKin}, r.N(1500, 15000))
	core.Rapid(r, core.Check[longDocCase]{Name: "long-documents", Gen: genLongDoc(false), Exec: execLongDoc}, r.N(60, 900))
	core.DFS(r, core.Check[coldParseCase]{Name: "cold-start", Gen: func(s core.Source) coldParseCase {
		return coldParseCase{Kind: "parse", Children: r.N(12, 60)}
	}, Exec: execColdParse("C11"), NoJournal: true, HangLimit: 1800 * time.Second}, 0)
	core.DFS(r, core.Check[longParserCase]{Name: "long-lived-parser", Gen: func(s core.Source) longParserCase {
		return longParserCase{Docs: r.N(12000, 60000), Notation: s.Choose(2, "notation") == 1}
	}, Exec: execLongParser("C11"), NoJournal: true, HangLimit: 600 * time.Second}, 0)
	deepDepths := []int{2, 8, 9, 16, 17, 18, 19, 40, r.N(100, 300)}
	core.DFS(r, core.Check[deepDocCase]{Name: "deep-sentences", Gen: func(s core.Source) deepDocCase {
		return deepDocCase{Context: core.Pick(s, []string{"Array", "List", "Set", "Stack", "Queue", "Catalog", "Map"}, "context"), Depth: deepDepths[s.Choose(len(deepDepths), "depth")]}
	}, Exec: execDeepDoc}, 0)
}

// ---------------------------------------------------------------- associations in the contexts of the sequence kinds

// The grammar lets associations stand in any context.  In an Array, List, Stack, Queue or Set they denote
// association objects, in source order; a repeated key keeps its first position and its last value, as in a
// Catalog (a Set orders its members itself).
type assocSeqCase struct {
	Context string `json:"context"`
	Keys    []int  `json:"keys"` // indices into assocSeqKeys, repeats allowed
	Multi   bool   `json:"multi"`
}

var assocSeqKeys = []struct {
	lit string
	val any
}{{"\"a\"", "a"}, {"\"b\"", "b"}, {"1", int64(1)}, {"true", true}}

func execAssocSeq(c assocSeqCase, _ core.Source) (res core.Result) {
	var items []string
	type pr struct {
		k any
		v int64
	}
	var want []pr
	for i, k := range c.Keys {
		items = append(items, fmt.Sprintf("%s: %d", assocSeqKeys[k].lit, 10+i))
		hit := false
		for j := range want {
			if want[j].k == assocSeqKeys[k].val {
				want[j].v, hit = int64(10+i), true
			}
		}
		if !hit {
			want = append(want, pr{assocSeqKeys[k].val, int64(10 + i)})
		}
	}
	text := "[" + strings.Join(items, ", ") + "](" + c.Context + ")\n"
	if c.Multi {
		text = "[\n    " + strings.Join(items, "\n    ") + "\n](" + c.Context + ")\n"
	}
	var obj any
	if p, payload := lib.Call(func() { obj = mod.ParseSource(text) }); p {
		res.Violation = core.Violate("C11/rejected"+rejectClass(payload), "ParseSource rejected a sentence of the grammar (associations in a %s):\n%s\n%s", c.Context, text, lib.Short(payload))
		return
	}
	seq, ok := obj.(col.Sequential[any])
	if !ok {
		res.Violation = core.Violate("C11/assoc-items/wrong-kind", "associations in a %s context parsed to a %T\n%s", c.Context, obj, text)
		return
	}
	var got []pr
	for _, x := range seq.AsArray() {
		a, ok := x.(col.AssociationLike[any, any])
		if !ok {
			res.Violation = core.Violate("C11/assoc-items/not-associations", "an item of %s is a %T, not an association", text, x)
			return
		}
		v, _ := a.GetValue().(int64)
		got = append(got, pr{a.GetKey(), v})
	}
	match := len(got) == len(want)
	if match && c.Context != "Set" {
		for i := range got {
			match = match && got[i] == want[i]
		}
	} else if match {
		for _, w := range want {
			found := false
			for _, g := range got {
				found = found || g == w
			}
			match = match && found
		}
	}
	if !match {
		res.Violation = core.Violate("C11/assoc-items/wrong-meaning", "the text\n%s\ndenotes the associations %v (a repeated key keeps its first position and its last value), ParseSource returned %v", text, want, got)
		return
	}
	res.NonTrivial = len(c.Keys) >= 2
	res.Classes = append(res.Classes, "context-"+c.Context)
	if len(want) < len(c.Keys) {
		res.Classes = append(res.Classes, "repeated-key")
	}
	return
}
