package notation

import (
	cdc "github.com/craterdog/go-collection-framework/v4/cdcn"
	col "github.com/craterdog/go-collection-framework/v4/collection"
	"verifharness/cdcngen"
	"verifharness/core"
	"verifharness/lib"
	"verifharness/model"
)

// Instances with a past.  A parser or a notation may be used for one text after another; what an earlier
// text left behind -- in particular one that was rejected half-way, with tokens read ahead and put back --
// must not show in the next.  pastDocs are fed to an instance before it is used for the text under test.
var pastDocs = []string{
	"[1, 2](List)\n",               // accepted
	"[1 2](Array)",                 // rejected by the parser after a put-back (missing comma)
	"[1, 2, 3(List)",               // rejected by the parser (missing bracket)
	"[1](Array) [2](Array)",        // trailing tokens
	"[\n    1\n    2 3\n](List)\n", // rejected on line 3
	"[bad](Array)",                 // rejected by the scanner
	"[\"key\": ](Catalog)",         // rejected with a half-built association
}

// parserWithPast returns the ParseSource of one parser instance that has seen the past documents selected by
// the bits of mask.
func parserWithPast(mask int) func(string) any {
	scannerUser()
	parser := cdc.Parser().Make()
	for i, doc := range pastDocs {
		if mask&(1<<i) != 0 {
			lib.Call(func() { parser.ParseSource(doc) })
		}
	}
	return func(source string) any { return parser.ParseSource(source) }
}

// notationWithPast returns a notation instance that has parsed (and formatted) the selected past documents.
func notationWithPast(mask int) col.NotationLike {
	notation := cdc.Notation().Make()
	for i, doc := range pastDocs {
		if mask&(1<<i) != 0 {
			lib.Call(func() { notation.FormatValue(notation.ParseSource(doc)) })
		}
	}
	lib.Call(func() { notation.FormatValue(make(chan int)) }) // a value it cannot format
	return notation
}

// scannerUser is a caller that uses the scanner class on its own (a small tool that picks numbers apart): it asks
// for the matches of every token type in texts that do and do not match and keeps working on the lists it gets --
// they are its own.  Called before the parsers under test are used.
func scannerUser() {
	var all col.ListLike[string]
	for _, text := range []string{"zzz", "12", "1.5", "", "[", "\"s\"", "true!"} {
		for tt := cdc.ErrorToken; tt <= cdc.TypeToken; tt++ {
			lib.Call(func() { // some token types cannot be matched at all
				matches := cdc.Scanner().MatchToken(tt, text)
				if matches == nil {
					return
				}
				if all == nil {
					all = matches
				} else {
					all.AppendValues(matches)
				}
				matches.AppendValue("7")
				matches.SetValue(1, "77")
			})
		}
	}
}

// ---------------------------------------------------------------- one parser that lives long

// One parser (and one notation) instance is handed thousands of documents, most of them malformed in ways that
// are noticed with several sequences still open.  Every few hundred documents a valid one is parsed: it must
// still mean what it says, and a malformed one must still get its located diagnostic.
type longParserCase struct {
	Docs     int  `json:"docs"`
	Notation bool `json:"through_notation"`
}

var rejectedForms = []string{
	"[1, [2, [3, [9223372036854775808](List)](List)](List)](List)\n",
	"[[[[1 2](Array)](List)](List)](List)\n",
	"[\"a\": [\"b\": [\"c\": [$](List)](Catalog)](Catalog)](Catalog)\n",
	"[1, 2](Nope)\n",
	"[[1, 2](List), [3, 4(List)](List)\n",
	"[\n    [\n        [\n            'ab'\n        ](List)\n    ](List)\n](List)\n",
}

func execLongParser(prop string) func(longParserCase, core.Source) core.Result {
	return func(c longParserCase, _ core.Source) (res core.Result) {
		scannerUser()
		parse := cdc.Parser().Make().ParseSource
		if c.Notation {
			parse = cdc.Notation().Make().ParseSource
		}
		valid := "[\"k\": [1, [2, [3](List)](List)](List), \"e\": [ ](List)](Catalog)\n"
		want := model.VAssoc("Catalog",
			model.Pair{Key: model.VStr("k"), Value: model.VColl("List", model.VInt(1), model.VColl("List", model.VInt(2), model.VColl("List", model.VInt(3))))},
			model.Pair{Key: model.VStr("e"), Value: model.VColl("List")})
		for i := 0; i < c.Docs && res.Violation == nil; i++ {
			doc := rejectedForms[i%len(rejectedForms)]
			if p, _ := lib.Call(func() { parse(doc) }); !p {
				res.Violation = core.Violate(prop+"/long-lived-parser/accepted", "document %d handed to one parser is malformed but was accepted:\n%s", i+1, doc)
				return
			}
			if i%250 == 249 || i == c.Docs-1 {
				var obj any
				if p, payload := lib.Call(func() { obj = parse(valid) }); p {
					res.Violation = core.Violate(prop+"/long-lived-parser/rejected", "after %d malformed documents one parser rejects a sentence of the grammar: %s\n%s", i+1, lib.Short(payload), valid)
					return
				}
				if d := cdcngen.Matches(want, obj, "$"); d != "" {
					res.Violation = core.Violate(prop+"/long-lived-parser/wrong-meaning", "after %d malformed documents: %s", i+1, d)
					return
				}
				if prop == "C12" {
					o := parseCheckedWith(doc, parse)
					if o.Kind == "violation" {
						res.Violation = o.Violation
						return
					}
				}
			}
		}
		res.NonTrivial = true
		return
	}
}
