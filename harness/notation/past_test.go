package notation

import (
	cdc "github.com/craterdog/go-collection-framework/v4/cdcn"
	col "github.com/craterdog/go-collection-framework/v4/collection"
	"verifharness/lib"
)

// Instances with a past.  A parser or a notation may be used for one text after another; what an earlier
// text left behind -- in particular one that was rejected half-way, with tokens read ahead and put back --
// must not show in the next.  pastDocs are fed to an instance before it is used for the text under test.
var pastDocs = []string{
	"[1, 2](List)\n",              // accepted
	"[1 2](Array)",                // rejected by the parser after a put-back (missing comma)
	"[1, 2, 3(List)",              // rejected by the parser (missing bracket)
	"[1](Array) [2](Array)",       // trailing tokens
	"[\n    1\n    2 3\n](List)\n", // rejected on line 3
	"[bad](Array)",                // rejected by the scanner
	"[\"key\": ](Catalog)",        // rejected with a half-built association
}

// parserWithPast returns the ParseSource of one parser instance that has seen the past documents selected by
// the bits of mask.
func parserWithPast(mask int) func(string) any {
	parser := cdc.Parser().Make()
	for i, doc := range pastDocs {
		if mask&(1<<i) != 0 {
			lib.Call(func() { parser.ParseSource(doc) })
		}
	}
	return func(source string) any { return parser.ParseSource(source) }
}

// notationWithPast returns a notation instance that has parsed (and formatted) the selected past documents.
func notationWithPast(mask int) col.NotationLike {
	notation := cdc.Notation().Make()
	for i, doc := range pastDocs {
		if mask&(1<<i) != 0 {
			lib.Call(func() { notation.FormatValue(notation.ParseSource(doc)) })
		}
	}
	lib.Call(func() { notation.FormatValue(make(chan int)) }) // a value it cannot format
	return notation
}
