package notation

import (
	"fmt"
	"strings"

	mod "github.com/craterdog/go-collection-framework/v4"
	cdc "github.com/craterdog/go-collection-framework/v4/cdcn"
	"verifharness/core"
	"verifharness/lib"
	"verifharness/model"
)

// ---------------------------------------------------------------- C10: FormatValue is total (deep and self-containing values)

type deepCase struct {
	Shape    string    `json:"shape"` // deep | cyclic
	Kinds    []string  `json:"kinds"`
	Siblings []int     `json:"siblings"` // per level: number of leaf siblings (0 = singleton level)
	V        model.Val `json:"value"`
}

var cycleKinds = []string{"List", "Array", "Stack", "Queue", "Catalog", "Map", "Set"}

func genDeep(s core.Source) deepCase {
	c := deepCase{Shape: core.Pick(s, []string{"deep", "cyclic", "cyclic"}, "shape")}
	var levels int
	if c.Shape == "deep" {
		levels = 9 + s.Choose(6, "levels") // deeper than the limit of 8
	} else {
		levels = 1 + s.Choose(3, "cycle-length") // cycle length 1..3
	}
	for i := 0; i < levels; i++ {
		c.Kinds = append(c.Kinds, core.Pick(s, cycleKinds, "kind"))
		if c.Shape == "deep" {
			c.Siblings = append(c.Siblings, 1+s.Choose(2, "siblings")) // multi-item levels
		} else {
			c.Siblings = append(c.Siblings, s.Choose(3, "siblings")) // 0 = the collection holds only itself / the next one
		}
	}
	// build the nest inside out
	var inner model.Val
	if c.Shape == "deep" {
		inner = model.VInt(42)
	} else {
		inner = model.Val{K: model.Self, Up: levels}
	}
	for i := levels - 1; i >= 0; i-- {
		ck := c.Kinds[i]
		if ck == "Set" && c.Shape == "cyclic" {
			ck = "List" // inserting a set into itself needs the very ranking that C08 owns
			c.Kinds[i] = ck
		}
		v := model.Val{K: model.Coll, CK: ck}
		add := func(x model.Val) {
			if model.Associative(ck) {
				v.Pairs = append(v.Pairs, model.Pair{Key: model.VInt(int64(len(v.Pairs))), Value: x})
			} else {
				v.Items = append(v.Items, x)
			}
		}
		for k := 0; k < c.Siblings[i]; k++ {
			add(model.VInt(int64(k)))
		}
		add(inner)
		inner = v
	}
	c.V = inner
	return c
}

func execDeep(c deepCase, _ core.Source) (res core.Result) {
	var obj any
	if p, payload := lib.Call(func() { obj = model.Build(c.V) }); p {
		res.Violation = core.Violate("C10/total/build-panicked", "building %v panicked: %s", c.V, lib.Short(payload))
		return
	}
	var text string
	p, payload := lib.Call(func() { text = mod.FormatValue(obj) })
	if p {
		res.Violation = core.Violate("C10/total/format-panicked", "FormatValue of a %s value (%v) panicked instead of eliding: %s", c.Shape, c.V, lib.Short(payload))
		return
	}
	if !strings.Contains(text, "...") {
		res.Violation = core.Violate("C10/total/no-elision", "FormatValue of a %s value (%v) returned a text without the elision marker:\n%s", c.Shape, c.V, text)
		return
	}
	if len(text) > 1<<20 {
		res.Violation = core.Violate("C10/total/huge", "FormatValue of %v returned %d bytes", c.V, len(text))
		return
	}
	// the formatter is still usable and pure afterwards: module-level calls use a fresh notation,
	// so check the same on one notation instance
	n := cdc.Notation().Make()
	t1 := n.FormatValue(obj)
	plain := model.Build(model.VColl("List", model.VInt(1), model.VInt(2)))
	t2 := n.FormatValue(plain)
	if (t1 != text && !mapsWithSeveralEntries(c.V)) || t2 != mod.FormatValue(plain) {
		res.Violation = core.Violate("C10/total/impure-after-elision", "after formatting a %s value the same notation prints differently:\n%s\n---\n%s", c.Shape, t2, mod.FormatValue(plain))
		return
	}
	res.NonTrivial = true
	res.Classes = append(res.Classes, "shape-"+c.Shape, fmt.Sprintf("levels-%d", len(c.Kinds)))
	singleton := true
	for _, k := range c.Siblings {
		if k > 0 {
			singleton = false
		}
	}
	if singleton {
		res.Classes = append(res.Classes, "all-singleton")
	}
	return
}

// ---------------------------------------------------------------- C10: text does not depend on earlier (failed) calls

type histCase struct {
	Calls []histCall `json:"calls"`
}

type histCall struct {
	Fail bool      `json:"fail"` // the value holds an unsupported leaf at depth >= 1 inside a multi-item collection
	V    model.Val `json:"value"`
}

func genHist(s core.Source) histCase {
	var c histCase
	n := 2 + s.Choose(7, "ncalls")
	o := &model.GenOpts{MaxItems: 5, MaxDepth: 2, QueueMax: 16, Kinds: []string{"Array", "List", "Stack", "Queue", "Catalog"}}
	for i := 0; i < n; i++ {
		call := histCall{Fail: s.Choose(3, "fail") == 0}
		if call.Fail {
			// [ 1, [ 2, <opaque> ] ] : the failing call leaves buffer and depth dirty
			outer := core.Pick(s, []string{"List", "Array", "Catalog"}, "outer")
			inner := model.VColl("List", model.VInt(2), model.Val{K: model.Opaque}, model.VInt(3))
			if outer == "Catalog" {
				call.V = model.VAssoc("Catalog", model.Pair{Key: model.VStr("a"), Value: model.VInt(1)}, model.Pair{Key: model.VStr("b"), Value: inner})
			} else {
				call.V = model.VColl(outer, model.VInt(1), inner)
			}
		} else {
			call.V = model.GenColl(s, o, 0)
		}
		c.Calls = append(c.Calls, call)
	}
	return c
}

func execHist(c histCase, _ core.Source) (res core.Result) {
	n := cdc.Notation().Make()
	f := cdc.Formatter().Make()
	failedBefore, okAfterFail := false, false
	for i, call := range c.Calls {
		obj := model.Build(call.V)
		var want string
		wantPanics, _ := lib.Call(func() { want = cdc.Notation().Make().FormatValue(obj) })
		for _, target := range []struct {
			name string
			fn   func(any) string
		}{{"notation", n.FormatValue}, {"formatter", f.FormatValue}} {
			var got string
			p, _ := lib.Call(func() { got = target.fn(obj) })
			if p != wantPanics {
				res.Violation = core.Violate("C10/history/outcome-depends-on-history", "call %d on one %s: panicked=%v, on a fresh notation panicked=%v (value %v)", i+1, target.name, p, wantPanics, call.V)
				return
			}
			if !p && got != want {
				res.Violation = core.Violate("C10/history/text-depends-on-history", "call %d on one %s (after %d earlier calls, a failed one among them: %v) printed\n%q\na fresh notation prints\n%q", i+1, target.name, i, failedBefore, got, want)
				return
			}
		}
		if wantPanics {
			failedBefore = true
		} else if failedBefore {
			okAfterFail = true
		}
	}
	res.NonTrivial = okAfterFail
	if failedBefore {
		res.Classes = append(res.Classes, "has-failed-call")
	}
	return
}
