package notation

import (
	"fmt"
	"strings"
	"testing"
	"time"

	mod "github.com/craterdog/go-collection-framework/v4"
	cdc "github.com/craterdog/go-collection-framework/v4/cdcn"
	col "github.com/craterdog/go-collection-framework/v4/collection"
	"verifharness/core"
	"verifharness/lib"
	"verifharness/model"
)

// ---------------------------------------------------------------- C10: CDCN round trip

type rtCase struct {
	V       model.Val `json:"value"`
	Classes []string  `json:"-"`
}

// genRoundTrip draws a top-level collection of the canonical universe whose
// multi-item nesting stays within the formatter's limit and whose text stays
// small (parsing is quadratic in the text length).
func genRoundTrip(s core.Source) rtCase {
	cl := model.Classes{}
	o := &model.GenOpts{MaxItems: 40, QueueMax: 16, Classes: cl}
	var v model.Val
	switch s.Choose(4, "shape") {
	case 0: // wide and shallow
		o.MaxDepth = 2
		v = model.GenColl(s, o, 0)
	case 1: // a spine that reaches a chosen depth 1..8, each level multi-item
		depth := 1 + s.Choose(8, "depth")
		o.MaxItems = 4
		o.MaxDepth = 0 // siblings along the spine are leaves
		v = genSpine(s, o, depth)
		cl[fmt.Sprintf("depth-%d", depth)] = true
	default:
		o.MaxDepth = 4
		o.MaxItems = 8
		v = model.GenColl(s, o, 0)
	}
	return rtCase{V: v, Classes: cl.List()}
}

// genSpine nests `depth` collections of random kinds; every level gets one or two leaf siblings.
func genSpine(s core.Source, o *model.GenOpts, depth int) model.Val {
	kinds := []string{"Array", "List", "Set", "Stack", "Queue", "Catalog", "Map"}
	ck := kinds[s.Choose(len(kinds), "spinekind")]
	nsib := 1 + s.Choose(2, "siblings")
	if depth == 1 {
		nsib++
	}
	v := model.Val{K: model.Coll, CK: ck}
	add := func(x model.Val) {
		if model.Associative(ck) {
			v.Pairs = append(v.Pairs, model.Pair{Key: model.VInt(int64(len(v.Pairs))), Value: x})
		} else {
			v.Items = append(v.Items, x)
		}
	}
	for i := 0; i < nsib; i++ {
		add(model.GenLeaf(s, o))
	}
	if depth > 1 {
		add(genSpine(s, o, depth-1))
	}
	return v
}

func hasNonDefault(cl []string) bool {
	for _, c := range cl {
		if strings.HasPrefix(c, "float-exp") || strings.HasPrefix(c, "float-sub") || c == "float-max" || c == "float-random" || c == "float-integral-large" ||
			strings.HasPrefix(c, "int-") || strings.HasPrefix(c, "uint-") || (strings.HasPrefix(c, "rune-") && c != "rune-ascii") ||
			(strings.HasPrefix(c, "str-") && c != "str-plain" && c != "str-empty") || c == "size-multi" || c == "size->16" {
			return true
		}
	}
	return false
}

func mapsWithSeveralEntries(v model.Val) bool {
	if v.K == model.Coll && v.CK == "Map" && len(v.Pairs) >= 2 {
		return true
	}
	for _, x := range v.Items {
		if mapsWithSeveralEntries(x) {
			return true
		}
	}
	for _, p := range v.Pairs {
		if mapsWithSeveralEntries(p.Value) {
			return true
		}
	}
	return false
}

// an earlier caller: it parsed the empty forms of every kind and filled what it got (its results are its own)
func earlierCaller() {
	lib.Call(func() {
		for _, text := range []string{"[ ](List)", "[ ](Set)", "[ ](Stack)", "[ ](Queue)", "[:](Catalog)", "[:](Map)", "[[ ](List), [ ](Set)](List)", "[\"k\": [ ](List)](Catalog)"} {
			scribble(mod.ParseSource(text + "\n"))
		}
	})
}

func execRoundTrip(c rtCase, _ core.Source) (res core.Result) {
	res.Classes = c.Classes
	earlierCaller()
	var obj any
	if p, payload := lib.Call(func() { obj = model.Build(c.V) }); p {
		res.Violation = core.Violate("C10/build-panicked", "building %v through the class constructors panicked: %s", c.V, lib.Short(payload))
		return
	}
	a0 := model.Abstract(obj)
	var text string
	if p, payload := lib.Call(func() { text = mod.FormatValue(obj) }); p {
		res.Violation = core.Violate("C10/format-panicked", "FormatValue(%v) panicked: %s", a0, lib.Short(payload))
		return
	}
	var parsed any
	if p, payload := lib.Call(func() { parsed = mod.ParseSource(text) }); p {
		res.Violation = core.Violate("C10/parse-rejects-formatted-text"+rejectClass(payload), "ParseSource rejected the text FormatValue produced for %v:\n%s\n%s", a0, text, lib.Short(payload))
		return
	}
	// what a parse returns belongs to the caller: when this case is over every collection of the result is
	// changed in place (values appended to the empty ones too), which no later round trip may notice
	defer func() { lib.Call(func() { scribble(parsed) }) }()
	a1 := model.Abstract(parsed)
	if !model.Identical(a0, a1) {
		res.Violation = core.Violate("C10/value-changed", "round trip changed the value:\n  before %v\n  after  %v\n  text:\n%s", a0, a1, text)
		return
	}
	// the same through a parser and a notation instance that have been used before (also for texts they rejected)
	mask := int(core.Mix(uint64(len(text))*131+uint64(len(c.Classes))) % 128)
	var viaParser, viaNotation any
	if p, payload := lib.Call(func() {
		viaParser = parserWithPast(mask)(text)
		n := notationWithPast(mask)
		viaNotation = n.ParseSource(n.FormatValue(obj))
	}); p {
		res.Violation = core.Violate("C10/instance-with-a-past/panicked", "a parser or notation instance that had been used before (past %07b) failed on the text FormatValue produced for %v:\n%s\n%s", mask, a0, text, lib.Short(payload))
		return
	}
	if !model.Identical(a0, model.Abstract(viaParser)) || !model.Identical(a0, model.Abstract(viaNotation)) {
		res.Violation = core.Violate("C10/instance-with-a-past/value-changed", "a parser or notation instance that had been used before (past %07b) changed the value %v:\n  parser   %v\n  notation %v", mask, a0, model.Abstract(viaParser), model.Abstract(viaNotation))
		return
	}
	var text2 string
	if p, payload := lib.Call(func() { text2 = mod.FormatValue(parsed) }); p {
		res.Violation = core.Violate("C10/reformat-panicked", "FormatValue of the parsed value panicked: %s", lib.Short(payload))
		return
	}
	if text2 != text {
		if !mapsWithSeveralEntries(a0) {
			res.Violation = core.Violate("C10/text-not-a-fixpoint", "formatting the parsed value gives a different text:\n%s\n---\n%s", text, text2)
			return
		}
		var again any
		if p, payload := lib.Call(func() { again = mod.ParseSource(text2) }); p || !model.Identical(model.Abstract(again), a1) {
			res.Violation = core.Violate("C10/map-text-not-stable", "the re-formatted text of a value containing a Map does not parse back to the same value: %s\n%s", lib.Short(payload), text2)
			return
		}
	}
	// the class notation (String()) and a notation instance agree with the module-level call
	if !mapsWithSeveralEntries(a0) {
		if st, ok := obj.(fmt.Stringer); ok {
			if s := st.String(); s != text {
				res.Violation = core.Violate("C10/String-differs", "String() differs from FormatValue:\n%s\n---\n%s", s, text)
				return
			}
		}
		if s := cdc.Notation().Make().FormatValue(obj); s != text {
			res.Violation = core.Violate("C10/notation-differs", "notation.FormatValue differs from module FormatValue:\n%s\n---\n%s", s, text)
			return
		}
	}
	if len(text) > 600 {
		res.Classes = append(res.Classes, "text>600B")
	}
	res.NonTrivial = hasNonDefault(c.Classes)
	return
}

func rejectClass(payload any) string {
	s := fmt.Sprint(payload)
	switch {
	case strings.Contains(s, "type: error"):
		return "/error-token"
	case strings.Contains(s, "An unexpected token"):
		return "/unexpected-token"
	}
	return "/other"
}

// ---------------------------------------------------------------- typed variants: text fixpoint on narrower widths

type typedCase struct {
	Form string  `json:"form"`
	Nums []int64 `json:"nums"`
}

var typedForms = []string{"List[int8]", "List[int16]", "List[int]", "List[uint8]", "List[uint16]", "List[uint32]", "List[uint]", "[]float32", "List[float32]",
	"List[complex64]", "Catalog[string,uint16]", "Map[string,int8]", "[]int", "map[string]int", "Set[int16]", "Stack[uint8]", "Array[float32]"}

func execTyped(c typedCase, _ core.Source) (res core.Result) {
	n := lib.Notation()
	var obj any
	f32 := func(x int64) float32 {
		return []float32{0.1, 1.5, 3.4028235e38, 1e-45, -2.5, 16777216, 1e10, 0.000123}[int(uint64(x)%8)]
	}
	switch c.Form {
	case "List[int8]":
		obj = col.List[int8](n).MakeFromArray(conv(c.Nums, func(x int64) int8 { return int8(x) }))
	case "List[int16]":
		obj = col.List[int16](n).MakeFromArray(conv(c.Nums, func(x int64) int16 { return int16(x) }))
	case "List[int]":
		obj = col.List[int](n).MakeFromArray(conv(c.Nums, func(x int64) int { return int(x) }))
	case "List[uint8]":
		obj = col.List[uint8](n).MakeFromArray(conv(c.Nums, func(x int64) uint8 { return uint8(x) }))
	case "List[uint16]":
		obj = col.List[uint16](n).MakeFromArray(conv(c.Nums, func(x int64) uint16 { return uint16(x) }))
	case "List[uint32]":
		obj = col.List[uint32](n).MakeFromArray(conv(c.Nums, func(x int64) uint32 { return uint32(x) }))
	case "List[uint]":
		obj = col.List[uint](n).MakeFromArray(conv(c.Nums, func(x int64) uint { return uint(x) }))
	case "[]float32":
		obj = conv(c.Nums, f32)
	case "List[float32]":
		obj = col.List[float32](n).MakeFromArray(conv(c.Nums, f32))
	case "Array[float32]":
		obj = col.Array[float32](n).MakeFromArray(conv(c.Nums, f32))
	case "List[complex64]":
		obj = col.List[complex64](n).MakeFromArray(conv(c.Nums, func(x int64) complex64 { return complex(f32(x), f32(x+3)) }))
	case "Catalog[string,uint16]":
		cat := col.Catalog[string, uint16](n).Make()
		for i, x := range c.Nums {
			cat.SetValue(fmt.Sprintf("k%d", i), uint16(x))
		}
		obj = cat
	case "Map[string,int8]":
		m := col.Map[string, int8](n).Make()
		if len(c.Nums) > 0 {
			m.SetValue("only", int8(c.Nums[0]))
		}
		obj = m
	case "[]int":
		obj = conv(c.Nums, func(x int64) int { return int(x) })
	case "map[string]int":
		m := map[string]int{}
		if len(c.Nums) > 0 {
			m["only"] = int(c.Nums[0])
		}
		obj = m
	case "Set[int16]":
		obj = col.Set[int16](n).MakeFromArray(conv(c.Nums, func(x int64) int16 { return int16(x) }))
	case "Stack[uint8]":
		obj = col.Stack[uint8](n).MakeFromArray(conv(c.Nums, func(x int64) uint8 { return uint8(x) }))
	}
	var text, text2 string
	var parsed any
	if p, payload := lib.Call(func() { text = mod.FormatValue(obj) }); p {
		res.Violation = core.Violate("C10/typed/format-panicked", "FormatValue(%s %v) panicked: %s", c.Form, c.Nums, lib.Short(payload))
		return
	}
	if p, payload := lib.Call(func() { parsed = mod.ParseSource(text) }); p {
		res.Violation = core.Violate("C10/typed/parse-rejects-formatted-text", "ParseSource rejected the text of %s %v:\n%s\n%s", c.Form, c.Nums, text, lib.Short(payload))
		return
	}
	if p, payload := lib.Call(func() { text2 = mod.FormatValue(parsed) }); p || text2 != text {
		res.Violation = core.Violate("C10/typed/text-not-a-fixpoint", "%s %v: formatting the parsed value gives a different text (%v):\n%s\n---\n%s", c.Form, c.Nums, payload, text, text2)
		return
	}
	res.NonTrivial = len(c.Nums) >= 2
	res.Classes = append(res.Classes, c.Form)
	return
}

func conv[T any](xs []int64, f func(int64) T) []T {
	out := make([]T, len(xs))
	for i, x := range xs {
		out[i] = f(x)
	}
	return out
}

func genTyped(s core.Source) typedCase {
	c := typedCase{Form: core.Pick(s, typedForms, "form"), Nums: []int64{}}
	n := s.Choose(6, "n")
	for i := 0; i < n; i++ {
		if s.Choose(2, "src") == 0 {
			c.Nums = append(c.Nums, model.IntPool[s.Choose(len(model.IntPool), "num")])
		} else {
			c.Nums = append(c.Nums, int64(core.Mix(s.Bits("num"))))
		}
	}
	return c
}

func TestC10(t *testing.T) {
	r := core.Begin(t, "C10")
	defer r.End()
	core.Rapid(r, core.Check[rtCase]{Name: "roundtrip", Gen: genRoundTrip, Exec: execRoundTrip, HangLimit: 0}, r.N(3000, 20000))
	core.Rapid(r, core.Check[typedCase]{Name: "typed-fixpoint", Gen: genTyped, Exec: execTyped}, r.N(600, 5000))
	core.Rapid(r, core.Check[histCase]{Name: "format-histories", Gen: genHist, Exec: execHist}, r.N(300, 3000))
	core.Rapid(r, core.Check[fmtPastCase]{Name: "formatted-then-changed", Gen: genFmtPast, Exec: execFmtPast}, r.N(1500, 15000))
	core.Rapid(r, core.Check[deepCase]{Name: "deep-and-cyclic", Gen: genDeep, Exec: execDeep}, r.N(300, 3000))
	// one very long leaf (a document body, an attachment): a string of tens of thousands of characters as a value
	// and as a key, plain, with escapes, with two-byte letters
	core.DFS(r, core.Check[longLeafCase]{Name: "long-leaves", Gen: func(s core.Source) longLeafCase {
		return longLeafCase{Length: []int{1000, 65535, 65536, 70000, 200000}[s.Choose(5, "length")], Alphabet: s.Choose(3, "alphabet"), Where: core.Pick(s, []string{"List", "Catalog-value", "Catalog-key", "Set"}, "where")}
	}, Exec: execLongLeaf, HangLimit: 300 * time.Second}, 0)
}

type longLeafCase struct {
	Length   int    `json:"length"`
	Alphabet int    `json:"alphabet"` // 0 plain, 1 with quotes, backslashes and newlines, 2 two-byte letters
	Where    string `json:"where"`
}

func execLongLeaf(c longLeafCase, s core.Source) core.Result {
	unit := []string{"abcdefgh", "a\"b\\c\nd", "aéüb"}[c.Alphabet]
	var b strings.Builder
	for b.Len() < c.Length {
		b.WriteString(unit)
	}
	long := model.VStr(b.String()[:c.Length/len(unit)*len(unit)])
	var v model.Val
	switch c.Where {
	case "List":
		v = model.VColl("List", model.VInt(1), long, model.VInt(2))
	case "Set":
		v = model.VColl("Set", long, model.VStr("b"))
	case "Catalog-value":
		v = model.VAssoc("Catalog", model.Pair{Key: model.VStr("body"), Value: long}, model.Pair{Key: model.VStr("n"), Value: model.VInt(1)})
	default:
		v = model.VAssoc("Catalog", model.Pair{Key: long, Value: model.VInt(1)}, model.Pair{Key: model.VStr("n"), Value: model.VInt(2)})
	}
	res := execRoundTrip(rtCase{V: v, Classes: []string{"long-leaf-" + c.Where}}, s)
	if res.Violation != nil && len(res.Violation.Message) > 600 {
		res.Violation.Message = res.Violation.Message[:300] + " ... " + res.Violation.Message[len(res.Violation.Message)-250:]
	}
	res.NonTrivial = true
	return res
}
