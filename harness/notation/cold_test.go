package notation

import (
	"fmt"
	"sync"
	"testing"

	mod "github.com/craterdog/go-collection-framework/v4"
	col "github.com/craterdog/go-collection-framework/v4/collection"
	"verifharness/core"
	"verifharness/lib"
)

// ---------------------------------------------------------------- the first documents of a process, parsed by several goroutines at once

// A server starts and parses its first requests concurrently.  Whatever the scanner and the parser set up on first
// use is set up exactly then; a test process is cold once, so the scenario runs in fresh child processes
// (lib.ColdChildren).
func TestColdChildParse(t *testing.T) {
	if lib.ColdKind() == "" {
		return
	}
	const workers = 16
	problems := make([]string, workers)
	var wg sync.WaitGroup
	start := make(chan struct{})
	for w := 0; w < workers; w++ {
		w := w
		wg.Add(1)
		go func() {
			defer wg.Done()
			defer func() {
				if e := recover(); e != nil {
					problems[w] = "panicked: " + lib.Short(e)
				}
			}()
			<-start
			text := fmt.Sprintf("[%d, \"s\", -2.5e+3, 0xff, 'r', nil, (1.0+2.0i), [true, false](Set), [\"k\": [ ](List)](Catalog)](List)\n", w)
			if lib.ColdKind() == "reject" && w%2 == 1 {
				text = fmt.Sprintf("[%d, $](List)\n", w)
				if p, _ := lib.Call(func() { mod.ParseSource(text) }); !p {
					problems[w] = "a malformed document was accepted"
				}
				return
			}
			obj := mod.ParseSource(text)
			l, ok := obj.(col.ListLike[any])
			if !ok || l.GetSize() != 9 || l.GetValue(1) != int64(w) || l.GetValue(2) != "s" || l.GetValue(3) != -2500.0 || l.GetValue(4) != uint64(255) || l.GetValue(5) != 'r' || l.GetValue(6) != nil || l.GetValue(7) != complex(1, 2) {
				problems[w] = fmt.Sprintf("the document %q parsed to %v", text, obj)
			}
		}()
	}
	close(start)
	wg.Wait()
	for w, p := range problems {
		if p != "" {
			lib.ColdReport(fmt.Sprintf("goroutine %d of %d parsing the first documents of the process: %s", w, workers, p))
			t.Fail()
			return
		}
	}
	lib.ColdReport("")
}

type coldParseCase struct {
	Kind     string `json:"kind"`
	Children int    `json:"children"`
}

func execColdParse(prop string) func(coldParseCase, core.Source) core.Result {
	return func(c coldParseCase, _ core.Source) (res core.Result) {
		if failures := lib.ColdChildren("TestColdChildParse", c.Kind, c.Children); len(failures) > 0 {
			res.Violation = core.Violate(prop+"/cold-start/"+c.Kind, "%d of %d fresh processes in which 16 goroutines parsed the first documents of the process at the same time failed; the first one:\n%s", len(failures), c.Children, failures[0])
		}
		res.NonTrivial = true
		return
	}
}
