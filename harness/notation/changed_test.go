package notation

import (
	"fmt"

	age "github.com/craterdog/go-collection-framework/v4/agent"
	cdc "github.com/craterdog/go-collection-framework/v4/cdcn"
	col "github.com/craterdog/go-collection-framework/v4/collection"
	"verifharness/core"
	"verifharness/lib"
	"verifharness/model"
)

// ---------------------------------------------------------------- formatted, then changed, then formatted again

// One notation (and one formatter) formats one collection object, the object is changed through its own methods --
// mostly by changes that keep its size -- and the same notation formats the same object again.  The oracle is a
// notation without a past: a fresh notation must print the same text for the object, and parsing the text must give
// a value equal to a freshly built collection of the reference content (the round trip of C10 for an object with a past).

type fmtOp struct {
	Op   int  `json:"op"`
	A    int  `json:"a"`
	B    int  `json:"b"`
	Look bool `json:"look"`
}

type fmtPastCase struct {
	Kind string  `json:"kind"`
	Init []int   `json:"init"`
	Ops  []fmtOp `json:"ops"`
}

func genFmtPast(s core.Source) fmtPastCase {
	c := fmtPastCase{Kind: core.Pick(s, []string{"List", "Catalog", "Set"}, "kind")}
	for k, n := 0, 1+s.Choose(4, "size"); k < n; k++ {
		c.Init = append(c.Init, s.Choose(6, "v"))
	}
	for k, n := 0, 1+s.Choose(5, "ops"); k < n; k++ {
		c.Ops = append(c.Ops, fmtOp{Op: s.Choose(5, "op"), A: s.Choose(6, "a"), B: s.Choose(8, "b"), Look: s.Choose(3, "look") != 0})
	}
	return c
}

func execFmtPast(c fmtPastCase, _ core.Source) (res core.Result) {
	res.Classes = append(res.Classes, "kind-"+c.Kind)
	history := []string{fmt.Sprintf("%s of %v", c.Kind, c.Init)}
	panicked, payload := lib.Call(func() {
		mn := model.Notation()
		n := cdc.Notation().Make()
		f := cdc.Formatter().Make()
		var obj any
		var apply func(o fmtOp) (string, bool)
		var fresh func() any
		switch c.Kind {
		case "List":
			x := col.List[any](mn).Make()
			var ref []int
			for _, v := range c.Init {
				x.AppendValue(int64(v))
				ref = append(ref, v)
			}
			obj = x
			fresh = func() any {
				y := col.List[any](mn).Make()
				for _, v := range ref {
					y.AppendValue(int64(v))
				}
				return y
			}
			apply = func(o fmtOp) (string, bool) {
				switch o.Op {
				case 0, 1:
					if len(ref) == 0 {
						return "", false
					}
					i := o.A % len(ref)
					x.SetValue(i+1, int64(o.B))
					ref[i] = o.B
					return fmt.Sprintf("SetValue(%d, %d)", i+1, o.B), true
				case 2:
					x.ReverseValues()
					for i, j := 0, len(ref)-1; i < j; i, j = i+1, j-1 {
						ref[i], ref[j] = ref[j], ref[i]
					}
					return "ReverseValues()", true
				case 3:
					if len(ref) == 0 {
						return "", false
					}
					i := o.A % len(ref)
					x.RemoveValue(i + 1)
					ref = append(ref[:i], ref[i+1:]...)
					return fmt.Sprintf("RemoveValue(%d)", i+1), true
				}
				x.AppendValue(int64(o.B))
				ref = append(ref, o.B)
				return fmt.Sprintf("AppendValue(%d)", o.B), true
			}
		case "Set":
			x := col.Set[any](mn).Make()
			ref := map[int]bool{}
			for _, v := range c.Init {
				x.AddValue(int64(v))
				ref[v] = true
			}
			obj = x
			fresh = func() any {
				y := col.Set[any](mn).Make()
				for v := range ref {
					y.AddValue(int64(v))
				}
				return y
			}
			apply = func(o fmtOp) (string, bool) {
				if o.Op%2 == 0 {
					x.AddValue(int64(o.B))
					ref[o.B] = true
					return fmt.Sprintf("AddValue(%d)", o.B), true
				}
				x.RemoveValue(int64(o.A))
				delete(ref, o.A)
				return fmt.Sprintf("RemoveValue(%d)", o.A), true
			}
		default:
			x := col.Catalog[any, any](mn).Make()
			type pair struct{ k, v int }
			var ref []pair
			set := func(k, v int) {
				for i := range ref {
					if ref[i].k == k {
						ref[i].v = v
						return
					}
				}
				ref = append(ref, pair{k, v})
			}
			for i, k := range c.Init {
				x.SetValue(int64(k), int64(i))
				set(k, i)
			}
			obj = x
			fresh = func() any {
				y := col.Catalog[any, any](mn).Make()
				for _, p := range ref {
					y.SetValue(int64(p.k), int64(p.v))
				}
				return y
			}
			apply = func(o fmtOp) (string, bool) {
				switch o.Op {
				case 0, 1, 2:
					x.SetValue(int64(o.A), int64(o.B))
					set(o.A, o.B)
					return fmt.Sprintf("SetValue(%d, %d)", o.A, o.B), true
				case 3:
					x.ReverseValues()
					for i, j := 0, len(ref)-1; i < j; i, j = i+1, j-1 {
						ref[i], ref[j] = ref[j], ref[i]
					}
					return "ReverseValues()", true
				}
				for i := range ref {
					if ref[i].k == o.A {
						x.RemoveValue(int64(o.A))
						ref = append(ref[:i], ref[i+1:]...)
						return fmt.Sprintf("RemoveValue(%d)", o.A), true
					}
				}
				return "", false
			}
		}
		looks, changes := 0, 0
		look := func() {
			looks++
			want := cdc.Notation().Make().FormatValue(obj)
			if got := n.FormatValue(obj); got != want {
				res.Violation = core.Violate("C10/formatted-then-changed/notation", "after %v one notation prints the %s as\n%q\na fresh notation prints\n%q", history, c.Kind, got, want)
				return
			}
			if got := f.FormatValue(obj); got != want {
				res.Violation = core.Violate("C10/formatted-then-changed/formatter", "after %v one formatter prints the %s as\n%q\na fresh notation prints\n%q", history, c.Kind, got, want)
				return
			}
			back := n.ParseSource(want)
			if w := fresh(); !age.Collator[any]().Make().CompareValues(back, w) {
				res.Violation = core.Violate("C10/formatted-then-changed/roundtrip", "after %v the text\n%q\nparses to %v, not to the reference content %v", history, want, back, w)
			}
		}
		look()
		for _, o := range c.Ops {
			if res.Violation != nil {
				return
			}
			if what, ok := apply(o); ok {
				changes++
				history = append(history, what)
				if o.Look {
					history = append(history, "formatted")
					look()
				}
			}
		}
		if res.Violation == nil {
			look()
		}
		res.NonTrivial = changes >= 1 && looks >= 2
	})
	if panicked && res.Violation == nil {
		res.Violation = core.Violate("C10/formatted-then-changed/panicked", "after %v: %s", history, lib.Short(payload))
	}
	return
}
