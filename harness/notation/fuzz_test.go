package notation

import (
	"strings"
	"testing"

	"verifharness/core"
)

// FuzzParse is the native coverage-guided fuzz target of C12 (thorough tier): the same oracle as the
// generated sub-checks sits inside the target.
func FuzzParse(f *testing.F) {
	for _, s := range smallDocs {
		f.Add(s)
	}
	for _, s := range soupTokens {
		f.Add(s)
	}
	for _, s := range []string{"[", "]", "[,](List)", "[1, 2](Catalog)", "[1: 2](List)", "[\"\\ud800\"](List)", "[99999999999999999999](List)", "[1.0E+999](Set)", "['\\xff'](List)",
		"[(1.0+-2.0i)](Array)", "][1, 2, 3](List)[1, 2, 3](List)[1, 2, 3](List)", strings.Repeat("[", 40), strings.Repeat("[1, ", 20), "[\n    1\n    2\n](Queue)\n\n\n",
		"[\"" + strings.Repeat("\\\"", 30) + "\" 1](List)", "[\t](List)", "[1: [2: [3: nil](Map)](Catalog)](Map)\n"} {
		f.Add(s)
	}
	known := core.LoadFindings("C12") // listed findings are excluded by construction: the campaign goes on behind them
	f.Fuzz(func(t *testing.T, input string) {
		if len(input) > 2048 {
			t.Skip()
		}
		o := parseChecked(input)
		if o.Kind == "violation" {
			for i := range known {
				if known[i].Matches(o.Violation.Signature) {
					t.Skip("known finding " + known[i].ID)
				}
			}
			t.Fatalf("VERIF-VIOLATION %s: %s", o.Violation.Signature, o.Violation.Message)
		}
	})
}
