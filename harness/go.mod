module verifharness

go 1.23

toolchain go1.23.5

require (
	github.com/craterdog/go-collection-framework/v4 v4.0.0
	pgregory.net/rapid v1.3.0
)

replace github.com/craterdog/go-collection-framework/v4 => /repo/v4
