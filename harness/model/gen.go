package model

import (
	"math"

	"verifharness/core"
)

// Classes collects the names of the value classes a generated case contains
// (reported in the evidence histogram).
type Classes map[string]bool

func (c Classes) add(s string) {
	if c != nil {
		c[s] = true
	}
}

func (c Classes) List() []string {
	out := make([]string, 0, len(c))
	for k := range c {
		out = append(out, k)
	}
	return out
}

// ---------------------------------------------------------------- leaf pools

var IntPool = []int64{0, 1, -1, 2, -2, 7, 10, -10, 127, 128, -128, -129, 255, 256, 32767, 32768, -32768, -32769, 65535, 65536,
	2147483647, 2147483648, -2147483648, -2147483649, 4294967295, 4294967296, 1<<53 - 1, 1 << 53, 1<<53 + 1,
	math.MaxInt64, math.MaxInt64 - 1, math.MinInt64, math.MinInt64 + 1}

var UintPool = []uint64{0, 1, 2, 9, 10, 15, 16, 255, 256, 65535, 65536, 4294967295, 4294967296, 1 << 63, 1<<63 - 1, 1<<63 + 1, math.MaxUint64, math.MaxUint64 - 1}

type floatEntry struct {
	F     float64
	Class string
}

func bitsF(b uint64) float64 { return math.Float64frombits(b) }

// FloatPool: every magnitude class the properties name (finite values only).
var FloatPool = func() []floatEntry {
	pos := []floatEntry{
		{0, "zero"},
		{bitsF(1), "subnormal"}, {bitsF(0x000FFFFFFFFFFFFF), "subnormal"}, {bitsF(0x0000000000100000), "subnormal"},
		{bitsF(0x0010000000000000), "smallest-normal"},
		{1, "plain"}, {math.Nextafter(1, 2), "plain-ulp"}, {math.Nextafter(1, 0), "plain-ulp"},
		{0.1, "plain"}, {0.5, "plain"}, {1.5, "plain"}, {123456.789, "plain"}, {999999.9, "plain"}, {0.0001, "plain"}, {0.000123, "plain"},
		{3, "integral"}, {100000, "integral"}, {999999, "integral"},
		{1e6, "exp+06..+09"}, {1234567, "exp+06..+09"}, {2.5e7, "exp+06..+09"}, {9.99e9, "exp+06..+09"},
		{1e10, "exp+10..+99"}, {1.5e10, "exp+10..+99"}, {1e21, "exp+10..+99"}, {6.02214076e23, "exp+10..+99"}, {9.9e99, "exp+10..+99"},
		{1e100, "exp+100..+308"}, {1.7976931348623157e308, "max"}, {1e308, "exp+100..+308"}, {2.5e200, "exp+100..+308"},
		{1e-5, "exp-05..-09"}, {1.25e-5, "exp-05..-09"}, {9.9e-5, "exp-05..-09"}, {1e-9, "exp-05..-09"},
		{1e-10, "exp-10..-99"}, {6.62607015e-34, "exp-10..-99"}, {1e-99, "exp-10..-99"},
		{1e-100, "exp-100..-324"}, {2.5e-300, "exp-100..-324"}, {1e-323, "exp-100..-324"},
		{float64(1 << 53), "integral-large"}, {float64(1<<53) + 2, "integral-large"}, {9007199254740993, "integral-large"},
	}
	out := []floatEntry{}
	for _, e := range pos {
		out = append(out, e, floatEntry{-e.F, e.Class})
	}
	return out
}()

type runeEntry struct {
	R     rune
	Class string
}

var RunePool = []runeEntry{
	{'a', "ascii"}, {'Z', "ascii"}, {'0', "ascii"}, {' ', "ascii"}, {'~', "ascii"}, {'"', "double-quote"}, {'\'', "quote"}, {'\\', "backslash"},
	{0, "control"}, {'\a', "control"}, {'\b', "control"}, {'\t', "control"}, {'\n', "control"}, {'\v', "control"}, {'\f', "control"}, {'\r', "control"},
	{0x1b, "control"}, {0x1f, "control"}, {0x7f, "del"}, {0x80, "latin1"}, {0xe9, "latin1"}, {0xff, "latin1"},
	{0x100, "bmp"}, {0x3b1, "bmp"}, {0x4e16, "bmp"}, {0xd7ff, "bmp"}, {0xe000, "bmp"}, {0xfffd, "replacement"}, {0xffff, "bmp"},
	{0x10000, "astral"}, {0x1f600, "astral"}, {0x10ffff, "max"}, {0x2028, "bmp"}, {0xad, "latin1"}, {0x200b, "bmp"},
}

type strEntry struct {
	S     string
	Class string
}

var StrPool = []strEntry{
	{"", "empty"}, {"a", "plain"}, {"ab", "plain"}, {"abc", "plain"}, {"b", "plain"}, {"hello world", "plain"}, {" ", "plain"}, {"A", "plain"},
	{"\"", "quote"}, {"say \"hi\"", "quote"}, {"'", "quote"}, {"\\", "backslash"}, {"\\n", "backslash"}, {"a\\\"b", "backslash"},
	{"\n", "control"}, {"line1\nline2", "control"}, {"\t\r\n", "control"}, {"\x00", "control"}, {"\a\b\f\v", "control"}, {"\x1b[0m", "control"}, {"\x7f", "control"},
	{"é", "unicode"}, {"日本語", "unicode"}, {"😀", "unicode"}, {"a😀b", "unicode"}, {" ", "unicode"}, {"�", "unicode"},
	{"\xff", "invalid-utf8"}, {"a\xc3", "invalid-utf8"}, {"\xed\xa0\x80", "invalid-utf8"}, {"\xf4\x90\x80\x80", "invalid-utf8"}, {"ok\x80ok", "invalid-utf8"},
	{"0123456789012345678901234567890123456789012345", "long"}, {"[1, 2](List)", "looks-like-cdcn"}, {"nil", "looks-like-cdcn"}, {"0x1f", "looks-like-cdcn"}, {"true", "looks-like-cdcn"}, {"1.5E+10", "looks-like-cdcn"},
	{"ab\x00cd", "control"}, {"tab\there", "control"}, {"trailing ", "plain"},
}

// ---------------------------------------------------------------- generators

type GenOpts struct {
	MaxDepth  int      // collection nesting below this value
	MaxItems  int      // items per collection
	Kinds     []string // allowed collection kinds
	QueueMax  int      // items in a Queue
	NoNilKeys bool
	LeafKinds []Kind // allowed leaf kinds (nil = all canonical)
	Classes   Classes
	// SmallLeaves draws leaves from tiny pools so that equal values are frequent (sets, keys, ranking)
	SmallLeaves bool
}

var allLeafKinds = []Kind{Nil, Bool, Int, Uint, Float, Complex, Rune, Str}

// GenLeaf draws one canonical leaf.
func GenLeaf(s core.Source, o *GenOpts) Val {
	kinds := o.LeafKinds
	if kinds == nil {
		kinds = allLeafKinds
	}
	k := kinds[s.Choose(len(kinds), "leafkind")]
	if o.SmallLeaves {
		switch k {
		case Nil:
			return VNil()
		case Bool:
			return VBool(s.Choose(2, "bool") == 1)
		case Int:
			return VInt(int64(s.Choose(5, "int")) - 2)
		case Uint:
			return VUint(uint64(s.Choose(4, "uint")))
		case Float:
			return VFloat([]float64{0, math.Copysign(0, -1), 1, -1.5, 2.5}[s.Choose(5, "float")])
		case Complex:
			return VComplex([]complex128{0, 1, complex(0, 1), complex(1, -1)}[s.Choose(4, "complex")])
		case Rune:
			return VRune([]rune{'a', 'b', 'é'}[s.Choose(3, "rune")])
		default:
			return VStr([]string{"", "a", "ab", "b"}[s.Choose(4, "str")])
		}
	}
	switch k {
	case Nil:
		o.Classes.add("leaf-nil")
		return VNil()
	case Bool:
		o.Classes.add("leaf-bool")
		return VBool(s.Choose(2, "bool") == 1)
	case Int:
		if s.Choose(4, "intsrc") == 0 {
			o.Classes.add("int-random")
			return VInt(int64(core.Mix(s.Bits("int"))) >> uint(s.Choose(64, "shift")))
		}
		o.Classes.add("int-boundary")
		return VInt(IntPool[s.Choose(len(IntPool), "int")])
	case Uint:
		if s.Choose(4, "uintsrc") == 0 {
			o.Classes.add("uint-random")
			return VUint(core.Mix(s.Bits("uint")) >> uint(s.Choose(64, "shift")))
		}
		o.Classes.add("uint-boundary")
		return VUint(UintPool[s.Choose(len(UintPool), "uint")])
	case Float:
		return VFloat(genFloat(s, o))
	case Complex:
		o.Classes.add("leaf-complex")
		return VComplex(complex(genFloat(s, o), genFloat(s, o)))
	case Rune:
		if s.Choose(5, "runesrc") == 0 {
			// any valid code point
			r := rune(s.Int(0, 0x10ffff, "rune"))
			if r >= 0xd800 && r <= 0xdfff {
				r = 0xfffd
			}
			o.Classes.add("rune-random")
			return VRune(r)
		}
		e := RunePool[s.Choose(len(RunePool), "rune")]
		o.Classes.add("rune-" + e.Class)
		return VRune(e.R)
	default:
		if s.Choose(5, "strsrc") == 0 {
			// a random byte/rune string
			n := s.Choose(12, "strlen")
			b := []byte{}
			for i := 0; i < n; i++ {
				if s.Choose(3, "bytekind") == 0 {
					b = append(b, byte(s.Choose(256, "byte")))
				} else {
					b = append(b, []byte(string(RunePool[s.Choose(len(RunePool), "srune")].R))...)
				}
			}
			o.Classes.add("str-random")
			return VStr(string(b))
		}
		e := StrPool[s.Choose(len(StrPool), "str")]
		o.Classes.add("str-" + e.Class)
		return VStr(e.S)
	}
}

func genFloat(s core.Source, o *GenOpts) float64 {
	if s.Choose(4, "floatsrc") == 0 {
		// random finite bits
		b := core.Mix(s.Bits("float"))
		f := math.Float64frombits(b)
		if math.IsNaN(f) || math.IsInf(f, 0) {
			f = math.Float64frombits(b &^ (1 << 62))
		}
		o.Classes.add("float-random")
		return f
	}
	e := FloatPool[s.Choose(len(FloatPool), "float")]
	o.Classes.add("float-" + e.Class)
	return e.F
}

// GenVal draws a value of the canonical universe: a leaf or (while depth
// remains) a collection of any allowed kind.
func GenVal(s core.Source, o *GenOpts, depth int) Val {
	if depth >= o.MaxDepth || s.Choose(3, "leaf-or-coll") != 0 {
		return GenLeaf(s, o)
	}
	return GenColl(s, o, depth)
}

// GenColl draws a collection at the given depth.
func GenColl(s core.Source, o *GenOpts, depth int) Val {
	kinds := o.Kinds
	if kinds == nil {
		kinds = CollKinds
	}
	ck := kinds[s.Choose(len(kinds), "collkind")]
	// size classes: empty, singleton, a few, many
	var n int
	switch s.Choose(6, "sizeclass") {
	case 0:
		n = 0
	case 1:
		n = 1
	case 2, 3, 4:
		n = 2 + s.Choose(4, "size")
	default:
		n = s.Choose(o.MaxItems+1, "size")
	}
	if n > o.MaxItems {
		n = o.MaxItems
	}
	if ck == "Queue" && o.QueueMax > 0 && n > o.QueueMax {
		n = o.QueueMax
	}
	o.Classes.add("coll-" + ck)
	switch {
	case n == 0:
		o.Classes.add("size-empty")
	case n == 1:
		o.Classes.add("size-singleton")
	case n > 16:
		o.Classes.add("size->16")
	default:
		o.Classes.add("size-multi")
	}
	v := Val{K: Coll, CK: ck}
	if Associative(ck) {
		for i := 0; i < n; i++ {
			key := GenLeaf(s, o)
			if o.NoNilKeys && key.K == Nil {
				key = VStr("k")
			}
			dup := false
			for _, p := range v.Pairs {
				if Eq(p.Key, key) {
					dup = true
				}
			}
			if dup {
				continue
			}
			v.Pairs = append(v.Pairs, Pair{key, GenVal(s, o, depth+1)})
		}
		return v
	}
	for i := 0; i < n; i++ {
		v.Items = append(v.Items, GenVal(s, o, depth+1))
	}
	return v
}
