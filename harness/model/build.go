package model

import (
	"fmt"
	"sort"

	cdc "github.com/craterdog/go-collection-framework/v4/cdcn"
	col "github.com/craterdog/go-collection-framework/v4/collection"
)

var notation = cdc.Notation().Make()

// Notation returns the notation the model's classes were registered with.
func Notation() col.NotationLike { return notation }

func init() {
	// The class registries cache the first notation they are asked with; make
	// sure every class the model touches is registered with a real notation.
	col.Array[any](notation)
	col.List[any](notation)
	col.Set[any](notation)
	col.Stack[any](notation)
	col.Queue[any](notation)
	col.Catalog[any, any](notation)
	col.Map[any, any](notation)
	col.Association[any, any](notation)
}

// OpaqueValue is what Build produces for an Opaque node: a value the notation
// cannot format.
type OpaqueValue struct{ X chan int }

// Build turns an abstract value into library objects, through the class
// constructors and public methods only.
func Build(v Val) any { return build(v, nil) }

func build(v Val, enclosing []any) any {
	switch v.K {
	case Nil:
		return nil
	case Bool:
		return v.B
	case Int:
		return v.I
	case Uint:
		return v.U
	case Float:
		return v.F
	case Complex:
		return v.C
	case Rune:
		return v.R
	case Str:
		return v.S
	case Opaque:
		return OpaqueValue{}
	case Self:
		if v.Up < 1 || v.Up > len(enclosing) {
			panic(fmt.Sprintf("model: Self(%d) with %d enclosing collections", v.Up, len(enclosing)))
		}
		return enclosing[len(enclosing)-v.Up]
	case GoSlice:
		s := make([]any, len(v.Items))
		enc := append(enclosing, any(s))
		for i, x := range v.Items {
			s[i] = build(x, enc)
		}
		return s
	case GoMap:
		m := map[any]any{}
		enc := append(enclosing, any(m))
		for _, p := range v.Pairs {
			m[build(p.Key, enc)] = build(p.Value, enc)
		}
		return m
	}
	n := len(v.Items)
	switch v.CK {
	case "Array":
		a := col.Array[any](notation).Make(uint(n))
		enc := append(enclosing, any(a))
		for i, x := range v.Items {
			a.SetValue(i+1, build(x, enc))
		}
		return a
	case "List":
		l := col.List[any](notation).Make()
		enc := append(enclosing, any(l))
		for _, x := range v.Items {
			l.AppendValue(build(x, enc))
		}
		return l
	case "Set":
		s := col.Set[any](notation).Make()
		enc := append(enclosing, any(s))
		for _, x := range v.Items {
			s.AddValue(build(x, enc))
		}
		return s
	case "Stack":
		capacity := col.Stack[any](notation).DefaultCapacity()
		if uint(n) > capacity {
			capacity = uint(n)
		}
		s := col.Stack[any](notation).MakeWithCapacity(capacity)
		enc := append(enclosing, any(s))
		for i := n - 1; i >= 0; i-- { // Items are listed top first
			s.AddValue(build(v.Items[i], enc))
		}
		return s
	case "Queue":
		capacity := col.Queue[any](notation).DefaultCapacity()
		if uint(n) > capacity {
			capacity = uint(n)
		}
		q := col.Queue[any](notation).MakeWithCapacity(capacity)
		enc := append(enclosing, any(q))
		for _, x := range v.Items {
			q.AddValue(build(x, enc))
		}
		return q
	case "Catalog":
		c := col.Catalog[any, any](notation).Make()
		enc := append(enclosing, any(c))
		for _, p := range v.Pairs {
			c.SetValue(build(p.Key, enc), build(p.Value, enc))
		}
		return c
	case "Map":
		m := col.Map[any, any](notation).Make()
		enc := append(enclosing, any(m))
		for _, p := range v.Pairs {
			m.SetValue(build(p.Key, enc), build(p.Value, enc))
		}
		return m
	}
	panic("model: unknown collection kind " + v.CK)
}

// Abstract maps a library object (or canonical leaf) back to an abstract value
// through the public API only.  Unknown dynamic types become Opaque nodes that
// carry the type name, so a comparison with an expected value fails visibly.
func Abstract(x any) Val { return abstract(x, 0) }

func abstract(x any, depth int) Val {
	if depth > 200 {
		return Val{K: Opaque, S: "too deep (cyclic?)"}
	}
	items := func(arr []any) []Val {
		out := make([]Val, len(arr))
		for i, e := range arr {
			out[i] = abstract(e, depth+1)
		}
		return out
	}
	pairs := func(arr []col.AssociationLike[any, any]) []Pair {
		out := make([]Pair, len(arr))
		for i, a := range arr {
			out[i] = Pair{abstract(a.GetKey(), depth+1), abstract(a.GetValue(), depth+1)}
		}
		return out
	}
	switch t := x.(type) {
	case nil:
		return VNil()
	case bool:
		return VBool(t)
	case int64:
		return VInt(t)
	case uint64:
		return VUint(t)
	case float64:
		return VFloat(t)
	case complex128:
		return VComplex(t)
	case rune:
		return VRune(t)
	case string:
		return VStr(t)
	case col.CatalogLike[any, any]:
		return Val{K: Coll, CK: "Catalog", Pairs: pairs(t.AsArray())}
	case col.ListLike[any]:
		return Val{K: Coll, CK: "List", Items: items(t.AsArray())}
	case col.QueueLike[any]:
		return Val{K: Coll, CK: "Queue", Items: items(t.AsArray())}
	case col.SetLike[any]:
		return Val{K: Coll, CK: "Set", Items: items(t.AsArray())}
	case col.StackLike[any]:
		return Val{K: Coll, CK: "Stack", Items: items(t.AsArray())}
	case col.ArrayLike[any]:
		return Val{K: Coll, CK: "Array", Items: items(t.AsArray())}
	case col.MapLike[any, any]:
		ps := pairs(t.AsArray())
		sort.SliceStable(ps, func(i, j int) bool { return ps[i].Key.String() < ps[j].Key.String() })
		return Val{K: Coll, CK: "Map", Pairs: ps}
	case []any:
		return Val{K: GoSlice, Items: items(t)}
	case map[any]any:
		var ps []Pair
		for k, v := range t {
			ps = append(ps, Pair{abstract(k, depth+1), abstract(v, depth+1)})
		}
		sort.SliceStable(ps, func(i, j int) bool { return ps[i].Key.String() < ps[j].Key.String() })
		return Val{K: GoMap, Pairs: ps}
	case col.AssociationLike[any, any]:
		return Val{K: Opaque, S: "association " + abstract(t.GetKey(), depth+1).String() + ":" + abstract(t.GetValue(), depth+1).String()}
	}
	return Val{K: Opaque, S: fmt.Sprintf("%T", x)}
}

// BuildVia builds an acyclic abstract value like Build, but every collection node goes through another
// constructor: way 1 = MakeFromArray (MakeFromMap for the associative kinds when the keys allow it),
// way 2 = MakeFromSequence from a list or an array holding the items, way 3 = MakeFromSequence from a
// collection of the same kind (a copy).  Way 0 is Build's own way (Make and one insertion per item).
// Way 4 fills the collection, empties it with RemoveAll and fills it again (see buildRefilled).
// Two values built from equal parts are the same value whichever constructors produced them.
func BuildVia(v Val, way int) any {
	if way%5 == 4 {
		return buildRefilled(v, way)
	}
	way = way%5 + 5*(way/5)
	if way%5 == 0 {
		return build(v, nil)
	}
	switch v.K {
	case GoSlice:
		s := make([]any, 0, len(v.Items)) // a slice with spare capacity instead of an exact one
		for _, x := range v.Items {
			s = append(s, BuildVia(x, way+1))
		}
		return s
	case GoMap:
		m := make(map[any]any, 2*len(v.Pairs)+1)
		for i := len(v.Pairs) - 1; i >= 0; i-- {
			m[BuildVia(v.Pairs[i].Key, way+1)] = BuildVia(v.Pairs[i].Value, way+1)
		}
		return m
	case Coll:
	default:
		return build(v, nil)
	}
	items := make([]any, len(v.Items))
	for i, x := range v.Items {
		items[i] = BuildVia(x, way+1)
	}
	A := col.Association[any, any](notation)
	assocs := make([]col.AssociationLike[any, any], len(v.Pairs))
	for i, p := range v.Pairs {
		assocs[i] = A.Make(BuildVia(p.Key, way+1), BuildVia(p.Value, way+1))
	}
	n := len(items)
	asSequence := func() col.Sequential[any] {
		if way%5 == 2 {
			return col.Array[any](notation).MakeFromArray(items)
		}
		return col.List[any](notation).MakeFromArray(items)
	}
	switch v.CK {
	case "Array":
		C := col.Array[any](notation)
		switch way % 5 {
		case 1:
			return C.MakeFromArray(items)
		case 2:
			return C.MakeFromSequence(col.List[any](notation).MakeFromArray(items))
		}
		return C.MakeFromSequence(C.MakeFromArray(items))
	case "List":
		C := col.List[any](notation)
		switch way % 5 {
		case 1:
			return C.MakeFromArray(items)
		case 2:
			return C.MakeFromSequence(col.Array[any](notation).MakeFromArray(items))
		}
		return C.MakeFromSequence(C.MakeFromArray(items))
	case "Set":
		C := col.Set[any](notation)
		switch way % 5 {
		case 1:
			return C.MakeFromArray(items)
		case 2:
			return C.MakeFromSequence(asSequence())
		}
		return C.MakeFromSequence(C.MakeFromArray(items))
	case "Stack":
		C := col.Stack[any](notation)
		if uint(n) > C.DefaultCapacity() {
			return build(v, nil)
		}
		switch way % 5 {
		case 1:
			return C.MakeFromArray(items)
		case 2:
			return C.MakeFromSequence(asSequence())
		}
		return C.MakeFromSequence(C.MakeFromArray(items))
	case "Queue":
		C := col.Queue[any](notation)
		if uint(n) > C.DefaultCapacity() {
			return build(v, nil)
		}
		switch way % 5 {
		case 1:
			return C.MakeFromArray(items)
		case 2:
			return C.MakeFromSequence(asSequence())
		}
		return C.MakeFromSequence(C.MakeFromArray(items))
	case "Catalog":
		C := col.Catalog[any, any](notation)
		switch way % 5 {
		case 1:
			return C.MakeFromArray(assocs)
		case 2:
			return C.MakeFromSequence(col.List[col.AssociationLike[any, any]](notation).MakeFromArray(assocs))
		}
		return C.MakeFromSequence(C.MakeFromArray(assocs))
	case "Map":
		C := col.Map[any, any](notation)
		switch way % 5 {
		case 1:
			return C.MakeFromArray(assocs)
		case 2:
			return C.MakeFromSequence(col.List[col.AssociationLike[any, any]](notation).MakeFromArray(assocs))
		}
		return C.MakeFromSequence(col.Catalog[any, any](notation).MakeFromArray(assocs))
	}
	panic("model: unknown collection kind " + v.CK)
}

// buildRefilled builds a collection that has a past: it held the same items (a catalog or map: the same keys
// with other values), was emptied with RemoveAll and filled again.
func buildRefilled(v Val, way int) any {
	if v.K != Coll || v.CK == "Array" {
		return BuildVia(v, way+1)
	}
	items := make([]any, len(v.Items))
	for i, x := range v.Items {
		items[i] = BuildVia(x, way+1)
	}
	keys := make([]any, len(v.Pairs))
	values := make([]any, len(v.Pairs))
	for i, p := range v.Pairs {
		keys[i], values[i] = BuildVia(p.Key, way+1), BuildVia(p.Value, way+1)
	}
	n := len(items)
	switch v.CK {
	case "List":
		c := col.List[any](notation).Make()
		for round := 0; round < 2; round++ {
			for _, x := range items {
				c.AppendValue(x)
			}
			if round == 0 {
				c.RemoveAll()
			}
		}
		return c
	case "Set":
		c := col.Set[any](notation).Make()
		for round := 0; round < 2; round++ {
			for _, x := range items {
				c.AddValue(x)
			}
			if round == 0 {
				c.RemoveAll()
			}
		}
		return c
	case "Stack":
		C := col.Stack[any](notation)
		c := C.MakeWithCapacity(max(C.DefaultCapacity(), uint(n)))
		for round := 0; round < 2; round++ {
			for i := n - 1; i >= 0; i-- {
				c.AddValue(items[i])
			}
			if round == 0 {
				c.RemoveAll()
			}
		}
		return c
	case "Queue":
		C := col.Queue[any](notation)
		c := C.MakeWithCapacity(max(C.DefaultCapacity(), uint(n)))
		for round := 0; round < 2; round++ {
			for _, x := range items {
				c.AddValue(x)
			}
			if round == 0 {
				c.RemoveAll()
			}
		}
		return c
	case "Catalog":
		c := col.Catalog[any, any](notation).Make()
		for i := len(keys) - 1; i >= 0; i-- {
			c.SetValue(keys[i], "an earlier value")
		}
		c.RemoveAll()
		for i := range keys {
			c.SetValue(keys[i], values[i])
		}
		return c
	case "Map":
		c := col.Map[any, any](notation).Make()
		for i := range keys {
			c.SetValue(keys[i], "an earlier value")
		}
		c.RemoveAll()
		for i := range keys {
			c.SetValue(keys[i], values[i])
		}
		return c
	}
	panic("model: unknown collection kind " + v.CK)
}
