// Package model is the reference side of the checks that speak about values of
// the canonical universe: abstract values, builders (abstract -> library
// objects through the class constructors), abstraction functions (library
// objects -> abstract, through the public API only), reference equality and
// order, and generators.
package model

import (
	"fmt"
	"math"
	"sort"
	"strconv"
	"strings"
)

type Kind int

const (
	Nil Kind = iota
	Bool
	Int   // int64
	Uint  // uint64
	Float // float64
	Complex
	Rune
	Str
	Coll // one of the seven collection kinds
	GoSlice
	GoMap
	Self   // back-reference to the k-th enclosing collection (cyclic values)
	Opaque // a value the notation does not support (struct, chan): for failure histories
)

// Collection kind names as the notation prints them.
var CollKinds = []string{"Array", "List", "Set", "Stack", "Queue", "Catalog", "Map"}

func Associative(ck string) bool { return ck == "Catalog" || ck == "Map" }

type Pair struct {
	Key   Val
	Value Val
}

// Val is an abstract value.  It is a plain tree (Self nodes stand for cycles).
type Val struct {
	K     Kind
	B     bool
	I     int64
	U     uint64
	F     float64
	C     complex128
	R     rune
	S     string
	CK    string // collection kind
	Items []Val
	Pairs []Pair
	Up    int // Self: how many collection levels up
}

func VNil() Val                 { return Val{K: Nil} }
func VBool(b bool) Val          { return Val{K: Bool, B: b} }
func VInt(i int64) Val          { return Val{K: Int, I: i} }
func VUint(u uint64) Val        { return Val{K: Uint, U: u} }
func VFloat(f float64) Val      { return Val{K: Float, F: f} }
func VComplex(c complex128) Val { return Val{K: Complex, C: c} }
func VRune(r rune) Val          { return Val{K: Rune, R: r} }
func VStr(s string) Val         { return Val{K: Str, S: s} }
func VColl(ck string, items ...Val) Val {
	return Val{K: Coll, CK: ck, Items: items}
}
func VAssoc(ck string, pairs ...Pair) Val { return Val{K: Coll, CK: ck, Pairs: pairs} }

func (v Val) IsLeaf() bool { return v.K <= Str }

// String renders a value compactly and unambiguously (floats with their bits
// when the shortest decimal would hide something).
func (v Val) String() string {
	switch v.K {
	case Nil:
		return "nil"
	case Bool:
		return strconv.FormatBool(v.B)
	case Int:
		return "i" + strconv.FormatInt(v.I, 10)
	case Uint:
		return "u" + strconv.FormatUint(v.U, 10)
	case Float:
		return "f" + fmtFloat(v.F)
	case Complex:
		return "c(" + fmtFloat(real(v.C)) + "," + fmtFloat(imag(v.C)) + ")"
	case Rune:
		return "r" + strconv.QuoteRune(v.R)
	case Str:
		return strconv.QuoteToASCII(v.S)
	case Self:
		return fmt.Sprintf("^%d", v.Up)
	case Opaque:
		return "<opaque " + v.S + ">"
	}
	var b strings.Builder
	switch v.K {
	case GoSlice:
		b.WriteString("[]any")
	case GoMap:
		b.WriteString("map")
	default:
		b.WriteString(v.CK)
	}
	b.WriteString("[")
	if v.K == GoMap || (v.K == Coll && Associative(v.CK)) {
		for i, p := range v.Pairs {
			if i > 0 {
				b.WriteString(" ")
			}
			b.WriteString(p.Key.String() + ":" + p.Value.String())
		}
	} else {
		for i, x := range v.Items {
			if i > 0 {
				b.WriteString(" ")
			}
			b.WriteString(x.String())
		}
	}
	b.WriteString("]")
	return b.String()
}

func fmtFloat(f float64) string {
	if f == 0 && math.Signbit(f) {
		return "-0"
	}
	return strconv.FormatFloat(f, 'g', -1, 64)
}

func (v Val) MarshalJSON() ([]byte, error) {
	return []byte(strconv.Quote(v.String())), nil
}

// Depth is the number of nested collection levels (a leaf has depth 0).
func (v Val) Depth() int {
	d := 0
	for _, x := range v.Items {
		if k := x.Depth(); k > d {
			d = k
		}
	}
	for _, p := range v.Pairs {
		if k := p.Value.Depth(); k > d {
			d = k
		}
		if k := p.Key.Depth(); k > d {
			d = k
		}
	}
	if v.K == Coll || v.K == GoSlice || v.K == GoMap {
		return d + 1
	}
	return d
}

// leafEq: equality of leaves as Go == would decide it; identical additionally
// compares float bit patterns (+0 vs -0).
func leafEq(a, b Val, identical bool) bool {
	if a.K != b.K {
		return false
	}
	feq := func(x, y float64) bool {
		if identical {
			return math.Float64bits(x) == math.Float64bits(y)
		}
		return x == y
	}
	switch a.K {
	case Nil:
		return true
	case Bool:
		return a.B == b.B
	case Int:
		return a.I == b.I
	case Uint:
		return a.U == b.U
	case Float:
		return feq(a.F, b.F)
	case Complex:
		return feq(real(a.C), real(b.C)) && feq(imag(a.C), imag(b.C))
	case Rune:
		return a.R == b.R
	case Str:
		return a.S == b.S
	case Opaque:
		return a.S == b.S
	}
	return false
}

func eq(a, b Val, identical bool) bool {
	if a.K != b.K {
		return false
	}
	switch a.K {
	case Coll, GoSlice, GoMap:
		if a.CK != b.CK {
			return false
		}
		if a.K == GoMap || (a.K == Coll && a.CK == "Map") {
			// same key -> value mapping, order irrelevant
			if len(a.Pairs) != len(b.Pairs) {
				return false
			}
			used := make([]bool, len(b.Pairs))
		outer:
			for _, p := range a.Pairs {
				for j, q := range b.Pairs {
					if !used[j] && eq(p.Key, q.Key, identical) && eq(p.Value, q.Value, identical) {
						used[j] = true
						continue outer
					}
				}
				return false
			}
			return true
		}
		if len(a.Items) != len(b.Items) || len(a.Pairs) != len(b.Pairs) {
			return false
		}
		for i := range a.Items {
			if !eq(a.Items[i], b.Items[i], identical) {
				return false
			}
		}
		for i := range a.Pairs {
			if !eq(a.Pairs[i].Key, b.Pairs[i].Key, identical) || !eq(a.Pairs[i].Value, b.Pairs[i].Value, identical) {
				return false
			}
		}
		return true
	case Self:
		return a.Up == b.Up
	}
	return leafEq(a, b, identical)
}

// Eq is reference structural equality: same kinds, same order (maps: same
// mapping), leaves equal as Go == would say.
func Eq(a, b Val) bool { return eq(a, b, false) }

// Identical is Eq with bit-exact floats.
func Identical(a, b Val) bool { return eq(a, b, true) }

// Ord is the reference order where the properties define one: within one leaf
// type (false<true, numeric, byte-wise strings), nil before everything,
// sequences lexicographic with a proper prefix first, maps as (key,value)
// sequences over sorted keys.  ok=false when the order of the pair is
// implementation defined (different types, complex numbers).
func Ord(a, b Val) (cmp int, ok bool) {
	if a.K == Nil || b.K == Nil {
		switch {
		case a.K == Nil && b.K == Nil:
			return 0, true
		case a.K == Nil:
			return -1, true
		}
		return 1, true
	}
	if a.K != b.K {
		return 0, false
	}
	c3 := func(lt, gt bool) int {
		if lt {
			return -1
		}
		if gt {
			return 1
		}
		return 0
	}
	switch a.K {
	case Bool:
		return c3(!a.B && b.B, a.B && !b.B), true
	case Int:
		return c3(a.I < b.I, a.I > b.I), true
	case Uint:
		return c3(a.U < b.U, a.U > b.U), true
	case Float:
		if math.IsNaN(a.F) || math.IsNaN(b.F) {
			return 0, false
		}
		return c3(a.F < b.F, a.F > b.F), true
	case Rune:
		return c3(a.R < b.R, a.R > b.R), true
	case Str:
		return c3(a.S < b.S, a.S > b.S), true
	case Complex:
		if a.C == b.C {
			return 0, true
		}
		return 0, false
	case Coll, GoSlice, GoMap:
		if a.CK != b.CK {
			return 0, false
		}
		if a.K == GoMap || (a.K == Coll && a.CK == "Map") {
			sa, oka := sortedPairs(a.Pairs)
			sb, okb := sortedPairs(b.Pairs)
			if !oka || !okb {
				return 0, false
			}
			return ordPairs(sa, sb)
		}
		if a.K == Coll && a.CK == "Catalog" {
			return ordPairs(a.Pairs, b.Pairs)
		}
		for i := 0; i < len(a.Items) && i < len(b.Items); i++ {
			c, ok := Ord(a.Items[i], b.Items[i])
			if !ok {
				return 0, false
			}
			if c != 0 {
				return c, true
			}
		}
		return c3(len(a.Items) < len(b.Items), len(a.Items) > len(b.Items)), true
	}
	return 0, false
}

func ordPairs(a, b []Pair) (int, bool) {
	for i := 0; i < len(a) && i < len(b); i++ {
		c, ok := Ord(a[i].Key, b[i].Key)
		if !ok {
			return 0, false
		}
		if c != 0 {
			return c, true
		}
		c, ok = Ord(a[i].Value, b[i].Value)
		if !ok {
			return 0, false
		}
		if c != 0 {
			return c, true
		}
	}
	switch {
	case len(a) < len(b):
		return -1, true
	case len(a) > len(b):
		return 1, true
	}
	return 0, true
}

func sortedPairs(ps []Pair) ([]Pair, bool) {
	out := append([]Pair{}, ps...)
	ok := true
	sort.SliceStable(out, func(i, j int) bool {
		c, def := Ord(out[i].Key, out[j].Key)
		if !def {
			ok = false
		}
		return c < 0
	})
	return out, ok
}
