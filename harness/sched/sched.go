//go:build verif

// Package sched is a cooperative scheduler for the library's hooked
// synchronisation points.  It runs the real queue.go / scanner.go; it only owns
// the order in which goroutines pass their hooks, so that a schedule becomes a
// finite list of integers drawn from a core.Source (random with shrinking,
// exhaustive DFS, or replay).
package sched

import (
	"bytes"
	"fmt"
	"runtime"
	"strconv"
	"strings"
	"sync"
	"time"

	vh "github.com/craterdog/go-collection-framework/v4/verifhook"
	"verifharness/core"
)

func goid() int64 {
	var buf [64]byte
	n := runtime.Stack(buf[:], false)
	b := buf[:n]
	b = b[len("goroutine "):]
	i := bytes.IndexByte(b, ' ')
	id, _ := strconv.ParseInt(string(b[:i]), 10, 64)
	return id
}

type gstate int

const (
	running gstate = iota
	parked
	done
)

// G is one managed goroutine.
type G struct {
	ID          int
	Name        string
	state       gstate
	kind        vh.Kind
	obj         any
	commit      chan bool // channel the goroutine is blocked on (committed), nil if none
	phase       int       // for channel ops: 0 = at the pre-emption point, 1 = committed
	wake        chan struct{}
	kids        int // children announced by Spawn that have not entered yet
	cseq        int // commit sequence number (FIFO order of blocked channel waiters)
	wasBlocked  bool
	EverBlocked bool
	Panic       any
	Ops         int // hooked synchronisation operations performed so far
}

type Sched struct {
	mu        sync.Mutex
	byGoid    map[int64]*G
	gs        []*G
	expected  int
	event     chan struct{}
	held      map[*sync.Mutex]*G
	closed    map[chan bool]bool
	src       core.Source
	split     bool
	cond      *sync.Cond
	adopter   *G
	nhelpers  int
	cseq      int
	Steps     int
	Trace     []string
	KeepTrace bool
	MaxSteps  int
}

// New creates a scheduler that draws its decisions from src.  With split, every
// channel hook is a pre-emption point followed by evaluate-and-commit (needed
// when the channel field can be replaced while a goroutine is about to use it).
func New(src core.Source, split bool) *Sched {
	s := &Sched{byGoid: map[int64]*G{}, event: make(chan struct{}, 1024), held: map[*sync.Mutex]*G{}, closed: map[chan bool]bool{}, src: src, split: split, MaxSteps: 100000}
	s.cond = sync.NewCond(&s.mu)
	return s
}

func (s *Sched) signal() {
	select {
	case s.event <- struct{}{}:
	default:
	}
}

// Go starts a managed goroutine running f.  A panic of f is recorded in G.Panic.
func (s *Sched) Go(name string, f func()) *G {
	s.mu.Lock()
	if parent := s.byGoid[goid()]; parent != nil {
		for parent.kids > 0 {
			s.cond.Wait()
		}
	}
	g := &G{ID: len(s.gs), Name: name, wake: make(chan struct{}), state: running}
	s.gs = append(s.gs, g)
	s.mu.Unlock()
	go func() {
		s.mu.Lock()
		s.byGoid[goid()] = g
		s.mu.Unlock()
		s.handle(vh.Enter, nil)
		defer s.handle(vh.Exit, nil)
		defer func() {
			if e := recover(); e != nil {
				g.Panic = e
			}
		}()
		f()
	}()
	return g
}

// Current returns the managed goroutine that is calling (nil if unmanaged).
func (s *Sched) Current() *G {
	s.mu.Lock()
	defer s.mu.Unlock()
	return s.byGoid[goid()]
}

func (s *Sched) handle(kind vh.Kind, obj any) {
	id := goid()
	s.mu.Lock()
	g := s.byGoid[id]
	if g == nil {
		if kind == vh.Enter && s.adopter != nil {
			s.nhelpers++
			g = &G{ID: len(s.gs), Name: fmt.Sprintf("H%d", s.nhelpers), wake: make(chan struct{})}
			s.gs = append(s.gs, g)
			s.byGoid[id] = g
			s.adopter.kids--
			s.adopter = nil
			s.expected--
			s.cond.Broadcast()
		} else {
			s.mu.Unlock()
			return // unmanaged goroutine: pass through
		}
	}
	// a parent may not pass its next hook before its child has entered
	for g.kids > 0 {
		s.cond.Wait()
	}
	switch kind {
	case vh.Unlock:
		delete(s.held, obj.(*sync.Mutex))
		s.mu.Unlock()
		return
	case vh.Spawn:
		s.expected++
		g.kids++
		s.adopter = g
		s.mu.Unlock()
		return
	case vh.Exit:
		g.state = done
		delete(s.byGoid, id)
		s.mu.Unlock()
		s.signal()
		return
	}
	if kind != vh.Enter {
		g.Ops++
	}
	g.kind, g.obj, g.state, g.phase, g.commit, g.wasBlocked = kind, obj, parked, 0, nil, false
	if (kind == vh.Send || kind == vh.Recv) && !s.split {
		g.phase = 1
		g.commit = *(obj.(*chan bool))
		s.cseq++
		g.cseq = s.cseq
		g.wasBlocked = !s.ready(g)
		if g.wasBlocked {
			g.EverBlocked = true
		}
	}
	s.mu.Unlock()
	s.signal()
	<-g.wake
}

func (s *Sched) ready(g *G) bool {
	switch g.kind {
	case vh.Lock:
		return s.held[g.obj.(*sync.Mutex)] == nil
	case vh.Send:
		if g.phase == 0 {
			return true
		}
		c := g.commit
		return s.closed[c] || len(c) < cap(c)
	case vh.Recv:
		if g.phase == 0 {
			return true
		}
		c := g.commit
		return s.closed[c] || len(c) > 0
	}
	return true
}

// Blocked describes a goroutine that cannot proceed at quiescence.
type Blocked struct {
	Name     string `json:"name"`
	Op       string `json:"op"`
	Orphaned bool   `json:"orphaned,omitempty"` // waits on a channel that is no longer the queue's channel
}

type Result struct {
	Deadlock   bool      `json:"deadlock"`
	Blocked    []Blocked `json:"blocked,omitempty"`
	Steps      int       `json:"steps"`
	Aborted    string    `json:"aborted,omitempty"`
	AnyBlocked bool      `json:"any_blocked"` // some goroutine was blocked (committed) at least once
}

var kindNames = map[vh.Kind]string{vh.Lock: "Lock", vh.Unlock: "Unlock", vh.Send: "Send", vh.Recv: "Recv", vh.Close: "Close", vh.Spawn: "Spawn", vh.Enter: "Enter", vh.Exit: "Exit"}

// Run drives all managed goroutines to completion or deadlock.
func (s *Sched) Run() (res Result) {
	defer func() {
		for _, g := range s.gs {
			if g.EverBlocked {
				res.AnyBlocked = true
			}
		}
	}()
	for {
		// wait for quiescence: every live managed goroutine parked, no adoption pending
		waited := time.Now()
		for {
			s.mu.Lock()
			q := s.expected == 0
			for _, g := range s.gs {
				if g.state == running {
					q = false
				}
			}
			s.mu.Unlock()
			if q {
				break
			}
			select {
			case <-s.event:
			case <-time.After(50 * time.Millisecond):
			}
			if time.Since(waited) > 20*time.Second {
				s.mu.Lock()
				msg := fmt.Sprintf("a goroutine that the schedule had released did not reach its next synchronisation operation within 20 s: it is blocked in something the announced operations do not cover (expected=%d)", s.expected)
				for _, g := range s.gs {
					msg += fmt.Sprintf("\n  %s state=%d kind=%s phase=%d", g.Name, g.state, kindNames[g.kind], g.phase)
				}
				s.mu.Unlock()
				buf := make([]byte, 1<<16)
				n := runtime.Stack(buf, true)
				panic(core.LibraryHang{Msg: msg + "\n" + trimDump(string(buf[:n]))})
			}
		}
		s.mu.Lock()
		var en []*G
		alldone := true
		for _, g := range s.gs {
			if g.state == parked {
				alldone = false
				if s.ready(g) {
					en = append(en, g)
				}
			}
		}
		if alldone {
			s.mu.Unlock()
			res.Steps = s.Steps
			return res
		}
		if len(en) == 0 {
			res.Deadlock = true
			for _, g := range s.gs {
				if g.state == parked {
					b := Blocked{Name: g.Name, Op: kindNames[g.kind]}
					if g.commit != nil && *(g.obj.(*chan bool)) != g.commit {
						b.Orphaned = true
					}
					res.Blocked = append(res.Blocked, b)
				}
			}
			s.mu.Unlock()
			res.Steps = s.Steps
			return res
		}
		if s.Steps >= s.MaxSteps {
			s.mu.Unlock()
			res.Aborted = "step bound reached"
			res.Steps = s.Steps
			return res
		}
		// forced wake: a committed waiter whose channel became ready completes before anybody else moves
		var g *G
		for _, c := range en {
			if (c.kind == vh.Send || c.kind == vh.Recv) && c.phase == 1 && c.wasBlocked {
				if g == nil || c.cseq < g.cseq {
					g = c
				}
			}
		}
		if g == nil {
			k := 0
			if len(en) > 1 {
				s.mu.Unlock()
				k = s.src.Choose(len(en), "sched") // may panic (rapid control flow): no scheduler lock is held
				s.mu.Lock()
			}
			g = en[k]
		}
		s.Steps++
		if s.KeepTrace {
			s.Trace = append(s.Trace, fmt.Sprintf("%s:%s/%d", g.Name, kindNames[g.kind], g.phase))
		}
		if (g.kind == vh.Send || g.kind == vh.Recv) && g.phase == 0 {
			// evaluate the channel expression now and commit to that channel
			c := *(g.obj.(*chan bool))
			g.phase, g.commit = 1, c
			s.cseq++
			g.cseq = s.cseq
			if !s.ready(g) {
				g.wasBlocked = true
				g.EverBlocked = true
				s.mu.Unlock()
				continue // now blocked on c
			}
		}
		if g.kind == vh.Send || g.kind == vh.Recv {
			if *(g.obj.(*chan bool)) != g.commit {
				s.mu.Unlock()
				panic(core.HarnessError{Msg: "a committed channel operation would execute on a replaced channel (forced-wake invariant broken)"})
			}
		}
		switch g.kind {
		case vh.Lock:
			s.held[g.obj.(*sync.Mutex)] = g
		case vh.Close:
			s.closed[*(g.obj.(*chan bool))] = true
		}
		g.state = running
		s.mu.Unlock()
		g.wake <- struct{}{}
	}
}

// Step is the number of scheduling steps taken so far (a logical clock for histories).
func (s *Sched) Step() int {
	s.mu.Lock()
	defer s.mu.Unlock()
	return s.Steps
}

// Goroutines returns the managed goroutines (harness threads and adopted helpers).
func (s *Sched) Goroutines() []*G { return s.gs }

// Finished tells whether the goroutine ran to completion.
func (g *G) Finished() bool { return g.state == done }

var installMu sync.Mutex

// Install routes the library's hooks to this scheduler; the returned function removes it.
func (s *Sched) Install() func() {
	installMu.Lock()
	vh.Install(s.handle)
	var once sync.Once
	return func() {
		once.Do(func() {
			vh.Install(nil)
			installMu.Unlock()
		})
	}
}

// trimDump keeps the goroutines of a stack dump that are inside the library
func trimDump(dump string) string {
	var keep []string
	for _, g := range strings.Split(dump, "\n\n") {
		if strings.Contains(g, "go-collection-framework") {
			if len(g) > 1500 {
				g = g[:1500] + " ..."
			}
			keep = append(keep, g)
		}
	}
	if len(keep) > 4 {
		keep = keep[:4]
	}
	return strings.Join(keep, "\n\n")
}
