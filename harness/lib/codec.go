// Package lib: codecs shared by the checks (see Codec).
package lib

import (
	"strconv"
	"sync"
)

// A Codec runs a check written over small integer codes on collections of another element type.
// The codes 0..5 of the "any" codec are the values that look empty in one way or another
// (nil, "", a nil slice, a nil pointer, false, 0): the places where a library that asks
// "is this value defined?" instead of "is there a value?" goes wrong.
type Codec[E any] struct {
	Name string
	Enc  func(code int) E
	Dec  func(v E) int
}

var (
	cellMu sync.Mutex
	cells  = map[int]*int{}
)

// cell returns the one pointer that stands for the code
func Cell(code int) *int {
	cellMu.Lock()
	defer cellMu.Unlock()
	p, ok := cells[code]
	if !ok {
		v := code
		p = &v
		cells[code] = p
	}
	return p
}

func EncAny(c int) any {
	switch c {
	case 0:
		return nil
	case 1:
		return ""
	case 2:
		return []int(nil)
	case 3:
		return (*int)(nil)
	case 4:
		return false
	case 5:
		return int64(0)
	}
	k := c % 6
	if c < 0 {
		k = 0
	}
	switch k {
	case 0:
		return c
	case 1:
		return strconv.Itoa(c)
	case 2:
		return []int{c}
	case 3:
		return Cell(c)
	case 4:
		return float64(c)
	default:
		return int64(c)
	}
}

func DecAny(v any) int {
	switch x := v.(type) {
	case nil:
		return 0
	case string:
		if x == "" {
			return 1
		}
		n, err := strconv.Atoi(x)
		if err != nil {
			return -999999
		}
		return n
	case []int:
		if len(x) == 0 {
			return 2
		}
		return x[0]
	case *int:
		if x == nil {
			return 3
		}
		return *x
	case bool:
		return 4
	case int64:
		if x == 0 {
			return 5
		}
		return int(x)
	case float64:
		return int(x)
	case int:
		return x
	}
	return -999998
}

var (
	CdInt = Codec[int]{"int", func(c int) int { return c }, func(v int) int { return v }}
	CdAny = Codec[any]{"any", EncAny, DecAny}
	// strings: code 0 is the empty string
	CdString = Codec[string]{"string", func(c int) string {
		if c == 0 {
			return ""
		}
		return strconv.Itoa(c)
	}, func(s string) int {
		if s == "" {
			return 0
		}
		n, err := strconv.Atoi(s)
		if err != nil {
			return -999999
		}
		return n
	}}
	// slices (an uncomparable type): code 0 is the nil slice
	CdSlice = Codec[[]int]{"slice", func(c int) []int {
		if c == 0 {
			return nil
		}
		return []int{c}
	}, func(v []int) int {
		if len(v) == 0 {
			return 0
		}
		return v[0]
	}}
	// pointers: code 0 is the nil pointer
	CdPtr = Codec[*int]{"ptr", func(c int) *int {
		if c == 0 {
			return nil
		}
		return Cell(c)
	}, func(p *int) int {
		if p == nil {
			return 0
		}
		return *p
	}}
)

func EncAll[E any](cd Codec[E], codes []int) []E {
	out := make([]E, len(codes))
	for i, c := range codes {
		out[i] = cd.Enc(c)
	}
	return out
}

func DecAll[E any](cd Codec[E], vals []E) []int {
	out := make([]int, len(vals))
	for i, v := range vals {
		out[i] = cd.Dec(v)
	}
	return out
}

var CodecNames = []string{"int", "int", "any", "string", "slice", "ptr"}
