// Package lib holds small helpers shared by the check packages.
package lib

import (
	"fmt"
	"strings"

	cdc "github.com/craterdog/go-collection-framework/v4/cdcn"
	col "github.com/craterdog/go-collection-framework/v4/collection"
	"verifharness/core"
)

// Notation returns a fresh CDCN notation instance.
func Notation() col.NotationLike { return cdc.Notation().Make() }

// Call runs f and reports whether it panicked.  Panics that belong to the
// driver (rapid's control flow, harness errors) are passed on.
func Call(f func()) (panicked bool, payload any) {
	defer func() {
		if e := recover(); e != nil {
			if strings.HasPrefix(fmt.Sprintf("%T", e), "rapid.") {
				panic(e)
			}
			if _, ok := e.(core.HarnessError); ok {
				panic(e)
			}
			panicked, payload = true, e
		}
	}()
	f()
	return false, nil
}

func EqInts(a, b []int) bool {
	if len(a) != len(b) {
		return false
	}
	for i := range a {
		if a[i] != b[i] {
			return false
		}
	}
	return true
}

// Short renders a panic payload for messages.
func Short(v any) string {
	s := fmt.Sprint(v)
	if len(s) > 160 {
		s = s[:160] + "..."
	}
	return s
}
