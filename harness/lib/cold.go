package lib

import (
	"fmt"
	"os"
	"os/exec"
	"strings"
	"time"
)

// Cold processes.  Some state is set up once per process, by whoever gets there first: tables that are built
// lazily, registries that are filled on first use.  If several goroutines get there at the same time, that first
// use is the only moment at which it can go wrong -- and a test process is cold exactly once.  ColdChildren
// re-executes the running test binary several times with -test.run=<test> and VERIF_COLD_CHILD=<kind>; the child
// test does its concurrent first use and reports through ColdReport.  A child that dies (fatal error, race report,
// non-zero exit) or reports a problem is returned as a failure, with the tail of its output.
func ColdChildren(test, kind string, children int) (failures []string) {
	for i := 0; i < children; i++ {
		cmd := exec.Command(os.Args[0], "-test.run=^"+test+"$", "-test.count=1")
		cmd.Env = append(os.Environ(), "VERIF_COLD_CHILD="+kind, "VERIF_RESULT=", "VERIF_JOURNAL=")
		done := make(chan struct{})
		var out []byte
		var err error
		go func() {
			out, err = cmd.CombinedOutput()
			close(done)
		}()
		select {
		case <-done:
		case <-time.After(120 * time.Second):
			cmd.Process.Kill()
			<-done
			failures = append(failures, fmt.Sprintf("child %d did not finish within 120 s:\n%s", i+1, tail(string(out), 1500)))
			continue
		}
		text := string(out)
		switch {
		case strings.Contains(text, "COLD-FAIL"):
			failures = append(failures, fmt.Sprintf("child %d: %s", i+1, tail(text[strings.Index(text, "COLD-FAIL"):], 1500)))
		case strings.Contains(text, "WARNING: DATA RACE"):
			failures = append(failures, fmt.Sprintf("child %d: the race detector reported:\n%s", i+1, tail(text[strings.Index(text, "WARNING: DATA RACE"):], 1800)))
		case err != nil || !strings.Contains(text, "COLD-OK"):
			failures = append(failures, fmt.Sprintf("child %d died (%v):\n%s", i+1, err, head(text, 1500)))
		}
	}
	return failures
}

// ColdKind tells a child test which scenario to run ("" in an ordinary run: the child test returns at once)
func ColdKind() string { return os.Getenv("VERIF_COLD_CHILD") }

// ColdReport is how a child test reports
func ColdReport(problem string) {
	if problem == "" {
		fmt.Println("COLD-OK")
		return
	}
	fmt.Println("COLD-FAIL " + problem)
}

func tail(s string, n int) string {
	if len(s) > n {
		return s[:n] + " ..."
	}
	return s
}

func head(s string, n int) string {
	if len(s) > n {
		return s[:n] + " ..."
	}
	return s
}
