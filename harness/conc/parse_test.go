//go:build verif

package conc

import (
	"fmt"
	"testing"

	mod "github.com/craterdog/go-collection-framework/v4"
	"verifharness/cdcngen"
	"verifharness/core"
	"verifharness/lib"
	"verifharness/model"
	"verifharness/sched"
)

// ---------------------------------------------------------------- C11: the result does not depend on how scanner and parser are scheduled

type schedDocCase struct {
	Doc       cdcngen.Doc `json:"doc"`
	Schedules int         `json:"schedules"`
}

func genSchedDoc(k int) func(core.Source) schedDocCase {
	return func(s core.Source) schedDocCase {
		o := &cdcngen.Opts{MaxDepth: 2, MaxItems: 22, Classes: model.Classes{}}
		return schedDocCase{Doc: cdcngen.GenDocument(s, o), Schedules: k}
	}
}

// parseControlled parses text as a managed thread; the scanner goroutine is adopted through its hooks.
func parseControlled(text string, src core.Source) (val model.Val, panicked any, r sched.Result) {
	s := sched.New(src, false)
	uninstall := s.Install()
	defer uninstall()
	g := s.Go("parser", func() {
		val = model.Abstract(mod.ParseSource(text))
	})
	r = s.Run()
	return val, g.Panic, r
}

func execSchedDoc(c schedDocCase, src core.Source) (res core.Result) {
	var ref model.Val
	if p, payload := lib.Call(func() { ref = model.Abstract(mod.ParseSource(c.Doc.Text)) }); p {
		res.Violation = core.Violate("C11/sched/rejected", "ParseSource rejected a sentence of the grammar: %s\n%s", lib.Short(payload), c.Doc.Text)
		return
	}
	steps := 0
	for k := 0; k < c.Schedules; k++ {
		var source core.Source = &core.HashSource{Seed: uint64(k)*977 + uint64(len(c.Doc.Text))}
		if k == 0 {
			source = src
		}
		val, panicked, r := parseControlled(c.Doc.Text, source)
		steps += r.Steps
		if r.Deadlock {
			res.Violation = core.Violate("C11/sched/deadlock", "under schedule %d scanner and parser do not finish; blocked: %v\n%s", k, r.Blocked, c.Doc.Text)
			return
		}
		if panicked != nil {
			res.Violation = core.Violate("C11/sched/panicked", "under schedule %d ParseSource panicked although the plain run accepted the text: %s\n%s", k, lib.Short(panicked), c.Doc.Text)
			return
		}
		if !model.Identical(val, ref) {
			res.Violation = core.Violate("C11/sched/result-depends-on-schedule", "under schedule %d the result is %v, the plain run gives %v\n%s", k, val, ref, c.Doc.Text)
			return
		}
		for _, g := range []string{} {
			_ = g
		}
	}
	res.NonTrivial = c.Doc.Tokens >= 6
	res.Counts = map[string]int{"schedules": c.Schedules, "steps": steps}
	switch {
	case c.Doc.Tokens > 16:
		res.Classes = append(res.Classes, "tokens>16")
	default:
		res.Classes = append(res.Classes, "tokens<=16")
	}
	_ = fmt.Sprint
	return
}

func TestC11Sched(t *testing.T) {
	r := core.Begin(t, "C11")
	defer r.End()
	core.Rapid(r, core.Check[schedDocCase]{Name: "schedules", Gen: genSchedDoc(r.N(8, 32)), Exec: execSchedDoc}, r.N(300, 1500))
}

// ---------------------------------------------------------------- C12: after ParseSource ended no scanner goroutine is left (exact, under the scheduler)

type leakCase struct {
	Input string `json:"input"`
}

func genLeak(s core.Source) leakCase {
	o := &cdcngen.Opts{MaxDepth: 2, MaxItems: 24, Classes: model.Classes{}}
	d := cdcngen.GenDocument(s, o)
	runes := []rune(d.Text)
	// damage the document near the front so that many tokens follow the error point
	pos := s.Choose(min(len(runes), 12)+1, "pos")
	bad := core.Pick(s, []string{"]", ")", ",", "#", "\t", ":", "[", "nil nil", "(List)"}, "bad")
	return leakCase{Input: string(runes[:pos]) + bad + string(runes[pos:])}
}

func execLeak(c leakCase, src core.Source) (res core.Result) {
	_, panicked, r := parseControlled(c.Input, src)
	if r.Deadlock {
		res.Violation = core.Violate("C12/sched/scanner-goroutine-left-blocked", "after ParseSource ended (panicked=%v) the run cannot finish; blocked goroutines: %v\ninput: %q", panicked != nil, r.Blocked, c.Input)
		return
	}
	res.NonTrivial = panicked != nil
	res.Counts = map[string]int{"steps": r.Steps}
	return
}

func TestC12Sched(t *testing.T) {
	r := core.Begin(t, "C12")
	defer r.End()
	core.Rapid(r, core.Check[leakCase]{Name: "controlled-leak", Gen: genLeak, Exec: execLeak}, r.N(500, 6000))
}
