//go:build verif

package conc

import (
	"fmt"
	"testing"
	"time"

	col "github.com/craterdog/go-collection-framework/v4/collection"
	"verifharness/core"
	"verifharness/lib"
	"verifharness/sched"
)

// ---------------------------------------------------------------- C06: Fork, Split and Join under controlled schedules

type pipeCase struct {
	Topology  string `json:"topology"` // Fork Split SplitJoin
	Length    int    `json:"length"`
	FanOut    int    `json:"fan_out"`
	Cap       uint   `json:"cap"`
	FeedFirst bool   `json:"feed_first,omitempty"` // the whole stream is added and the input closed before the pipeline is built
	Elem      string `json:"elem,omitempty"`       // element type of the queues (see queueCodec in queue_test.go)
	Observe   bool   `json:"observe,omitempty"`    // the readers look at their output (GetSize, IsEmpty, AsArray) before every RemoveHead
	Past      int    `json:"past,omitempty"`       // the input queue has been used before: this many values were added and discarded with RemoveAll
	InputFrom string `json:"input_from,omitempty"` // the input queue is made from a collection holding the whole stream (Array, List), which the caller then reorders in place
}

// counter is the caller's wait group.  Under the cooperative scheduler one goroutine runs at a time.
type counter struct {
	n       int
	minSeen int
	sched   *sched.Sched
	doneAt  map[*sched.G]int // operations a helper had performed when it called Done
}

func (c *counter) Add(delta int) { c.n += delta }
func (c *counter) Done() {
	c.n--
	if c.n < c.minSeen {
		c.minSeen = c.n
	}
	if c.sched != nil {
		if g := c.sched.Current(); g != nil {
			c.doneAt[g] = g.Ops
		}
	}
}
func (c *counter) Wait() {}

func genPipe(maxLen int) func(core.Source) pipeCase {
	return func(s core.Source) pipeCase {
		c := pipeCase{Topology: core.Pick(s, []string{"Fork", "Split", "SplitJoin"}, "topology"), Length: s.Choose(maxLen+1, "length"),
			FanOut: 2 + s.Choose(2, "fanout"), Cap: uint(1 + s.Choose(2, "cap"))}
		// a short stream fits into the input queue: it may be complete and closed before Fork/Split/Join is called
		c.FeedFirst = uint(c.Length) <= c.Cap && s.Choose(3, "feed-first") == 0
		c.Elem = core.Pick(s, queueElems, "elem")
		c.Observe = s.Choose(3, "observe") == 0
		if s.Choose(3, "past") == 0 {
			c.Past = 1 + s.Choose(int(c.Cap), "past-values")
		}
		if c.Past == 0 && s.Choose(4, "input-from") == 0 {
			c.InputFrom = core.Pick(s, []string{"Array", "List"}, "input-kind")
			c.FeedFirst = true // the stream is in the queue from the start
		}
		return c
	}
}

func execPipe(c pipeCase, src core.Source) (res core.Result) {
	switch c.Elem {
	case "any":
		return execPipeE(c, src, lib.CdAny)
	case "anynil":
		return execPipeE(c, src, shifted(lib.CdAny))
	case "string":
		return execPipeE(c, src, shifted(lib.CdString))
	}
	return execPipeE(c, src, lib.CdInt)
}

func execPipeE[E any](c pipeCase, src core.Source, cd lib.Codec[E]) (res core.Result) {
	n := lib.Notation()
	Q := col.Queue[E](n)
	input := Q.MakeWithCapacity(c.Cap)
	values := make([]int, c.Length)
	for i := range values {
		values[i] = i + 1
	}
	if c.InputFrom != "" {
		// the stream comes from a collection of another kind, which stays the caller's: it is reordered and
		// overwritten in place as soon as the queue has been made from it
		var src interface {
			col.Sequential[E]
			col.Sortable[E]
			col.Updatable[E]
		}
		if c.InputFrom == "Array" {
			src = col.Array[E](n).MakeFromArray(lib.EncAll(cd, values))
		} else {
			src = col.List[E](n).MakeFromArray(lib.EncAll(cd, values))
		}
		input = Q.MakeFromSequence(src)
		src.ReverseValues()
		if src.GetSize() > 0 {
			src.SetValue(1, cd.Enc(99))
		}
	}
	for k := 0; k < c.Past && k < int(c.Cap); k++ {
		input.AddValue(cd.Enc(90 + k)) // values of an earlier use of the queue, discarded before the pipeline is built
	}
	if c.Past > 0 {
		input.RemoveAll()
	}
	group := &counter{}
	var outputs []col.QueueLike[E]
	received := map[int][]int{}
	afterClose := map[int]string{}
	observed := map[int]string{}
	wantFor := func(i int) []int {
		if c.Topology == "Split" {
			var want []int
			for k := i; k < len(values); k += c.FanOut {
				want = append(want, values[k])
			}
			return want
		}
		return values
	}
	s := sched.New(src, false)
	group.sched, group.doneAt = s, map[*sched.G]int{}
	uninstall := s.Install()
	defer uninstall()
	registered := -1
	s.Go("main", func() {
		if c.FeedFirst && c.InputFrom == "" {
			for _, v := range values {
				input.AddValue(cd.Enc(v))
			}
			input.CloseQueue()
		}
		if c.InputFrom != "" {
			input.CloseQueue() // (under the scheduler, which has to see the close)
		}
		switch c.Topology {
		case "Fork":
			outputs = Q.Fork(group, input, uint(c.FanOut)).AsArray()
		case "Split":
			outputs = Q.Split(group, input, uint(c.FanOut)).AsArray()
		default:
			mid := Q.Split(group, input, uint(c.FanOut))
			// the list of inputs handed to Join is the caller's: it is emptied (a scratch list reused) as soon
			// as Join has returned, possibly before the helper goroutine has run at all
			inputs := col.List[col.QueueLike[E]](n).MakeFromSequence(mid)
			outputs = []col.QueueLike[E]{Q.Join(group, inputs)}
			inputs.RemoveAll()
		}
		// the helpers must be registered with the caller's wait group before the function returns:
		// otherwise a Wait() right after the call can return before a helper has even started
		registered = group.n
		if !c.FeedFirst {
			s.Go("feeder", func() {
				for _, v := range values {
					input.AddValue(cd.Enc(v))
				}
				input.CloseQueue()
			})
		}
		for i, out := range outputs {
			i, out := i, out
			s.Go(fmt.Sprintf("reader%d", i), func() {
				for {
					if c.Observe && observed[i] == "" {
						// this reader is the only one that removes from its output: what it sees there is a run of
						// the values it still expects, in order, within the capacity
						size, empty, arr := out.GetSize(), out.IsEmpty(), lib.DecAll(cd, out.AsArray())
						rest := wantFor(i)[min(len(received[i]), len(wantFor(i))):]
						switch {
						case size < 0 || uint(size) > out.GetCapacity():
							observed[i] = fmt.Sprintf("GetSize() = %d with capacity %d", size, out.GetCapacity())
						case len(arr) > len(rest) || !lib.EqInts(arr, append([]int{}, rest[:len(arr)]...)) && len(arr) > 0:
							observed[i] = fmt.Sprintf("AsArray() = %v while the values still to come are %v", arr, rest)
						case empty && size > 0:
							_ = empty // the two calls are not atomic: no relation is required between them
						}
					}
					v, ok := out.RemoveHead()
					if !ok {
						break
					}
					received[i] = append(received[i], cd.Dec(v))
					if len(received[i]) > c.Length+2 {
						break // something is duplicating values; stop reading
					}
				}
				// nothing is delivered after closure
				if v, ok := out.RemoveHead(); ok {
					afterClose[i] = fmt.Sprintf("RemoveHead returned (%v, true) after it had reported the queue closed", v)
				}
			})
		}
	})
	r := s.Run()
	desc := fmt.Sprintf("%s(fan-out %d, capacity %d) over the stream %v", c.Topology, c.FanOut, c.Cap, values)
	if r.Aborted != "" {
		panic(core.HarnessError{Msg: "scheduler aborted: " + r.Aborted})
	}
	for _, g := range s.Goroutines() {
		if g.Panic != nil {
			res.Violation = core.Violate("C06/panicked", "%s: goroutine %s panicked: %s", desc, g.Name, lib.Short(g.Panic))
			return
		}
	}
	helpers := 1
	if c.Topology == "SplitJoin" {
		helpers = 2
	}
	if registered != helpers {
		res.Violation = core.Violate("C06/wait-group-not-registered", "%s: when the function returned the caller's wait group counted %d helper goroutine(s), expected %d (a Wait() now could return before the helpers have run)", desc, registered, helpers)
		return
	}
	if r.Deadlock {
		res.Violation = core.Violate("C06/deadlock/"+c.Topology, "%s does not terminate; blocked: %v; received so far %v", desc, r.Blocked, received)
		return
	}
	for _, g := range s.Goroutines() {
		if !g.Finished() {
			res.Violation = core.Violate("C06/goroutine-not-finished", "%s: goroutine %s did not finish", desc, g.Name)
			return
		}
	}
	for g, ops := range group.doneAt {
		if g.Ops > ops {
			res.Violation = core.Violate("C06/helper-works-after-done", "%s: helper goroutine %s told the caller's wait group it was done and then performed %d more queue operations (a Wait() could return while values are still being delivered)", desc, g.Name, g.Ops-ops)
			return
		}
	}
	if group.n != 0 || group.minSeen < 0 {
		res.Violation = core.Violate("C06/wait-group", "%s: the caller's wait group ended at %d (minimum %d), expected 0", desc, group.n, group.minSeen)
		return
	}
	for i := range outputs {
		var want []int
		switch c.Topology {
		case "Fork", "SplitJoin":
			want = values
		default:
			for k := i; k < len(values); k += c.FanOut {
				want = append(want, values[k])
			}
		}
		if !lib.EqInts(received[i], append([]int{}, want...)) && !(len(want) == 0 && len(received[i]) == 0) {
			res.Violation = core.Violate("C06/wrong-stream/"+c.Topology, "%s: output %d delivered %v, expected %v", desc, i, received[i], want)
			return
		}
		if msg := observed[i]; msg != "" {
			res.Violation = core.Violate("C06/output-view-wrong", "%s: output %d: %s", desc, i, msg)
			return
		}
		if msg, bad := afterClose[i]; bad {
			res.Violation = core.Violate("C06/delivered-after-closure", "%s: output %d: %s", desc, i, msg)
			return
		}
	}
	res.NonTrivial = true
	res.Counts = map[string]int{"steps": r.Steps, "schedules": 1}
	res.Classes = append(res.Classes, "topology-"+c.Topology, fmt.Sprintf("length-%d", c.Length))
	if c.FeedFirst {
		res.Classes = append(res.Classes, "input-closed-before-the-pipeline-is-built")
	}
	if c.Elem != "" {
		res.Classes = append(res.Classes, "elem-"+c.Elem)
	}
	if c.Observe {
		res.Classes = append(res.Classes, "readers-look-at-their-output")
	}
	if c.Past > 0 {
		res.Classes = append(res.Classes, "input-used-before")
	}
	if c.InputFrom != "" {
		res.Classes = append(res.Classes, "input-made-from-"+c.InputFrom)
	}
	if r.AnyBlocked {
		res.Classes = append(res.Classes, "some-call-blocked")
	}
	return
}

// ---------------------------------------------------------------- C06: fan-out sizes and input lists the pipeline functions refuse

// Fork and Split refuse a fan-out below two, Join refuses an empty list of inputs.  A refusal must leave the
// input stream and the caller's wait group alone; a call that is accepted instead must obey the stream law --
// and with no output to deliver to, every value of the input would be lost.
type refusedCase struct {
	Fn     string `json:"fn"` // Fork Split Join
	Size   uint   `json:"size"`
	Values int    `json:"values"`
}

func execRefused(c refusedCase, _ core.Source) (res core.Result) {
	n := lib.Notation()
	Q := col.Queue[int](n)
	input := Q.MakeWithCapacity(4)
	for i := 0; i < c.Values; i++ {
		input.AddValue(i + 1)
	}
	input.CloseQueue()
	group := &counter{doneAt: map[*sched.G]int{}}
	var outputs []col.QueueLike[int]
	panicked, payload := lib.Call(func() {
		switch c.Fn {
		case "Fork":
			outputs = Q.Fork(group, input, c.Size).AsArray()
		case "Split":
			outputs = Q.Split(group, input, c.Size).AsArray()
		default:
			outputs = []col.QueueLike[int]{Q.Join(group, col.List[col.QueueLike[int]](n).Make())}
		}
	})
	desc := fmt.Sprintf("%s with fan-out %d on a closed input holding %d values", c.Fn, c.Size, c.Values)
	if c.Fn == "Join" {
		desc = "Join of an empty list of inputs"
	}
	if panicked {
		if group.n != 0 {
			res.Violation = core.Violate("C06/refused-call-touched-the-wait-group", "%s was refused (%s) but left the caller's wait group at %d", desc, lib.Short(payload), group.n)
			return
		}
		if input.GetSize() != c.Values {
			res.Violation = core.Violate("C06/refused-call-consumed-input", "%s was refused (%s) but the input now holds %d of its %d values", desc, lib.Short(payload), input.GetSize(), c.Values)
			return
		}
		res.NonTrivial = true
		res.Classes = append(res.Classes, "refused")
		return
	}
	// accepted: wait until the helper has signed off, then every value must have gone to an output
	deadline := time.Now().Add(5 * time.Second)
	for group.n != 0 && time.Now().Before(deadline) {
		time.Sleep(time.Millisecond)
	}
	delivered := 0
	for _, out := range outputs {
		if out != nil {
			delivered += out.GetSize()
		}
	}
	if c.Fn != "Join" && (uint(len(outputs)) != c.Size || delivered == 0 && c.Values > 0) {
		res.Violation = core.Violate("C06/accepted-without-outputs", "%s was accepted with %d outputs: %d of the %d input values are left in the input, %d reached an output -- the rest is lost", desc, len(outputs), input.GetSize(), c.Values, delivered)
		return
	}
	res.Classes = append(res.Classes, "accepted")
	return
}

func TestC06(t *testing.T) {
	r := core.Begin(t, "C06")
	defer r.End()
	// every schedule of the smallest pipelines, one bounded enumeration per configuration (the schedule
	// space explodes quickly: the bound keeps the tier's budget, exhaustive=false is reported when it is hit)
	for _, cfg := range []pipeCase{{"Fork", 0, 2, 1, false, "", false, 0, ""}, {"Split", 0, 2, 1, false, "", false, 0, ""}, {"Split", 1, 2, 1, false, "", false, 0, ""}, {"Fork", 1, 2, 1, false, "", false, 0, ""}, {"Split", 1, 3, 1, false, "", false, 0, ""}, {"SplitJoin", 0, 2, 1, false, "", false, 0, ""}, {"SplitJoin", 1, 2, 1, false, "", false, 0, ""},
		{"Fork", 1, 2, 1, false, "anynil", false, 0, ""}, {"Split", 1, 2, 1, false, "anynil", false, 0, ""}, {"SplitJoin", 1, 2, 1, false, "anynil", false, 0, ""},
		{"Fork", 2, 2, 1, false, "", true, 0, ""}, {"Split", 2, 2, 1, false, "", true, 0, ""}} {
		cfg := cfg
		name := fmt.Sprintf("all-schedules-%s-len%d-fan%d", cfg.Topology, cfg.Length, cfg.FanOut)
		if cfg.Elem != "" {
			name += "-" + cfg.Elem
		}
		if cfg.Observe {
			name += "-observing"
		}
		core.DFS(r, core.Check[pipeCase]{Name: name, Bounded: true, Gen: func(core.Source) pipeCase { return cfg }, Exec: execPipe}, r.N(2500, 100000))
	}
	core.Rapid(r, core.Check[pipeCase]{Name: "sampled-schedules", Gen: genPipe(r.N(4, 6)), Exec: execPipe}, r.N(2500, 40000))
	core.DFS(r, core.Check[refusedCase]{Name: "refused-arguments", Gen: func(s core.Source) refusedCase {
		return refusedCase{Fn: core.Pick(s, []string{"Fork", "Split", "Join"}, "fn"), Size: uint(s.Choose(2, "size")), Values: s.Choose(4, "values")}
	}, Exec: execRefused}, 0)
}
