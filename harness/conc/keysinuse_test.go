//go:build verif

package conc

import (
	"fmt"
	"testing"

	col "github.com/craterdog/go-collection-framework/v4/collection"
	"verifharness/core"
	"verifharness/lib"
	"verifharness/sched"
)

// ---------------------------------------------------------------- a key sequence that is in use, every schedule

// The keys handed to RemoveValues, GetValues or Extract come as a queue that a second goroutine takes heads from.
// The scheduler decides at every lock of the queue who goes on: also between two reads of the key sequence by the
// callee.  Whichever keys the call still sees, it acts on those keys only: the associations nobody asked for stay
// (in particular the one under the zero key), the result has values of requested keys only.
type keysSchedCase struct {
	Fn    string `json:"fn"`
	Keys  int    `json:"keys"`  // number of keys in the queue
	Heads int    `json:"heads"` // heads the second goroutine takes
}

func execKeysSched(prop string) func(keysSchedCase, core.Source) core.Result {
	return func(c keysSchedCase, src core.Source) (res core.Result) {
		n := lib.Notation()
		cat := col.Catalog[int, int](n).Make()
		m := col.Map[int, int](n).Make()
		for k := 0; k < c.Keys+2; k++ {
			cat.SetValue(k, 100+k)
			m.SetValue(k, 100+k)
		}
		queue := col.Queue[int](n).MakeWithCapacity(uint(c.Keys + 1))
		for k := 2; k < c.Keys+2; k++ {
			queue.AddValue(k)
		}
		var got []int
		var extracted col.CatalogLike[int, int]
		s := sched.New(src, false)
		uninstall := s.Install()
		defer uninstall()
		caller := s.Go("caller", func() {
			switch c.Fn {
			case "Catalog.RemoveValues":
				got = cat.RemoveValues(queue).AsArray()
			case "Catalog.GetValues":
				got = cat.GetValues(queue).AsArray()
			case "Map.RemoveValues":
				got = m.RemoveValues(queue).AsArray()
			case "Map.GetValues":
				got = m.GetValues(queue).AsArray()
			default:
				extracted = col.Catalog[int, int](n).Extract(cat, queue)
			}
		})
		s.Go("consumer", func() {
			for i := 0; i < c.Heads; i++ {
				queue.RemoveHead()
			}
		})
		r := s.Run()
		desc := fmt.Sprintf("%s with the keys 2..%d in a queue that a second goroutine takes %d head(s) from", c.Fn, c.Keys+1, c.Heads)
		switch {
		case caller.Panic != nil:
			res.Violation = core.Violate(prop+"/keys-in-use/panicked", "%s: %s", desc, lib.Short(caller.Panic))
		case r.Deadlock:
			res.Violation = core.Violate(prop+"/keys-in-use/deadlock", "%s: blocked: %v", desc, r.Blocked)
		case cat.GetValue(0) != 100 || cat.GetValue(1) != 101 || m.GetValue(0) != 100 || m.GetValue(1) != 101:
			res.Violation = core.Violate(prop+"/keys-in-use/touched-another-key", "%s: the associations under the keys 0 and 1, which nobody asked for, now read %d and %d (Catalog), %d and %d (Map)", desc, cat.GetValue(0), cat.GetValue(1), m.GetValue(0), m.GetValue(1))
		}
		if res.Violation == nil {
			for _, v := range got {
				if v < 102 || v > 101+c.Keys {
					res.Violation = core.Violate(prop+"/keys-in-use/foreign-value", "%s: the result lists %v; only values under the requested keys can be in it", desc, got)
					break
				}
			}
		}
		if res.Violation == nil && extracted != nil {
			for _, k := range extracted.GetKeys().AsArray() {
				if k < 2 || k > c.Keys+1 || extracted.GetValue(k) != 100+k {
					res.Violation = core.Violate(prop+"/keys-in-use/foreign-association", "%s: the result holds %d: %d", desc, k, extracted.GetValue(k))
					break
				}
			}
		}
		res.NonTrivial = true
		res.Classes = append(res.Classes, "fn-"+c.Fn)
		return
	}
}

func keysSched(t *testing.T, prop string, fns []string) {
	r := core.Begin(t, prop)
	defer r.End()
	core.DFS(r, core.Check[keysSchedCase]{Name: "key-sequence-in-use-schedules", Gen: func(s core.Source) keysSchedCase {
		return keysSchedCase{Fn: core.Pick(s, fns, "fn"), Keys: 1 + s.Choose(3, "keys"), Heads: 1}
	}, Exec: execKeysSched(prop), Bounded: true}, r.N(6000, 200000))
}

func TestC03Sched(t *testing.T) { keysSched(t, "C03", []string{"Catalog.RemoveValues", "Catalog.GetValues"}) }
func TestC14Sched(t *testing.T) { keysSched(t, "C14", []string{"Map.RemoveValues", "Map.GetValues"}) }
func TestC16Sched(t *testing.T) { keysSched(t, "C16", []string{"Catalog.Extract"}) }
