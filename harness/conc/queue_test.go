//go:build verif

package conc

import (
	"fmt"
	"reflect"
	"sort"
	"strings"
	"testing"
	"time"

	col "github.com/craterdog/go-collection-framework/v4/collection"
	"verifharness/core"
	"verifharness/lib"
	"verifharness/sched"
)

// ---------------------------------------------------------------- C04 / C05: small client programs on one Queue under controlled schedules

type qprog struct {
	Name       string  `json:"name,omitempty"`
	Cap        uint    `json:"cap"`
	Producers  [][]int `json:"producers"`              // values added by each producer (all distinct)
	Consumers  []int   `json:"consumers"`              // RemoveHead calls per consumer; -1 = until ok=false
	Closer     bool    `json:"closer,omitempty"`       // the producer that finishes last closes the queue
	Observer   int     `json:"observer,omitempty"`     // number of observer calls (GetSize, IsEmpty, AsArray, GetIterator in turn)
	RemoveAll  int     `json:"remove_all,omitempty"`   // number of RemoveAll calls by an extra thread
	RemoveAll2 int     `json:"remove_all_2,omitempty"` // number of RemoveAll calls by a second extra thread
	Elem       string  `json:"elem,omitempty"`         // element type of the queue: int (default), any, anynil, string -- see queueCodec
	Iterate    bool    `json:"iterate,omitempty"`      // every observer call obtains an iterator and walks it
}

// The programs are written over the values 1, 2, 3, ...; a codec turns them into the queue's elements.
// "any" maps 1, 2, 3 to "", a nil slice and a nil pointer inside an interface, "anynil" maps 1 to nil
// itself, "string" maps 1 to "": values a queue must carry like any other.
func shifted[E any](cd lib.Codec[E]) lib.Codec[E] {
	return lib.Codec[E]{Name: cd.Name, Enc: func(c int) E { return cd.Enc(c - 1) }, Dec: func(v E) int { return cd.Dec(v) + 1 }}
}

func runProgram(p qprog, src core.Source) *qrun {
	switch p.Elem {
	case "any":
		return runProgramE(p, src, lib.CdAny)
	case "anynil":
		return runProgramE(p, src, shifted(lib.CdAny))
	case "string":
		return runProgramE(p, src, shifted(lib.CdString))
	}
	return runProgramE(p, src, lib.CdInt)
}

var queueElems = []string{"", "", "any", "anynil", "string"}

func (p qprog) wellFormed() bool {
	if !p.Closer || len(p.Producers) == 0 || len(p.Consumers) == 0 {
		return false
	}
	for _, c := range p.Consumers {
		if c != -1 {
			return false
		}
	}
	return true
}

type qevent struct {
	Thread string `json:"t"`
	Op     string `json:"op"`
	Arg    int    `json:"arg,omitempty"`
	Inv    int    `json:"inv"`
	Ret    int    `json:"ret"` // 0 = pending
	Val    int    `json:"val,omitempty"`
	OK     bool   `json:"ok,omitempty"`
	Arr    []int  `json:"arr,omitempty"`
	Panic  string `json:"panic,omitempty"`
}

type qrun struct {
	prog   qprog
	events []*qevent
	seq    int
	res    sched.Result
	steps  int
	after  string // what went wrong when the queue was used once more after the program had ended
}

// call logs invocation and response around f; one goroutine runs at a time, so the shared log needs no lock.
func (r *qrun) call(thread, op string, arg int, f func(e *qevent)) (panicked bool) {
	r.seq++
	e := &qevent{Thread: thread, Op: op, Arg: arg, Inv: r.seq}
	r.events = append(r.events, e)
	defer func() {
		if x := recover(); x != nil {
			if _, ok := x.(core.HarnessError); ok {
				panic(x)
			}
			r.seq++
			e.Ret = r.seq
			e.Panic = lib.Short(x)
			panicked = true
		}
	}()
	f(e)
	r.seq++
	e.Ret = r.seq
	return false
}

// runProgram executes the program under a scheduler that takes its decisions from src.
func runProgramE[E any](p qprog, src core.Source, cd lib.Codec[E]) *qrun {
	r := &qrun{prog: p}
	q := col.Queue[E](lib.Notation()).MakeWithCapacity(p.Cap)
	s := sched.New(src, p.RemoveAll > 0)
	uninstall := s.Install()
	defer uninstall()
	prodDone := 0
	for i, vals := range p.Producers {
		name, vals := fmt.Sprintf("P%d", i), vals
		s.Go(name, func() {
			for _, v := range vals {
				if r.call(name, "Add", v, func(e *qevent) { q.AddValue(cd.Enc(v)) }) {
					return
				}
			}
			prodDone++
			if p.Closer && prodDone == len(p.Producers) {
				r.call(name, "Close", 0, func(e *qevent) { q.CloseQueue() })
			}
		})
	}
	for i, n := range p.Consumers {
		name, n := fmt.Sprintf("C%d", i), n
		s.Go(name, func() {
			for k := 0; n < 0 || k < n; k++ {
				ok := false
				if r.call(name, "Remove", 0, func(e *qevent) {
					var head E
					head, e.OK = q.RemoveHead()
					ok = e.OK
					if ok {
						e.Val = cd.Dec(head)
					}
				}) {
					return
				}
				if !ok {
					return
				}
			}
		})
	}
	if p.Observer > 0 {
		s.Go("O", func() {
			for k := 0; k < p.Observer; k++ {
				switch {
				case p.Iterate:
					r.call("O", "Iterate", 0, func(e *qevent) {
						it := q.GetIterator()
						e.Arr = []int{}
						for it.HasNext() {
							e.Arr = append(e.Arr, cd.Dec(it.GetNext()))
						}
						// walking back yields the same values: the iterator is a cursor over one snapshot
						for i := len(e.Arr) - 1; i >= 0 && it.HasPrevious(); i-- {
							if v := cd.Dec(it.GetPrevious()); v != e.Arr[i] {
								e.Arr = append(e.Arr, -1000-v) // shows as an invented value
								break
							}
						}
					})
				case k%2 == 0:
					r.call("O", "AsArray", 0, func(e *qevent) { e.Arr = append([]int{}, lib.DecAll(cd, q.AsArray())...) })
				case k%6 == 1:
					r.call("O", "GetSize", 0, func(e *qevent) { e.Val = q.GetSize() })
				case k%6 == 3:
					r.call("O", "IsEmpty", 0, func(e *qevent) { e.OK = q.IsEmpty() })
				default:
					r.call("O", "Iterate", 0, func(e *qevent) {
						it := q.GetIterator()
						e.Arr = []int{}
						for it.HasNext() {
							e.Arr = append(e.Arr, cd.Dec(it.GetNext()))
						}
					})
				}
			}
		})
	}
	if p.RemoveAll > 0 {
		s.Go("R", func() {
			for k := 0; k < p.RemoveAll; k++ {
				r.call("R", "RemoveAll", 0, func(e *qevent) { q.RemoveAll() })
			}
		})
	}
	if p.RemoveAll2 > 0 {
		s.Go("S", func() {
			for k := 0; k < p.RemoveAll2; k++ {
				r.call("S", "RemoveAll", 0, func(e *qevent) { q.RemoveAll() })
			}
		})
	}
	r.res = s.Run()
	r.steps = r.res.Steps
	if !r.res.Deadlock && r.res.Aborted == "" {
		// The program is over and every goroutine has finished: the queue must still answer (a lock left
		// behind by a rare exit path shows here).  Plain goroutines, the scheduler is done.
		uninstall()
		done := make(chan string, 1)
		go func() {
			defer func() {
				if x := recover(); x != nil {
					done <- "panicked: " + lib.Short(x)
				}
			}()
			bystander()
			size, arr := q.GetSize(), q.AsArray()
			_ = q.IsEmpty()
			q.RemoveAll()
			if size != len(arr) && p.RemoveAll == 0 {
				done <- fmt.Sprintf("GetSize() = %d but AsArray() lists %d values", size, len(arr))
				return
			}
			done <- ""
		}()
		select {
		case r.after = <-done:
		case <-time.After(3 * time.Second):
			r.after = "GetSize/AsArray/IsEmpty/RemoveAll did not return within 3 s"
		}
	}
	return r
}

// bystander is work on other collections that has nothing to do with the queue under test: views of a Map
// and a Catalog whose key type nobody else in this process uses are asked for their classes (views are made
// without going through a class), a sibling list is made from a class obtained that way.  Whether a queue call
// can proceed must not depend on what happens to unrelated collections (the class registries are process-wide).
type bystanderKey struct{ X int }

func bystander() {
	n := lib.Notation()
	m := col.Map[bystanderKey, int](n).Make()
	m.SetValue(bystanderKey{1}, 1)
	keys := m.GetKeys()
	for _, view := range []any{keys, m.GetValues(keys), m.RemoveValues(keys), m} {
		if c := reflect.ValueOf(view).MethodByName("GetClass"); c.IsValid() {
			c.Call(nil)
		}
	}
	c := col.Catalog[bystanderKey, int](n).Make()
	c.SetValue(bystanderKey{2}, 2)
	if k, ok := c.GetKeys().(col.ListLike[bystanderKey]); ok {
		k.GetClass().Make().AppendValue(bystanderKey{3})
	}
	l := col.List[bystanderKey](n).MakeFromArray([]bystanderKey{{4}, {5}})
	if part, ok := l.GetValues(1, 1).(col.ListLike[bystanderKey]); ok {
		part.GetClass().Make().AppendValue(bystanderKey{6})
	}
}

// ---------------------------------------------------------------- oracle 1: linearizability (Wing-Gong search)

type linOp struct {
	e    *qevent
	done bool
}

// linearizable searches for an order of the calls, consistent with real time, that a FIFO queue with
// close explains.  Pending calls may or may not have taken effect.  A RemoveAll discards a prefix of
// the queue that is at least as long as the number of completed-before additions still present.
func linearizable(events []*qevent) (bool, string) {
	var ops []*qevent
	for _, e := range events {
		switch e.Op {
		case "Add", "Remove", "Close", "RemoveAll":
			if e.Panic == "" {
				ops = append(ops, e)
			}
		}
	}
	n := len(ops)
	if n > 20 {
		return true, "" // too long for the exhaustive search; generated programs stay below
	}
	retOf := func(e *qevent) int {
		if e.Ret == 0 {
			return 1 << 30
		}
		return e.Ret
	}
	type state struct {
		queue   []int
		closed  bool
		removed int
	}
	memo := map[string]bool{}
	var search func(doneMask uint32, st state) bool
	key := func(mask uint32, st state) string { return fmt.Sprint(mask, st.queue, st.closed, st.removed) }
	search = func(mask uint32, st state) bool {
		// finished when every completed call is linearized (pending ones may be dropped)
		all := true
		for i, e := range ops {
			if mask&(1<<i) == 0 && e.Ret != 0 {
				all = false
			}
		}
		if all {
			return true
		}
		k := key(mask, st)
		if v, ok := memo[k]; ok {
			return v
		}
		// minimal response time among unlinearized completed calls: a call may be placed next only if it was invoked before that
		minRet := 1 << 30
		for i, e := range ops {
			if mask&(1<<i) == 0 && retOf(e) < minRet {
				minRet = retOf(e)
			}
		}
		for i, e := range ops {
			if mask&(1<<i) != 0 || e.Inv > minRet {
				continue
			}
			nm := mask | 1<<i
			switch e.Op {
			case "Add":
				ns := state{append(append([]int{}, st.queue...), e.Arg), st.closed, st.removed}
				if search(nm, ns) {
					memo[k] = true
					return true
				}
			case "Close":
				if search(nm, state{st.queue, true, st.removed}) {
					memo[k] = true
					return true
				}
			case "Remove":
				if e.Ret == 0 {
					// pending: may have taken a value (unknown which: the head)
					if len(st.queue) > 0 && search(nm, state{st.queue[1:], st.closed, st.removed + 1}) {
						memo[k] = true
						return true
					}
					continue
				}
				if e.OK {
					if len(st.queue) > 0 && st.queue[0] == e.Val && search(nm, state{st.queue[1:], st.closed, st.removed + 1}) {
						memo[k] = true
						return true
					}
				} else if st.closed && len(st.queue) == 0 && search(nm, st) {
					memo[k] = true
					return true
				}
			case "RemoveAll":
				// RemoveAll discards a prefix of the queue.  Lower bound on its length: the values present
				// whose AddValue had returned before RemoveAll was invoked, minus the values that calls to
				// RemoveHead in flight during the RemoveAll may already have claimed.
				present := 0
				for _, v := range st.queue {
					for _, a := range ops {
						if a.Op == "Add" && a.Arg == v && a.Ret != 0 && a.Ret < e.Inv {
							present++
						}
					}
				}
				// in-flight calls that shift the balance between values and availability tokens: a RemoveHead
				// that may already hold a token, and an AddValue that has not sent its token yet (its value may
				// have been delivered on somebody else's token, so one more value stays behind)
				claims := 0
				for j, o := range ops {
					if o.Op == "Remove" && mask&(1<<j) == 0 && (e.Ret == 0 || o.Inv < e.Ret) {
						claims++
					}
					if o.Op == "Add" && (e.Ret == 0 || o.Inv < e.Ret) && (o.Ret == 0 || o.Ret > e.Inv) {
						claims++
					}
				}
				lower := present - claims
				if lower < 0 {
					lower = 0
				}
				for cut := len(st.queue); cut >= lower; cut-- {
					if search(nm, state{append([]int{}, st.queue[cut:]...), st.closed, st.removed + cut}) {
						memo[k] = true
						return true
					}
				}
			}
		}
		memo[k] = false
		return false
	}
	if search(0, state{}) {
		return true, ""
	}
	return false, "no order of the calls that respects real time is explained by a FIFO queue"
}

// ---------------------------------------------------------------- oracle 2: direct clauses of the statement

func checkClauses(r *qrun) *core.Violation {
	p := r.prog
	if r.after != "" {
		return core.Violate("C04/queue-unusable-after-the-program", "after every goroutine of the program had finished, the queue was used once more: %s\nhistory: %s", r.after, historyString(r.events))
	}
	added := map[int]*qevent{}
	for _, e := range r.events {
		if e.Op == "Add" {
			added[e.Arg] = e
		}
	}
	delivered := map[int]*qevent{}
	var closeEv *qevent
	hasRemoveAll := false
	for _, e := range r.events {
		if e.Op == "Close" {
			closeEv = e
		}
	}
	for _, e := range r.events {
		if e.Panic != "" {
			return core.Violate("C04/valid-call-panicked/"+e.Op, "%s.%s, valid on its own, panicked: %s\nhistory: %s", e.Thread, e.Op, e.Panic, historyString(r.events))
		}
		switch e.Op {
		case "Close":
			closeEv = e
		case "RemoveAll":
			hasRemoveAll = true
		case "Remove":
			if e.Ret == 0 {
				continue
			}
			if e.OK {
				a := added[e.Val]
				if a == nil || a.Inv > e.Ret {
					return core.Violate("C04/invented-value", "%s.RemoveHead returned %d, which was never added (before)\nhistory: %s", e.Thread, e.Val, historyString(r.events))
				}
				if d := delivered[e.Val]; d != nil {
					return core.Violate("C04/delivered-twice", "value %d was delivered twice (to %s and %s)\nhistory: %s", e.Val, d.Thread, e.Thread, historyString(r.events))
				}
				delivered[e.Val] = e
			} else {
				if closeEv == nil || closeEv.Inv > e.Ret {
					return core.Violate("C04/not-ok-before-close", "%s.RemoveHead reported ok=false although the queue had not been closed\nhistory: %s", e.Thread, historyString(r.events))
				}
			}
		}
	}
	// call order of non-overlapping additions
	for va, a := range added {
		for vb, b := range added {
			da, db := delivered[va], delivered[vb]
			if a.Ret != 0 && a.Ret < b.Inv && da != nil && db != nil && db.Ret < da.Inv {
				return core.Violate("C04/fifo-order", "Add(%d) returned before Add(%d) was called, but %d was delivered strictly before %d\nhistory: %s", va, vb, vb, va, historyString(r.events))
			}
		}
	}
	// back-pressure: an Add may not return while `capacity` earlier-completed additions are unclaimed
	for _, a := range r.events {
		if a.Op != "Add" || a.Ret == 0 {
			continue
		}
		earlier, claims := 0, 0
		for _, e := range r.events {
			switch {
			case e.Op == "Add" && e != a && e.Ret != 0 && e.Ret < a.Ret:
				earlier++
			case e.Op == "Remove" && e.Inv < a.Ret && (e.Ret == 0 || e.OK):
				claims++
			case e.Op == "RemoveAll" && e.Inv < a.Ret:
				claims += len(added)
			}
		}
		if earlier-claims >= int(p.Cap) {
			return core.Violate("C04/no-back-pressure", "%s.Add(%d) returned while %d earlier-completed additions were unclaimed (capacity %d)\nhistory: %s", a.Thread, a.Arg, earlier-claims, p.Cap, historyString(r.events))
		}
	}
	// observers: only values added and not yet removed, in FIFO order; size within the capacity
	for _, o := range r.events {
		if o.Thread != "O" || o.Ret == 0 {
			continue
		}
		switch o.Op {
		case "GetSize":
			if o.Val < 0 || o.Val > int(p.Cap) {
				return core.Violate("C04/size-exceeds-capacity", "GetSize reported %d with capacity %d\nhistory: %s", o.Val, p.Cap, historyString(r.events))
			}
			lo, hi := 0, 0
			for _, e := range r.events {
				switch e.Op {
				case "Add":
					if e.Inv < o.Ret {
						hi++
					}
					if e.Ret != 0 && e.Ret < o.Inv {
						lo++
					}
				case "Remove":
					if e.Ret != 0 && e.OK && e.Ret < o.Inv {
						hi--
					}
					if e.Inv < o.Ret && (e.Ret == 0 || e.OK) {
						lo--
					}
				}
			}
			if !hasRemoveAll && (o.Val > hi || o.Val < lo) {
				return core.Violate("C04/size-out-of-bounds", "GetSize reported %d; by the calls around it the size is between %d and %d\nhistory: %s", o.Val, lo, hi, historyString(r.events))
			}
		case "IsEmpty":
			lo := 0
			for _, e := range r.events {
				switch {
				case e.Op == "Add" && e.Ret != 0 && e.Ret < o.Inv:
					lo++
				case e.Op == "Remove" && e.Inv < o.Ret && (e.Ret == 0 || e.OK):
					lo--
				}
			}
			if !hasRemoveAll && o.OK && lo > 0 {
				return core.Violate("C04/isempty-wrong", "IsEmpty reported true although at least %d values were present throughout the call\nhistory: %s", lo, historyString(r.events))
			}
		case "AsArray", "Iterate":
			if !hasRemoveAll {
				removesInvoked := 0
				for _, e := range r.events {
					if e.Op == "Remove" && e.Inv < o.Ret {
						removesInvoked++
					}
				}
				if removesInvoked == 0 {
					for v, a := range added {
						if a.Ret != 0 && a.Ret < o.Inv {
							found := false
							for _, x := range o.Arr {
								if x == v {
									found = true
								}
							}
							if !found {
								return core.Violate("C04/observer-misses-value", "%s does not show %d although Add(%d) had returned and nothing was removed\nhistory: %s", o.Op, v, v, historyString(r.events))
							}
						}
					}
				}
			}
			if !hasRemoveAll {
				// values leave at the head only: if the view shows a value, it shows every younger value that
				// had certainly been added before the view was asked for
				shown := map[int]bool{}
				for _, x := range o.Arr {
					shown[x] = true
				}
				for v, av := range added {
					if !shown[v] {
						continue
					}
					for w, aw := range added {
						if av.Ret != 0 && av.Ret < aw.Inv && aw.Ret != 0 && aw.Ret < o.Inv && !shown[w] {
							return core.Violate("C04/observer-misses-value", "%s shows %d but not the younger %d, although Add(%d) had returned before the view was asked for (values leave at the head only)\nhistory: %s", o.Op, v, w, w, historyString(r.events))
						}
					}
				}
			}
			seen := map[int]bool{}
			for i, v := range o.Arr {
				a := added[v]
				if a == nil || a.Inv > o.Ret {
					return core.Violate("C04/observer-invented", "%s shows %d, which had not been added\nhistory: %s", o.Op, v, historyString(r.events))
				}
				if d := delivered[v]; d != nil && d.Ret < o.Inv {
					return core.Violate("C04/observer-stale", "%s shows %d, which had already been removed\nhistory: %s", o.Op, v, historyString(r.events))
				}
				if seen[v] {
					return core.Violate("C04/observer-duplicate", "%s shows %d twice\nhistory: %s", o.Op, v, historyString(r.events))
				}
				seen[v] = true
				for _, w := range o.Arr[i+1:] {
					if b := added[w]; b != nil && b.Ret != 0 && b.Ret < a.Inv {
						return core.Violate("C04/observer-order", "%s shows %d before %d although Add(%d) returned before Add(%d) was called\nhistory: %s", o.Op, v, w, w, v, historyString(r.events))
					}
				}
			}
		}
	}
	return nil
}

func historyString(events []*qevent) string {
	type pt struct {
		at  int
		txt string
	}
	var pts []pt
	for _, e := range events {
		arg := ""
		if e.Op == "Add" {
			arg = fmt.Sprint(e.Arg)
		}
		pts = append(pts, pt{e.Inv, fmt.Sprintf("%s.%s(%s)<", e.Thread, e.Op, arg)})
		if e.Ret != 0 {
			res := ""
			switch e.Op {
			case "Remove":
				res = fmt.Sprintf("%d,%v", e.Val, e.OK)
			case "GetSize":
				res = fmt.Sprint(e.Val)
			case "IsEmpty":
				res = fmt.Sprint(e.OK)
			case "AsArray", "Iterate":
				res = fmt.Sprint(e.Arr)
			}
			if e.Panic != "" {
				res = "PANIC"
			}
			pts = append(pts, pt{e.Ret, fmt.Sprintf(">%s.%s=%s", e.Thread, e.Op, res)})
		}
	}
	sort.Slice(pts, func(i, j int) bool { return pts[i].at < pts[j].at })
	s := ""
	for _, p := range pts {
		s += p.txt + " "
	}
	return s
}

// ---------------------------------------------------------------- oracle 3 (C05): quiescence

func checkQuiescence(r *qrun) *core.Violation {
	p := r.prog
	if r.after != "" {
		return core.Violate("C05/queue-unusable-after-the-program", "after every goroutine of the program had finished, the queue was used once more: %s\nhistory: %s", r.after, historyString(r.events))
	}
	if r.res.Aborted != "" {
		panic(core.HarnessError{Msg: "scheduler aborted: " + r.res.Aborted})
	}
	addsDone, addsPending, removesPending, delivered := 0, 0, 0, 0
	closed, hasRemoveAll, panicked := false, false, false
	total := 0
	for _, vals := range p.Producers {
		total += len(vals)
	}
	for _, e := range r.events {
		if e.Panic != "" {
			panicked = true
		}
		switch e.Op {
		case "Add":
			if e.Ret != 0 {
				addsDone++
			} else {
				addsPending++
			}
		case "Remove":
			if e.Ret == 0 {
				removesPending++
			} else if e.OK {
				delivered++
			}
		case "Close":
			if e.Ret != 0 {
				closed = true
			}
		case "RemoveAll":
			hasRemoveAll = true
		}
	}
	if !r.res.Deadlock {
		if p.wellFormed() && !hasRemoveAll && delivered != total && !panicked {
			return core.Violate("C05/values-not-consumed", "the well-formed program terminated but only %d of %d values were consumed\nhistory: %s", delivered, total, historyString(r.events))
		}
		return nil
	}
	blocked := fmt.Sprint(r.res.Blocked)
	for _, b := range r.res.Blocked {
		if b.Orphaned {
			return core.Violate("C05/waiter-on-orphaned-channel", "deadlock: %s waits on a channel that is no longer the queue's channel; blocked: %s\nhistory: %s", b.Name, blocked, historyString(r.events))
		}
		if b.Op == "Lock" {
			return core.Violate("C05/blocked-on-lock", "deadlock: %s waits for the queue's mutex, which nobody will release; blocked: %s\nhistory: %s", b.Name, blocked, historyString(r.events))
		}
	}
	if p.wellFormed() {
		return core.Violate("C05/deadlock-in-well-formed-program", "a well-formed producer/consumer/closer program did not terminate; blocked: %s\nhistory: %s", blocked, historyString(r.events))
	}
	if removesPending > 0 {
		if closed {
			return core.Violate("C05/remove-blocked-on-closed-queue", "a RemoveHead stays blocked although the queue is closed; blocked: %s\nhistory: %s", blocked, historyString(r.events))
		}
		if addsPending > 0 {
			return core.Violate("C05/lost-wakeup", "a RemoveHead and an AddValue are blocked at the same time; blocked: %s\nhistory: %s", blocked, historyString(r.events))
		}
		if !hasRemoveAll && addsDone > delivered {
			return core.Violate("C05/lost-wakeup", "a RemoveHead stays blocked although %d added values are unclaimed; blocked: %s\nhistory: %s", addsDone-delivered, blocked, historyString(r.events))
		}
	}
	if addsPending > 0 && !hasRemoveAll && addsDone-delivered < int(p.Cap) {
		return core.Violate("C05/lost-wakeup", "an AddValue stays blocked although only %d of %d slots are taken; blocked: %s\nhistory: %s", addsDone-delivered, p.Cap, blocked, historyString(r.events))
	}
	return nil
}

// ---------------------------------------------------------------- generators

var fixedPrograms = []qprog{
	{Name: "1p2v-1c-cap1", Cap: 1, Producers: [][]int{{1, 2}}, Consumers: []int{-1}, Closer: true},
	{Name: "2p1v-1c-cap1", Cap: 1, Producers: [][]int{{1}, {2}}, Consumers: []int{-1}, Closer: true},
	{Name: "1p2v-2c-cap1", Cap: 1, Producers: [][]int{{1, 2}}, Consumers: []int{-1, -1}, Closer: true},
	{Name: "1p3v-1c-cap2", Cap: 2, Producers: [][]int{{1, 2, 3}}, Consumers: []int{-1}, Closer: true},
	{Name: "1p2v-1c2-cap1-noclose", Cap: 1, Producers: [][]int{{1, 2}}, Consumers: []int{2}},
	{Name: "1p1v-1c2-cap1-noclose", Cap: 1, Producers: [][]int{{1}}, Consumers: []int{2}},
	{Name: "1p3v-1c1-cap1-noclose", Cap: 1, Producers: [][]int{{1, 2, 3}}, Consumers: []int{1}},
	{Name: "1p2v-1c-cap1-observer", Cap: 1, Producers: [][]int{{1, 2}}, Consumers: []int{-1}, Closer: true, Observer: 2},
	{Name: "1p1v-1c-cap1-observer4", Cap: 1, Producers: [][]int{{1}}, Consumers: []int{-1}, Closer: true, Observer: 4},
	{Name: "1p2v-1c1-cap1-observer3", Cap: 1, Producers: [][]int{{1, 2}}, Consumers: []int{1}, Observer: 3},
	{Name: "1p1v-1c-cap1-removeall", Cap: 1, Producers: [][]int{{1}}, Consumers: []int{-1}, Closer: true, RemoveAll: 1},
	{Name: "1p2v-1c1-cap1-removeall", Cap: 1, Producers: [][]int{{1, 2}}, Consumers: []int{1}, RemoveAll: 1},
	{Name: "1p2v-0c-cap2-removeall-observer", Cap: 2, Producers: [][]int{{1, 2}}, Consumers: []int{}, RemoveAll: 1, Observer: 2},
	// two callers of RemoveAll at once: each of them discards what was there when it was called
	{Name: "1p2v-1c1-cap2-two-removeall", Cap: 2, Producers: [][]int{{1, 2}}, Consumers: []int{1}, RemoveAll: 1, RemoveAll2: 1},
	{Name: "1p3v-1c1-cap3-two-removeall", Cap: 3, Producers: [][]int{{1, 2, 3}}, Consumers: []int{1}, RemoveAll: 1, RemoveAll2: 1},
}

// the small fixed programs again, on queues of other element types (enumerated as a sub-check of their own)
var elemPrograms []qprog

func init() {
	for _, x := range []struct {
		i    int
		elem string
	}{{0, "any"}, {0, "anynil"}, {4, "string"}, {5, "anynil"}, {3, "anynil"}, {10, "anynil"}} {
		p := fixedPrograms[x.i]
		p.Name, p.Elem = p.Name+"/"+x.elem, x.elem
		elemPrograms = append(elemPrograms, p)
	}
}

func genElemProgram(s core.Source) qprog {
	return elemPrograms[s.Choose(len(elemPrograms), "program")]
}

func genFixedProgram(s core.Source) qprog {
	return fixedPrograms[s.Choose(len(fixedPrograms), "program")]
}

func genRandomProgram(s core.Source) qprog {
	p := qprog{Cap: uint(1 + s.Choose(3, "cap"))}
	np := 1 + s.Choose(3, "producers")
	v := 1
	for i := 0; i < np; i++ {
		n := 1 + s.Choose(3, "values")
		var vals []int
		for k := 0; k < n; k++ {
			vals = append(vals, v)
			v++
		}
		p.Producers = append(p.Producers, vals)
	}
	nc := 1 + s.Choose(3, "consumers")
	p.Closer = s.Choose(3, "closer") != 0
	for i := 0; i < nc; i++ {
		if p.Closer && s.Choose(3, "until") != 0 {
			p.Consumers = append(p.Consumers, -1)
		} else {
			p.Consumers = append(p.Consumers, 1+s.Choose(3, "removes"))
		}
	}
	if s.Choose(3, "observer") == 0 {
		p.Observer = 1 + s.Choose(4, "observations")
	}
	if s.Choose(4, "removeall") == 0 {
		p.RemoveAll = 1
		if s.Choose(2, "removeall2") == 0 {
			p.RemoveAll2 = 1
		}
	}
	p.Elem = core.Pick(s, queueElems, "elem")
	return p
}

func execProgram(prop string) func(qprog, core.Source) core.Result {
	return func(p qprog, src core.Source) (res core.Result) {
		r := runProgram(p, src)
		res.Counts = map[string]int{"steps": r.steps, "schedules": 1}
		if prop == "C04" {
			if v := checkClauses(r); v != nil {
				res.Violation = v
				return
			}
			if ok, why := linearizable(r.events); !ok {
				res.Violation = core.Violate("C04/not-linearizable", "%s\nhistory: %s", why, historyString(r.events))
				return
			}
		} else {
			if v := checkQuiescence(r); v != nil {
				res.Violation = v
				return
			}
		}
		overlapped := false
		for i, a := range r.events {
			for _, b := range r.events[i+1:] {
				if a.Thread != b.Thread && a.Inv < b.Inv && (a.Ret == 0 || b.Inv < a.Ret) {
					overlapped = true
				}
			}
		}
		res.NonTrivial = overlapped && r.res.AnyBlocked
		if prop == "C05" {
			res.NonTrivial = r.res.AnyBlocked
		}
		if r.res.Deadlock {
			res.Classes = append(res.Classes, "quiescent-with-blocked-calls")
		}
		if r.res.AnyBlocked {
			res.Classes = append(res.Classes, "some-call-blocked")
		}
		if p.RemoveAll > 0 {
			res.Classes = append(res.Classes, "with-RemoveAll")
		}
		if p.Observer > 0 {
			res.Classes = append(res.Classes, "with-observer")
		}
		if p.Name != "" {
			res.Classes = append(res.Classes, "program-"+p.Name)
		}
		if p.Elem != "" {
			res.Classes = append(res.Classes, "elem-"+p.Elem)
		}
		return
	}
}

// programFamily enumerates the small programs of the quantifier systematically (thorough tier):
// capacity 1-2, 1-2 producers with 1-2 values, 1-2 consumers (fixed count or until closed),
// optional closer, optional RemoveAll caller, optional observer; at most 9 calls in total.
func programFamily() []qprog {
	var out []qprog
	prodSets := [][][]int{{{1}}, {{1, 2}}, {{1}, {2}}, {{1, 2}, {3}}}
	consSets := [][]int{{-1}, {1}, {2}, {-1, -1}, {1, 1}, {}}
	for _, capacity := range []uint{1, 2} {
		for _, prods := range prodSets {
			for _, cons := range consSets {
				for _, closer := range []bool{true, false} {
					for _, ra := range []int{0, 1} {
						for _, obs := range []int{0, 2} {
							until := false
							for _, c := range cons {
								if c < 0 {
									until = true
								}
							}
							if until && !closer {
								continue // readers until closed need somebody who closes
							}
							if ra == 1 && obs > 0 && len(cons) > 1 {
								continue
							}
							calls := ra + obs
							for _, p := range prods {
								calls += len(p)
							}
							for _, c := range cons {
								if c < 0 {
									calls += 2
								} else {
									calls += c
								}
							}
							if closer {
								calls++
							}
							if calls > 9 || len(prods)+len(cons) > 3 {
								continue
							}
							out = append(out, qprog{Name: fmt.Sprintf("family-%d", len(out)), Cap: capacity, Producers: prods, Consumers: cons, Closer: closer, RemoveAll: ra, Observer: obs})
						}
					}
				}
			}
		}
	}
	return out
}

func familySweep(r *core.Runner, prop string) {
	if !r.Thorough() {
		return
	}
	fam := programFamily()
	// one bounded enumeration over the family: the programs are taken round-robin by shard so that every
	// program gets its own budget
	for i, p := range fam {
		if r.NShards > 1 && i%r.NShards != r.Shard {
			continue
		}
		p := p
		saved := r.NShards
		r.NShards = 1 // the whole schedule space of this program belongs to this shard
		core.DFS(r, core.Check[qprog]{Name: "family-schedules", Gen: func(core.Source) qprog { return p }, Exec: execProgram(prop), Bounded: true}, 25000)
		r.NShards = saved
	}
}

func TestC04(t *testing.T) {
	r := core.Begin(t, "C04")
	defer r.End()
	core.DFS(r, core.Check[qprog]{Name: "all-schedules", Gen: genFixedProgram, Exec: execProgram("C04"), Bounded: true}, r.N(40000, 2000000))
	core.DFS(r, core.Check[qprog]{Name: "all-schedules-element-types", Gen: genElemProgram, Exec: execProgram("C04"), Bounded: true}, r.N(4000, 200000))
	core.Rapid(r, core.Check[qprog]{Name: "sampled-schedules", Gen: genRandomProgram, Exec: execProgram("C04")}, r.N(2500, 50000))
	core.DFS(r, core.Check[queueFromCase]{Name: "queue-from-collection", Gen: func(s core.Source) queueFromCase {
		return queueFromCase{From: core.Pick(s, []string{"Array", "List", "Set", "Stack", "Queue"}, "from"), N: []int{0, 1, 2, 3, 5, 16, 17, 40}[s.Choose(8, "n")]}
	}, Exec: execQueueFrom}, 0)
	familySweep(r, "C04")
}

// ---------------------------------------------------------------- C17: an iterator over a queue that other goroutines use

// An iterator obtained while producers and consumers are at work enumerates the queue as it was at one moment:
// values that had been added and not yet removed, oldest first, none twice, none missing behind one that is
// shown -- and the same values walking back.
var iteratorPrograms = []qprog{
	{Name: "iterate-1p2v-1c1-cap2", Cap: 2, Producers: [][]int{{1, 2}}, Consumers: []int{1}, Observer: 2, Iterate: true},
	{Name: "iterate-1p3v-1c2-cap3", Cap: 3, Producers: [][]int{{1, 2, 3}}, Consumers: []int{2}, Observer: 1, Iterate: true},
	{Name: "iterate-1p2v-1c-cap1", Cap: 1, Producers: [][]int{{1, 2}}, Consumers: []int{-1}, Closer: true, Observer: 2, Iterate: true},
	{Name: "iterate-2p1v-0c-cap2", Cap: 2, Producers: [][]int{{1}, {2}}, Consumers: []int{}, Observer: 2, Iterate: true},
}

func TestC17Sched(t *testing.T) {
	r := core.Begin(t, "C17")
	defer r.End()
	exec := func(p qprog, src core.Source) (res core.Result) {
		res = execProgram("C04")(p, src)
		if res.Violation != nil {
			res.Violation.Signature = "C17/queue-iterator/" + strings.TrimPrefix(res.Violation.Signature, "C04/")
		}
		return
	}
	core.DFS(r, core.Check[qprog]{Name: "queue-iterator-schedules", Gen: func(s core.Source) qprog { return iteratorPrograms[s.Choose(len(iteratorPrograms), "program")] }, Exec: exec, Bounded: true}, r.N(20000, 400000))
}

func TestC13Sched(t *testing.T) {
	r := core.Begin(t, "C13")
	defer r.End()
	core.Rapid(r, core.Check[stackFromQueueCase]{Name: "stack-from-busy-queue", Gen: func(s core.Source) stackFromQueueCase {
		c := stackFromQueueCase{Cap: uint([]int{1, 2, 15, 16, 17}[s.Choose(5, "cap")])}
		c.Values = int(c.Cap) - 1 + s.Choose(4, "values")
		c.Delay = max(0, c.Values-s.Choose(3, "delay"))
		return c
	}, Exec: execStackFromQueue}, r.N(600, 6000))
}

func TestC05(t *testing.T) {
	r := core.Begin(t, "C05")
	defer r.End()
	core.DFS(r, core.Check[qprog]{Name: "all-schedules", Gen: genFixedProgram, Exec: execProgram("C05"), Bounded: true}, r.N(40000, 2000000))
	core.DFS(r, core.Check[qprog]{Name: "all-schedules-element-types", Gen: genElemProgram, Exec: execProgram("C05"), Bounded: true}, r.N(4000, 200000))
	core.Rapid(r, core.Check[qprog]{Name: "sampled-schedules", Gen: genRandomProgram, Exec: execProgram("C05")}, r.N(2500, 50000))
	core.DFS(r, core.Check[ctorCase]{Name: "constructors", Gen: genCtor, Exec: execCtor}, 0)
	core.Rapid(r, core.Check[stackFromQueueCase]{Name: "queue-from-busy-queue", Gen: func(s core.Source) stackFromQueueCase {
		c := stackFromQueueCase{Target: "Queue", Cap: uint([]int{1, 2, 3, 16, 17}[s.Choose(5, "cap")])}
		c.Values = int(c.Cap) - 1 + s.Choose(4, "values")
		c.Delay = max(0, c.Values-s.Choose(3, "delay"))
		return c
	}, Exec: execStackFromQueue}, r.N(600, 6000))
	familySweep(r, "C05")
}
