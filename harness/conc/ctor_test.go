//go:build verif

package conc

import (
	"fmt"
	"strings"

	mod "github.com/craterdog/go-collection-framework/v4"
	col "github.com/craterdog/go-collection-framework/v4/collection"
	"verifharness/core"
	"verifharness/lib"
	"verifharness/sched"
)

// ---------------------------------------------------------------- C05: constructing a queue from N initial values returns for every N

type ctorCase struct {
	Form     string `json:"form"`
	N        int    `json:"n"`
	Schedule int    `json:"schedule"` // one of three fixed pseudo-random schedules (scanner vs parser)
}

// The last two forms pass a capacity next to the initial values.  Whatever the constructor makes of that
// combination (the capacity wins and the values are ignored, or the queue is made large enough), it must
// return, and what it returns must be a usable queue within its capacity.
var ctorForms = []string{"class/MakeFromArray", "class/MakeFromSequence", "module/array", "module/sequence", "module/source", "ParseSource",
	"module/capacity+array", "module/capacity+sequence"}

func genCtor(s core.Source) ctorCase {
	return ctorCase{Form: core.Pick(s, ctorForms, "form"), N: s.Choose(65, "n"), Schedule: s.Choose(3, "schedule")} // 0 .. 4*16
}

func execCtor(c ctorCase, _ core.Source) (res core.Result) {
	src := &core.HashSource{Seed: uint64(c.Schedule)*1000 + uint64(c.N)}
	vals := make([]int64, c.N)
	lits := make([]string, c.N)
	for i := range vals {
		vals[i] = int64(i + 1)
		lits[i] = fmt.Sprint(i + 1)
	}
	source := "[" + strings.Join(lits, ", ") + "](Queue)"
	if c.N == 0 {
		source = "[ ](Queue)"
	}
	var got []int64
	var capacity uint
	var size int
	var stage, usable string
	s := sched.New(src, false)
	uninstall := s.Install()
	defer uninstall()
	g := s.Go("ctor", func() {
		n := lib.Notation()
		var q col.QueueLike[int64]
		switch c.Form {
		case "class/MakeFromArray":
			q = col.Queue[int64](n).MakeFromArray(vals)
		case "class/MakeFromSequence":
			q = col.Queue[int64](n).MakeFromSequence(col.List[int64](n).MakeFromArray(vals))
		case "module/array":
			q = mod.Queue[int64](vals)
		case "module/sequence":
			q = mod.Queue[int64](col.List[int64](n).MakeFromArray(vals))
		case "module/source":
			q = mod.Queue[int64](source)
		case "module/capacity+array":
			q = mod.Queue[int64](uint(3), vals)
		case "module/capacity+sequence":
			q = mod.Queue[int64](col.List[int64](n).MakeFromArray(vals), uint(3))
		case "ParseSource":
			qa := mod.ParseSource(source).(col.QueueLike[any])
			for _, x := range qa.AsArray() {
				got = append(got, x.(int64))
			}
			capacity, size = qa.GetCapacity(), qa.GetSize()
			return
		}
		got, capacity, size = q.AsArray(), q.GetCapacity(), q.GetSize()
		// the queue just constructed behaves like any other: with room left an AddValue returns without
		// a consumer, and everything can be removed again
		if uint(size) < capacity {
			stage = "AddValue on the constructed queue (it has room)"
			q.AddValue(-1)
		}
		stage = "RemoveHead on the constructed queue"
		for k := 0; k < size && k < len(vals); k++ {
			if v, ok := q.RemoveHead(); !ok || v != vals[k] {
				usable = fmt.Sprintf("RemoveHead #%d returned (%d, %v)", k+1, v, ok)
				return
			}
		}
		stage = ""
	})
	r := s.Run()
	desc := fmt.Sprintf("%s with %d initial values", c.Form, c.N)
	_ = desc
	if r.Deadlock && stage != "" {
		res.Violation = core.Violate("C05/ctor/unusable-queue", "%s returned, but then %s blocks forever (size %d, capacity %d); blocked: %v", desc, stage, size, capacity, r.Blocked)
		return
	}
	if usable != "" {
		res.Violation = core.Violate("C05/ctor/unusable-queue", "%s: %s", desc, usable)
		return
	}
	if r.Deadlock {
		res.Violation = core.Violate("C05/ctor/self-deadlock", "%s never returns: the constructing goroutine blocks on the queue's own capacity; blocked: %v", desc, r.Blocked)
		return
	}
	if g.Panic != nil {
		res.Violation = core.Violate("C05/ctor/panicked", "%s panicked: %s", desc, lib.Short(g.Panic))
		return
	}
	if strings.HasPrefix(c.Form, "module/capacity+") {
		// the combination is not specified: the queue holds all, some leading or none of the values
		if len(got) > c.N || size != len(got) || uint(size) > capacity {
			res.Violation = core.Violate("C05/ctor/contents", "%s returned a queue with %d values (GetSize %d, capacity %d)", desc, len(got), size, capacity)
			return
		}
	} else if len(got) != c.N || size != c.N || uint(size) > capacity {
		res.Violation = core.Violate("C05/ctor/contents", "%s returned a queue with %d values (GetSize %d, capacity %d)", desc, len(got), size, capacity)
		return
	}
	for i, v := range got {
		if v != vals[i] {
			res.Violation = core.Violate("C05/ctor/contents", "%s returned %v", desc, got)
			return
		}
	}
	res.NonTrivial = c.N > 0
	if c.N > 16 {
		res.Classes = append(res.Classes, "more-than-default-capacity")
	}
	res.Counts = map[string]int{"steps": r.Steps}
	return
}
