//go:build verif

package conc

import (
	"fmt"
	"strings"

	mod "github.com/craterdog/go-collection-framework/v4"
	col "github.com/craterdog/go-collection-framework/v4/collection"
	"verifharness/core"
	"verifharness/lib"
	"verifharness/sched"
)

// ---------------------------------------------------------------- C05: constructing a queue from N initial values returns for every N

type ctorCase struct {
	Form     string `json:"form"`
	N        int    `json:"n"`
	Schedule int    `json:"schedule"` // one of three fixed pseudo-random schedules (scanner vs parser)
}

// The last two forms pass a capacity next to the initial values.  Whatever the constructor makes of that
// combination (the capacity wins and the values are ignored, or the queue is made large enough), it must
// return, and what it returns must be a usable queue within its capacity.
var ctorForms = []string{"class/MakeFromArray", "class/MakeFromSequence", "module/array", "module/sequence", "module/source", "ParseSource",
	"module/capacity+array", "module/capacity+sequence"}

func genCtor(s core.Source) ctorCase {
	return ctorCase{Form: core.Pick(s, ctorForms, "form"), N: s.Choose(65, "n"), Schedule: s.Choose(3, "schedule")} // 0 .. 4*16
}

func execCtor(c ctorCase, _ core.Source) (res core.Result) {
	src := &core.HashSource{Seed: uint64(c.Schedule)*1000 + uint64(c.N)}
	vals := make([]int64, c.N)
	lits := make([]string, c.N)
	for i := range vals {
		vals[i] = int64(i + 1)
		lits[i] = fmt.Sprint(i + 1)
	}
	source := "[" + strings.Join(lits, ", ") + "](Queue)"
	if c.N == 0 {
		source = "[ ](Queue)"
	}
	var got []int64
	var capacity uint
	var size int
	var stage, usable string
	s := sched.New(src, false)
	uninstall := s.Install()
	defer uninstall()
	g := s.Go("ctor", func() {
		n := lib.Notation()
		var q col.QueueLike[int64]
		switch c.Form {
		case "class/MakeFromArray":
			q = col.Queue[int64](n).MakeFromArray(vals)
		case "class/MakeFromSequence":
			q = col.Queue[int64](n).MakeFromSequence(col.List[int64](n).MakeFromArray(vals))
		case "module/array":
			q = mod.Queue[int64](vals)
		case "module/sequence":
			q = mod.Queue[int64](col.List[int64](n).MakeFromArray(vals))
		case "module/source":
			q = mod.Queue[int64](source)
		case "module/capacity+array":
			q = mod.Queue[int64](uint(3), vals)
		case "module/capacity+sequence":
			q = mod.Queue[int64](col.List[int64](n).MakeFromArray(vals), uint(3))
		case "ParseSource":
			qa := mod.ParseSource(source).(col.QueueLike[any])
			for _, x := range qa.AsArray() {
				got = append(got, x.(int64))
			}
			capacity, size = qa.GetCapacity(), qa.GetSize()
			return
		}
		got, capacity, size = q.AsArray(), q.GetCapacity(), q.GetSize()
		// the queue just constructed behaves like any other: with room left an AddValue returns without
		// a consumer, and everything can be removed again
		if uint(size) < capacity {
			stage = "AddValue on the constructed queue (it has room)"
			q.AddValue(-1)
		}
		stage = "RemoveHead on the constructed queue"
		for k := 0; k < size && k < len(vals); k++ {
			if v, ok := q.RemoveHead(); !ok || v != vals[k] {
				usable = fmt.Sprintf("RemoveHead #%d returned (%d, %v)", k+1, v, ok)
				return
			}
		}
		stage = ""
	})
	r := s.Run()
	desc := fmt.Sprintf("%s with %d initial values", c.Form, c.N)
	_ = desc
	if r.Deadlock && stage != "" {
		res.Violation = core.Violate("C05/ctor/unusable-queue", "%s returned, but then %s blocks forever (size %d, capacity %d); blocked: %v", desc, stage, size, capacity, r.Blocked)
		return
	}
	if usable != "" {
		res.Violation = core.Violate("C05/ctor/unusable-queue", "%s: %s", desc, usable)
		return
	}
	if r.Deadlock {
		res.Violation = core.Violate("C05/ctor/self-deadlock", "%s never returns: the constructing goroutine blocks on the queue's own capacity; blocked: %v", desc, r.Blocked)
		return
	}
	if g.Panic != nil {
		res.Violation = core.Violate("C05/ctor/panicked", "%s panicked: %s", desc, lib.Short(g.Panic))
		return
	}
	if strings.HasPrefix(c.Form, "module/capacity+") {
		// the combination is not specified: the queue holds all, some leading or none of the values
		if len(got) > c.N || size != len(got) || uint(size) > capacity {
			res.Violation = core.Violate("C05/ctor/contents", "%s returned a queue with %d values (GetSize %d, capacity %d)", desc, len(got), size, capacity)
			return
		}
	} else if len(got) != c.N || size != c.N || uint(size) > capacity {
		res.Violation = core.Violate("C05/ctor/contents", "%s returned a queue with %d values (GetSize %d, capacity %d)", desc, len(got), size, capacity)
		return
	}
	for i, v := range got {
		if v != vals[i] {
			res.Violation = core.Violate("C05/ctor/contents", "%s returned %v", desc, got)
			return
		}
	}
	res.NonTrivial = c.N > 0
	if c.N > 16 {
		res.Classes = append(res.Classes, "more-than-default-capacity")
	}
	res.Counts = map[string]int{"steps": r.Steps}
	return
}

// ---------------------------------------------------------------- C04: a queue made from another collection

// The values a queue is made from are its first additions, in the order the source lists them.  The source
// stays a collection of its own: what the caller does to it afterwards -- in place or structurally -- is not an
// addition to the queue, and what the queue delivers is not a removal from the source.
type queueFromCase struct {
	From string `json:"from"` // Array List Set Stack Queue
	N    int    `json:"n"`
}

func execQueueFrom(c queueFromCase, _ core.Source) (res core.Result) {
	n := lib.Notation()
	vals := make([]int, c.N)
	for i := range vals {
		vals[i] = 3*i + 1
	}
	var src col.Sequential[int]
	switch c.From {
	case "Array":
		src = col.Array[int](n).MakeFromArray(vals)
	case "List":
		src = col.List[int](n).MakeFromArray(vals)
	case "Set":
		src = col.Set[int](n).MakeFromArray(vals)
	case "Stack":
		st := col.Stack[int](n).MakeWithCapacity(uint(max(c.N, 1)))
		for i := len(vals) - 1; i >= 0; i-- {
			st.AddValue(vals[i])
		}
		src = st
	default:
		q0 := col.Queue[int](n).MakeWithCapacity(uint(max(c.N, 1)))
		for _, v := range vals {
			q0.AddValue(v)
		}
		src = q0
	}
	before := append([]int{}, src.AsArray()...)
	desc := fmt.Sprintf("a Queue made from a %s of %d values", c.From, c.N)
	var q col.QueueLike[int]
	if p, payload := lib.Call(func() { q = col.Queue[int](n).MakeFromSequence(src) }); p {
		res.Violation = core.Violate("C04/queue-from/panicked", "%s: MakeFromSequence panicked: %s", desc, lib.Short(payload))
		return
	}
	// the caller goes on using its collection
	switch s := src.(type) {
	case col.ArrayLike[int]:
		if c.N > 0 {
			s.ReverseValues()
			s.SetValue(1, -1)
		}
	case col.ListLike[int]:
		if c.N > 0 {
			s.SetValue(1, -1)
			s.ReverseValues()
		}
		s.AppendValue(-2)
		s.RemoveAll()
	case col.SetLike[int]:
		s.AddValue(-3)
		s.RemoveAll()
	case col.StackLike[int]:
		if c.N > 0 {
			s.RemoveTop()
		}
		s.RemoveAll()
	case col.QueueLike[int]:
		if c.N > 0 {
			s.RemoveHead()
		}
		s.RemoveAll()
	}
	if got := q.AsArray(); !lib.EqInts(got, before) || q.GetSize() != c.N {
		res.Violation = core.Violate("C04/queue-from/follows-its-source", "%s: after the caller changed that %s the queue lists %v (GetSize %d), it was made from %v", desc, c.From, got, q.GetSize(), before)
		return
	}
	for k, want := range before {
		v, ok := q.RemoveHead()
		if !ok || v != want {
			res.Violation = core.Violate("C04/queue-from/delivers-something-else", "%s: RemoveHead #%d returned (%d, %v), the value added at that place was %d", desc, k+1, v, ok, want)
			return
		}
	}
	if !q.IsEmpty() || q.GetSize() != 0 {
		res.Violation = core.Violate("C04/queue-from/not-drained", "%s: after %d deliveries GetSize is %d", desc, c.N, q.GetSize())
		return
	}
	// and the other way round: what a second queue delivers is not taken out of its source
	src2 := col.List[int](n).MakeFromArray(vals)
	q2 := col.Queue[int](n).MakeFromSequence(src2)
	for range vals {
		q2.RemoveHead()
	}
	q2.AddValue(-9)
	if !lib.EqInts(src2.AsArray(), vals) {
		res.Violation = core.Violate("C04/queue-from/source-follows-the-queue", "%s: draining the queue changed the List it was made from: %v", desc, src2.AsArray())
		return
	}
	res.NonTrivial = c.N > 0
	res.Classes = append(res.Classes, "from-"+c.From)
	return
}

// ---------------------------------------------------------------- C13: a stack made from a queue that is in use

// "No constructor produces a stack holding more values than its capacity" -- also when the sequence it reads is
// a queue whose producer is in the middle of an AddValue (the value is listed, its token not yet sent: the queue
// lists more values than it reports as its size).
type stackFromQueueCase struct {
	Cap    uint   `json:"cap"`
	Values int    `json:"values"`
	Delay  int    `json:"delay"`            // the builder starts when the producer has added this many values
	Target string `json:"target,omitempty"` // what is made from the queue: Stack (default) or Queue
}

func execStackFromQueue(c stackFromQueueCase, src core.Source) (res core.Result) {
	n := lib.Notation()
	q := col.Queue[int](n).MakeWithCapacity(c.Cap)
	var size, listed int
	var capacity uint
	built, pushed := false, false
	s := sched.New(src, false)
	uninstall := s.Install()
	defer uninstall()
	var g *sched.G
	builder := func() {
		if c.Target == "Queue" {
			// a queue made from a queue in use: the constructor returns (it does not wait on the capacity of
			// the queue it is making), and the new queue holds what the source listed
			q2 := col.Queue[int](n).MakeFromSequence(q)
			size, capacity, listed, built = q2.GetSize(), q2.GetCapacity(), len(q2.AsArray()), true
			return
		}
		st := col.Stack[int](n).MakeFromSequence(q)
		size, capacity, listed, built = st.GetSize(), st.GetCapacity(), len(st.AsArray()), true
		if uint(size) >= capacity {
			// a full stack refuses another value
			p, _ := lib.Call(func() { st.AddValue(-1) })
			pushed = !p
		}
	}
	s.Go("producer", func() {
		for i := 0; i < c.Values; i++ {
			if i == c.Delay {
				g = s.Go("builder", builder)
			}
			q.AddValue(i + 1)
		}
		if c.Delay >= c.Values {
			g = s.Go("builder", builder)
		}
	})
	r := s.Run()
	desc := fmt.Sprintf("Stack.MakeFromSequence of a queue (capacity %d) whose producer adds %d values", c.Cap, c.Values)
	if g == nil {
		return
	}
	if c.Target == "Queue" {
		desc = fmt.Sprintf("Queue.MakeFromSequence of a queue (capacity %d) whose producer adds %d values", c.Cap, c.Values)
		switch {
		case g.Panic != nil:
			res.Violation = core.Violate("C05/ctor/panicked", "%s panicked: %s", desc, lib.Short(g.Panic))
		case !built:
			res.Violation = core.Violate("C05/ctor/self-deadlock", "%s never returns: the constructing goroutine blocks on the capacity of the queue it is making; blocked: %v", desc, r.Blocked)
		case uint(size) > capacity || listed != size:
			res.Violation = core.Violate("C05/ctor/contents", "%s returned a queue of %d values (array view %d) with capacity %d", desc, size, listed, capacity)
		}
		res.NonTrivial = size > 0
		if r.AnyBlocked {
			res.Classes = append(res.Classes, "producer-blocked")
		}
		return
	}
	if g.Panic != nil {
		if uint(c.Values) > col.Stack[int](n).DefaultCapacity() {
			res.Classes = append(res.Classes, "constructor-refused")
			return
		}
		res.Violation = core.Violate("C13/ctor/panic", "%s panicked: %s", desc, lib.Short(g.Panic))
		return
	}
	if !built {
		return
	}
	if uint(size) > capacity || listed != size {
		res.Violation = core.Violate("C13/size-exceeds-capacity", "%s returned a stack holding %d values (array view: %d) with capacity %d", desc, size, listed, capacity)
		return
	}
	if pushed {
		res.Violation = core.Violate("C13/push-on-full-returned", "%s returned a full stack (%d of %d) that accepted another value", desc, size, capacity)
		return
	}
	res.NonTrivial = size > 0
	if r.AnyBlocked {
		res.Classes = append(res.Classes, "producer-blocked")
	}
	if uint(size) == capacity {
		res.Classes = append(res.Classes, "full-stack")
	}
	return
}
