package core

import (
	"encoding/json"
	"os"
	"path/filepath"
	"regexp"
	"runtime"
)

// Finding is one entry of /verif/known_findings.json.  Only entries with
// status "open" influence a run: a violation whose signature matches is
// counted and reported as KNOWN-FINDING instead of VIOLATION.  "fixed" entries
// suppress nothing.
type Finding struct {
	ID        string   `json:"id"`
	Property  string   `json:"property"`
	Status    string   `json:"status"`
	Signature string   `json:"signature"` // regular expression over violation signatures
	What      string   `json:"what"`
	Check     string   `json:"check,omitempty"`   // sub-check holding the witness
	Witness   []uint64 `json:"witness,omitempty"` // choice list that reproduces it
	Line      string   `json:"line,omitempty"`    // "fixed: property=<id> <commit> <what failed>"
	re        *regexp.Regexp
}

func (f *Finding) Matches(sig string) bool {
	if f.re == nil {
		f.re = regexp.MustCompile("^(?:" + f.Signature + ")$")
	}
	return f.re.MatchString(sig)
}

type findingsFile struct {
	Findings []Finding `json:"findings"`
}

func verifRoot() string {
	if v := os.Getenv("VERIF_ROOT"); v != "" {
		return v
	}
	_, file, _, _ := runtime.Caller(0)
	return filepath.Dir(filepath.Dir(filepath.Dir(file)))
}

// LoadFindings returns the open findings listed for a property.
func LoadFindings(prop string) []Finding {
	b, err := os.ReadFile(filepath.Join(verifRoot(), "known_findings.json"))
	if err != nil {
		return nil
	}
	var ff findingsFile
	if json.Unmarshal(b, &ff) != nil {
		return nil
	}
	var out []Finding
	for _, f := range ff.Findings {
		if f.Status == "open" && f.Property == prop {
			out = append(out, f)
		}
	}
	return out
}
