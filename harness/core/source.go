// Package core holds the machinery shared by every check: choice sources (one
// generator, three drivers), the case runner with evidence counters, the hang
// watchdog, the crash journal and the known-findings matcher.
package core

import (
	"fmt"

	"pgregory.net/rapid"
)

// Source is the only place randomness (or enumeration) enters a generator or a
// schedule.  Every decision is an integer, so a case is a finite list of
// integers that can be generated, enumerated, shrunk and replayed.
type Source interface {
	// Choose returns a value in [0,n).  n must be >= 1.
	Choose(n int, label string) int
	// Int returns a value in [lo,hi] (inclusive).
	Int(lo, hi int64, label string) int64
	// Bits returns 64 arbitrary bits (not available to enumerated generators).
	Bits(label string) uint64
}

// ---------------------------------------------------------------- rapid

type RapidSource struct{ T *rapid.T }

func (s RapidSource) Choose(n int, label string) int {
	if n <= 1 {
		return 0
	}
	return rapid.IntRange(0, n-1).Draw(s.T, label)
}

func (s RapidSource) Int(lo, hi int64, label string) int64 {
	if lo >= hi {
		return lo
	}
	return rapid.Int64Range(lo, hi).Draw(s.T, label)
}

func (s RapidSource) Bits(label string) uint64 {
	return rapid.Uint64().Draw(s.T, label)
}

// ---------------------------------------------------------------- recording

// Recorder wraps a Source and remembers every value it handed out.
type Recorder struct {
	Inner   Source
	Choices []uint64
}

func (r *Recorder) Choose(n int, label string) int {
	if n <= 1 {
		// A forced choice is not a choice: it is not recorded, so that the
		// recorded list is the same under every driver.
		return 0
	}
	v := r.Inner.Choose(n, label)
	r.Choices = append(r.Choices, uint64(v))
	return v
}

func (r *Recorder) Int(lo, hi int64, label string) int64 {
	if lo >= hi {
		return lo
	}
	v := r.Inner.Int(lo, hi, label)
	r.Choices = append(r.Choices, uint64(v-lo))
	return v
}

func (r *Recorder) Bits(label string) uint64 {
	v := r.Inner.Bits(label)
	r.Choices = append(r.Choices, v)
	return v
}

// ---------------------------------------------------------------- replay

// ReplaySource feeds a recorded choice list; when the list is exhausted it
// answers 0 (the minimal choice), and out-of-range values are reduced modulo
// the offered arity, so that hand-edited replay files still decode.
type ReplaySource struct {
	Choices []uint64
	pos     int
	Overrun int
}

func (r *ReplaySource) next() uint64 {
	if r.pos < len(r.Choices) {
		v := r.Choices[r.pos]
		r.pos++
		return v
	}
	r.Overrun++
	return 0
}

func (r *ReplaySource) Choose(n int, label string) int {
	if n <= 1 {
		return 0
	}
	return int(r.next() % uint64(n))
}

func (r *ReplaySource) Int(lo, hi int64, label string) int64 {
	if lo >= hi {
		return lo
	}
	span := uint64(hi-lo) + 1
	v := r.next()
	if span != 0 {
		v %= span
	}
	return lo + int64(v)
}

func (r *ReplaySource) Bits(label string) uint64 { return r.next() }

// ---------------------------------------------------------------- DFS

// DFSSource enumerates every choice sequence of a generator depth first.  The
// generator is re-run once per leaf; between runs call Next.
type DFSSource struct {
	stack [][2]int // (arity, chosen)
	pos   int
}

type HarnessError struct{ Msg string }

func (e HarnessError) Error() string { return "harness error: " + e.Msg }

// LibraryHang is raised by the cooperative scheduler when a goroutine it has released does not reach its
// next synchronisation operation: between two hooks there is only straight-line library code, so the goroutine
// is blocked in something the schedule does not control (a lock that is not the one the hooks announced).
// The property requires the call to return: it is reported as a violation, not as a harness error.
type LibraryHang struct{ Msg string }

func (e LibraryHang) Error() string { return "library hang: " + e.Msg }

func (d *DFSSource) Choose(n int, label string) int {
	if n <= 1 {
		return 0
	}
	if d.pos < len(d.stack) {
		c := d.stack[d.pos]
		if c[0] != n {
			panic(HarnessError{fmt.Sprintf("DFS nondeterminism at depth %d (%s): recorded arity %d, offered %d", d.pos, label, c[0], n)})
		}
		d.pos++
		return c[1]
	}
	d.stack = append(d.stack, [2]int{n, 0})
	d.pos++
	return 0
}

func (d *DFSSource) Int(lo, hi int64, label string) int64 {
	if lo >= hi {
		return lo
	}
	return lo + int64(d.Choose(int(hi-lo+1), label))
}

func (d *DFSSource) Bits(label string) uint64 {
	panic(HarnessError{"Bits is not available to enumerated generators (" + label + ")"})
}

// Next advances to the next leaf; false when the space is exhausted.
func (d *DFSSource) Next() bool {
	d.stack = d.stack[:d.pos]
	for len(d.stack) > 0 {
		top := &d.stack[len(d.stack)-1]
		if top[1]+1 < top[0] {
			top[1]++
			d.pos = 0
			return true
		}
		d.stack = d.stack[:len(d.stack)-1]
	}
	d.pos = 0
	return false
}

// Depth is the number of recorded decisions of the current leaf.
func (d *DFSSource) Depth() int { return d.pos }

// ---------------------------------------------------------------- helpers

// Mix is splitmix64: turns a (possibly small, shrink-friendly) drawn value into
// well-spread bits without a second source of randomness.
func Mix(x uint64) uint64 {
	x += 0x9e3779b97f4a7c15
	x = (x ^ (x >> 30)) * 0xbf58476d1ce4e5b9
	x = (x ^ (x >> 27)) * 0x94d049bb133111eb
	return x ^ (x >> 31)
}

// Pick returns one element of a non-empty slice.
func Pick[T any](s Source, xs []T, label string) T {
	return xs[s.Choose(len(xs), label)]
}

// Weighted picks index i with probability weights[i]/sum.
func Weighted(s Source, weights []int, label string) int {
	sum := 0
	for _, w := range weights {
		sum += w
	}
	k := s.Choose(sum, label)
	for i, w := range weights {
		if k < w {
			return i
		}
		k -= w
	}
	return len(weights) - 1
}

// HashSource is a deterministic pseudo-random source derived from a seed (no
// state outside the value, no RNG of its own): used where a sub-check wants a
// few fixed schedules per enumerated case rather than all of them.
type HashSource struct {
	Seed uint64
	n    uint64
}

func (h *HashSource) Choose(n int, label string) int {
	if n <= 1 {
		return 0
	}
	h.n++
	return int(Mix(h.Seed*0x9e3779b97f4a7c15+h.n) % uint64(n))
}

func (h *HashSource) Int(lo, hi int64, label string) int64 {
	if lo >= hi {
		return lo
	}
	h.n++
	return lo + int64(Mix(h.Seed*0x9e3779b97f4a7c15+h.n)%uint64(hi-lo+1))
}

func (h *HashSource) Bits(label string) uint64 {
	h.n++
	return Mix(h.Seed*0x9e3779b97f4a7c15 + h.n)
}
