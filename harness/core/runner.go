package core

import (
	"encoding/json"
	"flag"
	"fmt"
	"hash/fnv"
	"os"
	"path/filepath"
	"runtime/debug"
	"sort"
	"strconv"
	"strings"
	"sync"
	"sync/atomic"
	"testing"
	"time"

	"pgregory.net/rapid"
)

// Violation is what an oracle returns when the property is broken on a case.
// Signature describes the *shape* of the failure (used to match known
// findings); Message is for humans.
type Violation struct {
	Signature string `json:"signature"`
	Message   string `json:"message"`
}

func Violate(sig, format string, args ...any) *Violation {
	return &Violation{Signature: sig, Message: fmt.Sprintf(format, args...)}
}

// Result is the oracle's verdict on one executed case.
type Result struct {
	NonTrivial bool
	Classes    []string
	Violation  *Violation
	// Counts are summed into the sub-check's extra counters (e.g. pairs and triples evaluated inside one case).
	Counts map[string]int
	// Excluded names the open known finding because of which the case was
	// withheld (not executed); it is counted, not evaluated.
	Excluded string
}

// Check is one generated check: a generator over a Source, an executor with an
// oracle.  C is the decoded case and must be JSON-serialisable.
type Check[C any] struct {
	Name      string
	Gen       func(s Source) C
	Exec      func(c C, s Source) Result
	HangLimit time.Duration // 0 = 60 s
	NoJournal bool
	// Bounded: a DFS that stops at its leaf bound is a bounded (non-exhaustive) exploration, not a failure.
	Bounded bool
}

type ReplayFile struct {
	Property  string          `json:"property"`
	Check     string          `json:"check"`
	Signature string          `json:"signature"`
	Message   string          `json:"message"`
	Choices   []uint64        `json:"choices"`
	Case      json.RawMessage `json:"case"`
	Note      string          `json:"note,omitempty"`
}

type KnownHit struct {
	Count  int         `json:"count"`
	Replay *ReplayFile `json:"replay"`
}

type SubResult struct {
	Name        string               `json:"name"`
	Mode        string               `json:"mode"`
	Requested   int                  `json:"requested"`
	Evaluations int                  `json:"evaluations"`
	NonTrivial  int                  `json:"nontrivial"`
	Hashes      []uint64             `json:"hashes"`
	Classes     map[string]int       `json:"classes"`
	Samples     []json.RawMessage    `json:"samples"`
	Violation   *ReplayFile          `json:"violation,omitempty"`
	Known       map[string]*KnownHit `json:"known,omitempty"`
	Excluded    map[string]int       `json:"excluded_known,omitempty"`
	Exhaustive  bool                 `json:"exhaustive"`
	WallS       float64              `json:"wall_s"`
	Incomplete  string               `json:"incomplete,omitempty"`
	Extra       map[string]any       `json:"extra,omitempty"`
}

type RunFile struct {
	Property string       `json:"property"`
	Tier     string       `json:"tier"`
	Seed     uint64       `json:"seed"`
	Shard    int          `json:"shard"`
	NShards  int          `json:"nshards"`
	Subs     []*SubResult `json:"subs"`
	Harness  string       `json:"harness_error,omitempty"`
	Done     bool         `json:"done"`
}

// Runner collects the sub-check results of one test function and writes them
// to $VERIF_OUT for the driver.
type Runner struct {
	T       *testing.T
	Prop    string
	Tier    string
	Seed    uint64
	Shard   int
	NShards int
	out     string
	journal *os.File
	replay  *ReplayFile
	file    RunFile
	open    []Finding
	only    map[string]bool
}

func envInt(name string, def int) int {
	if v := os.Getenv(name); v != "" {
		if n, err := strconv.Atoi(v); err == nil {
			return n
		}
	}
	return def
}

// Begin reads the driver's environment.  Without a driver (plain `go test`) it
// behaves as a quick run with seed 1 and writes nothing.
func Begin(t *testing.T, prop string) *Runner {
	r := &Runner{T: t, Prop: prop}
	r.Tier = os.Getenv("VERIF_TIER")
	if r.Tier == "" {
		r.Tier = "quick"
	}
	seed, _ := strconv.ParseUint(os.Getenv("VERIF_SEED"), 10, 64)
	r.Seed = seed
	r.Shard = envInt("VERIF_SHARD", 0)
	r.NShards = envInt("VERIF_NSHARDS", 1)
	r.out = os.Getenv("VERIF_OUT")
	if only := os.Getenv("VERIF_ONLY"); only != "" {
		r.only = map[string]bool{}
		for _, n := range strings.Split(only, ",") {
			r.only[n] = true
		}
	}
	if p := os.Getenv("VERIF_REPLAY"); p != "" {
		b, err := os.ReadFile(p)
		if err != nil {
			r.fatalHarness("cannot read replay file: " + err.Error())
		}
		var rf ReplayFile
		if err := json.Unmarshal(b, &rf); err != nil {
			r.fatalHarness("cannot decode replay file: " + err.Error())
		}
		r.replay = &rf
	}
	if j := os.Getenv("VERIF_JOURNAL"); j != "" {
		f, err := os.OpenFile(j, os.O_CREATE|os.O_RDWR|os.O_TRUNC, 0o644)
		if err == nil {
			r.journal = f
		}
	}
	r.file = RunFile{Property: prop, Tier: r.Tier, Seed: r.Seed, Shard: r.Shard, NShards: r.NShards}
	r.open = LoadFindings(prop)
	debug.SetMaxStack(256 << 20)
	return r
}

func (r *Runner) Thorough() bool { return r.Tier == "thorough" }

// N picks a budget by tier.
func (r *Runner) N(quick, thorough int) int {
	if r.Thorough() {
		return thorough
	}
	return quick
}

// Ns is N for lists of sizes
func (r *Runner) Ns(quick, thorough []int) []int {
	if r.Thorough() {
		return thorough
	}
	return quick
}

func (r *Runner) fatalHarness(msg string) {
	r.file.Harness = msg
	r.flush()
	fmt.Fprintln(os.Stderr, "HARNESS-ERROR: "+msg)
	os.Exit(4)
}

func (r *Runner) flush() {
	if r.out == "" {
		return
	}
	b, _ := json.Marshal(&r.file)
	tmp := r.out + ".tmp"
	if err := os.WriteFile(tmp, b, 0o644); err == nil {
		os.Rename(tmp, r.out)
	}
}

// End writes the final result file.  A violation fails the Go test as well, so
// that running the harness by hand shows it.
func (r *Runner) End() {
	r.file.Done = true
	r.flush()
	for _, s := range r.file.Subs {
		if s.Violation != nil {
			r.T.Errorf("VIOLATION %s/%s signature=%s\n%s", r.Prop, s.Name, s.Violation.Signature, s.Violation.Message)
		}
	}
}

func (r *Runner) skip(name string) bool {
	if r.replay != nil {
		return r.replay.Check != name
	}
	if r.only != nil && !r.only[name] {
		return true
	}
	return false
}

// OpenFinding reports whether the known finding id is listed as open for this
// property (generators use it to withhold matching inputs).
func (r *Runner) OpenFinding(id string) bool {
	for _, f := range r.open {
		if f.ID == id {
			return true
		}
	}
	return false
}

func (r *Runner) matchKnown(sig string) *Finding {
	for i := range r.open {
		if r.open[i].Matches(sig) {
			return &r.open[i]
		}
	}
	return nil
}

// ---------------------------------------------------------------- execution of one case

type caseState struct {
	mu      sync.Mutex
	active  bool
	started time.Time
	desc    []byte
	choices *Recorder
	name    string
	limit   time.Duration
}

var current caseState
var watchdogOnce sync.Once
var watchdogRunner atomic.Pointer[Runner]

func (r *Runner) startWatchdog() {
	watchdogRunner.Store(r)
	watchdogOnce.Do(func() {
		go func() {
			for {
				time.Sleep(500 * time.Millisecond)
				current.mu.Lock()
				if current.active && time.Since(current.started) > current.limit {
					rr := watchdogRunner.Load()
					rf := &ReplayFile{Property: rr.Prop, Check: current.name, Signature: "hang",
						Message: fmt.Sprintf("the case did not finish within %v (the property requires the call to return)", current.limit),
						Case:    append([]byte(nil), current.desc...)}
					if current.choices != nil {
						rf.Choices = append([]uint64(nil), current.choices.Choices...)
					}
					sub := &SubResult{Name: current.name, Mode: "watchdog", Violation: rf, Evaluations: 1}
					if k := rr.matchKnown("hang"); k != nil {
						sub.Violation = nil
						sub.Known = map[string]*KnownHit{k.ID: {Count: 1, Replay: rf}}
					}
					rr.file.Subs = append(rr.file.Subs, sub)
					rr.file.Done = true
					rr.flush()
					fmt.Fprintf(os.Stderr, "WATCHDOG: %s/%s hang\n", rr.Prop, current.name)
					os.Exit(3)
				}
				current.mu.Unlock()
			}
		}()
	})
}

func isRapidPanic(v any) bool {
	return strings.HasPrefix(fmt.Sprintf("%T", v), "rapid.")
}

// LibraryFrame extracts, from a stack captured inside a deferred recover, the
// first frame after the panic that lies in the library or in the harness.
func panicOrigin(stack string) (where string, inLibrary bool) {
	lines := strings.Split(stack, "\n")
	seenPanic := false
	for i := 0; i+1 < len(lines); i++ {
		l := lines[i]
		if strings.HasPrefix(l, "panic(") || strings.HasPrefix(l, "runtime.gopanic") || strings.HasPrefix(l, "runtime.panic") || strings.HasPrefix(l, "runtime.goPanic") || strings.HasPrefix(l, "runtime.sigpanic") {
			seenPanic = true
			continue
		}
		if !seenPanic {
			continue
		}
		file := strings.TrimSpace(lines[i+1])
		if strings.Contains(file, "/repo/v4/") {
			fn := l
			if k := strings.LastIndex(fn, "("); k > 0 {
				fn = fn[:k]
			}
			if k := strings.LastIndex(fn, "/"); k >= 0 {
				fn = fn[k+1:]
			}
			return fn, true
		}
		if strings.Contains(file, "/verif/harness/") {
			fn := l
			if k := strings.LastIndex(fn, "("); k > 0 {
				fn = fn[:k]
			}
			return fn, false
		}
	}
	return "?", false
}

func execCase[C any](r *Runner, ck *Check[C], c C, desc []byte, rec *Recorder) (res Result) {
	limit := ck.HangLimit
	if limit == 0 {
		limit = 60 * time.Second
	}
	if r.journal != nil && !ck.NoJournal {
		rf := ReplayFile{Property: r.Prop, Check: ck.Name, Signature: "process-death", Case: desc, Choices: rec.Choices,
			Message: "the test process died while executing this case"}
		b, _ := json.Marshal(&rf)
		r.journal.Seek(0, 0)
		r.journal.Write(b)
		r.journal.Truncate(int64(len(b)))
	}
	current.mu.Lock()
	current.active, current.started, current.desc, current.choices, current.name, current.limit = true, time.Now(), desc, rec, ck.Name, limit
	current.mu.Unlock()
	defer func() {
		current.mu.Lock()
		current.active = false
		current.mu.Unlock()
		if r.journal != nil && !ck.NoJournal {
			r.journal.Truncate(0)
		}
		if e := recover(); e != nil {
			if isRapidPanic(e) {
				panic(e)
			}
			if he, ok := e.(HarnessError); ok {
				r.fatalHarness(he.Msg + "\n" + string(debug.Stack()))
			}
			if lh, ok := e.(LibraryHang); ok {
				res = Result{Violation: &Violation{Signature: "hang/blocked-outside-the-controlled-operations", Message: lh.Msg}}
				return
			}
			st := string(debug.Stack())
			where, inLib := panicOrigin(st)
			msg := fmt.Sprint(e)
			if len(msg) > 300 {
				msg = msg[:300] + "..."
			}
			kind := "library"
			if !inLib {
				kind = "harness-frame"
			}
			res = Result{Violation: &Violation{
				Signature: "unexpected-panic/" + kind + "/" + where,
				Message:   fmt.Sprintf("a call that the oracle did not expect to panic panicked: %s\n%s", msg, trimStack(st)),
			}}
		}
	}()
	return ck.Exec(c, rec)
}

func trimStack(st string) string {
	lines := strings.Split(st, "\n")
	if len(lines) > 40 {
		lines = lines[:40]
	}
	return strings.Join(lines, "\n")
}

func hash64(b []byte) uint64 {
	h := fnv.New64a()
	h.Write(b)
	return h.Sum64()
}

type accum struct {
	sub     *SubResult
	hashes  map[uint64]struct{}
	nsample int
	seedMix uint64
}

func newAccum(name, mode string, requested int, seed uint64) *accum {
	return &accum{sub: &SubResult{Name: name, Mode: mode, Requested: requested, Classes: map[string]int{}},
		hashes: map[uint64]struct{}{}, seedMix: seed}
}

func (a *accum) add(desc []byte, choices []uint64, res Result) {
	s := a.sub
	if res.Excluded != "" {
		if s.Excluded == nil {
			s.Excluded = map[string]int{}
		}
		s.Excluded[res.Excluded]++
		return
	}
	s.Evaluations++
	for _, c := range res.Classes {
		s.Classes[c]++
	}
	for k, n := range res.Counts {
		if s.Extra == nil {
			s.Extra = map[string]any{}
		}
		prev, _ := s.Extra[k].(int)
		s.Extra[k] = prev + n
	}
	if res.NonTrivial {
		s.NonTrivial++
		// distinct = distinct (decoded case, choice list): the choices made during execution
		// (schedules) are part of the case
		h := fnv.New64a()
		h.Write(desc)
		var b [8]byte
		for _, c := range choices {
			for i := 0; i < 8; i++ {
				b[i] = byte(c >> (8 * i))
			}
			h.Write(b[:])
		}
		a.hashes[h.Sum64()] = struct{}{}
	}
	// samples: the first three, then a sparse deterministic selection
	n := s.Evaluations
	if len(desc) < 4000 && (len(s.Samples) < 3 || (len(s.Samples) < 10 && n >= a.nextSampleAt())) {
		s.Samples = append(s.Samples, json.RawMessage(append([]byte(nil), desc...)))
	}
}

func (a *accum) nextSampleAt() int {
	// 3 early samples, then at evaluations 50, 250, 1250, ...
	k := len(a.sub.Samples) - 3
	at := 50
	for i := 0; i < k; i++ {
		at *= 5
	}
	return at
}

func (a *accum) finish(start time.Time) *SubResult {
	s := a.sub
	s.Hashes = make([]uint64, 0, len(a.hashes))
	for h := range a.hashes {
		s.Hashes = append(s.Hashes, h)
	}
	sort.Slice(s.Hashes, func(i, j int) bool { return s.Hashes[i] < s.Hashes[j] })
	s.WallS = time.Since(start).Seconds()
	return s
}

func (r *Runner) recordKnown(a *accum, f *Finding, rf *ReplayFile) {
	if a.sub.Known == nil {
		a.sub.Known = map[string]*KnownHit{}
	}
	k := a.sub.Known[f.ID]
	if k == nil {
		k = &KnownHit{Replay: rf}
		a.sub.Known[f.ID] = k
	}
	k.Count++
	if len(rf.Choices) < len(k.Replay.Choices) {
		k.Replay = rf
	}
}

// ---------------------------------------------------------------- rapid driver

type quietTB struct {
	name   string
	failed bool
	logs   []string
}

type tbFailNow struct{}

func (q *quietTB) Helper()      {}
func (q *quietTB) Name() string { return q.name }
func (q *quietTB) Logf(format string, args ...any) {
	q.logs = append(q.logs, fmt.Sprintf(format, args...))
}
func (q *quietTB) Log(args ...any)                   { q.logs = append(q.logs, fmt.Sprint(args...)) }
func (q *quietTB) Skipf(format string, args ...any)  {}
func (q *quietTB) Skip(args ...any)                  {}
func (q *quietTB) SkipNow()                          {}
func (q *quietTB) Errorf(format string, args ...any) { q.failed = true; q.Logf(format, args...) }
func (q *quietTB) Error(args ...any)                 { q.failed = true; q.Log(args...) }
func (q *quietTB) Fatalf(format string, args ...any) {
	q.failed = true
	q.Logf(format, args...)
	panic(tbFailNow{})
}
func (q *quietTB) Fatal(args ...any) { q.failed = true; q.Log(args...); panic(tbFailNow{}) }
func (q *quietTB) FailNow()          { q.failed = true; panic(tbFailNow{}) }
func (q *quietTB) Fail()             { q.failed = true }
func (q *quietTB) Failed() bool      { return q.failed }

func subSeed(seed uint64, prop, name string, shard int) uint64 {
	h := fnv.New64a()
	fmt.Fprintf(h, "%d/%s/%s/%d", seed, prop, name, shard)
	v := h.Sum64()
	if v == 0 {
		v = 1
	}
	return v
}

// Rapid runs n generated cases of ck under rapid (random generation with
// shrinking).  The first unlisted violation ends the sub-check; the shrunk
// choice list becomes the replay.
func Rapid[C any](r *Runner, ck Check[C], n int) *SubResult {
	if r.skip(ck.Name) {
		return nil
	}
	if r.replay != nil {
		return replayOne(r, &ck)
	}
	r.startWatchdog()
	start := time.Now()
	seed := subSeed(r.Seed, r.Prop, ck.Name, r.Shard)
	a := newAccum(ck.Name, "rapid", n, seed)
	a.sub.Extra = map[string]any{"rapid_seed": seed}
	flag.Set("rapid.checks", strconv.Itoa(n))
	flag.Set("rapid.seed", strconv.FormatUint(seed, 10))
	flag.Set("rapid.nofailfile", "true")
	flag.Set("rapid.shrinktime", "20s")
	os.RemoveAll(filepath.Join("testdata", "rapid"))

	var lastFail *ReplayFile
	failing := false
	tb := &quietTB{name: "verif_" + r.Prop + "_" + ck.Name}
	func() {
		defer func() {
			if e := recover(); e != nil {
				if _, ok := e.(tbFailNow); !ok {
					panic(e)
				}
			}
		}()
		rapid.Check(tb, func(rt *rapid.T) {
			rec := &Recorder{Inner: RapidSource{rt}}
			c := ck.Gen(rec)
			desc, err := json.Marshal(c)
			if err != nil {
				panic(HarnessError{"case not serialisable: " + err.Error()})
			}
			res := execCase(r, &ck, c, desc, rec)
			if res.Violation != nil {
				rf := &ReplayFile{Property: r.Prop, Check: ck.Name, Signature: res.Violation.Signature,
					Message: res.Violation.Message, Choices: append([]uint64(nil), rec.Choices...), Case: desc}
				if k := r.matchKnown(res.Violation.Signature); k != nil && !failing {
					r.recordKnown(a, k, rf)
					res.Violation = nil
				} else if k == nil {
					failing = true
					lastFail = rf
					rt.Fatalf("%s: %s", res.Violation.Signature, res.Violation.Message)
				} else {
					// while shrinking an unlisted failure, a listed one is not "the same bug"
					return
				}
			}
			if !failing {
				a.add(desc, rec.Choices, res)
			}
		})
	}()
	if lastFail != nil {
		a.sub.Violation = lastFail
	} else if tb.failed {
		a.sub.Incomplete = "rapid reported a failure without a violation record: " + strings.Join(tb.logs, " | ")
	} else if a.sub.Evaluations+sumInts(a.sub.Excluded) < n {
		a.sub.Incomplete = fmt.Sprintf("only %d of %d requested cases were generated", a.sub.Evaluations, n)
	}
	s := a.finish(start)
	r.file.Subs = append(r.file.Subs, s)
	r.flush()
	return s
}

func sumInts(m map[string]int) int {
	t := 0
	for _, v := range m {
		t += v
	}
	return t
}

// ---------------------------------------------------------------- exhaustive driver

// DFS enumerates every choice sequence of ck.Gen (and of the choices Exec
// makes) and executes each leaf.  With several shards, leaf i is executed by
// shard i mod NShards.  maxLeaves bounds the enumeration (0 = unbounded); if it
// is hit the sub-check is reported as not exhaustive.
func DFS[C any](r *Runner, ck Check[C], maxLeaves int) *SubResult {
	if r.skip(ck.Name) {
		return nil
	}
	if r.replay != nil {
		return replayOne(r, &ck)
	}
	r.startWatchdog()
	start := time.Now()
	a := newAccum(ck.Name, "dfs", maxLeaves, 0)
	d := &DFSSource{}
	leaf := 0
	a.sub.Exhaustive = true
	for {
		rec := &Recorder{Inner: d}
		c := ck.Gen(rec)
		mine := r.NShards <= 1 || leaf%r.NShards == r.Shard
		if mine {
			desc, err := json.Marshal(c)
			if err != nil {
				panic(HarnessError{"case not serialisable: " + err.Error()})
			}
			res := execCase(r, &ck, c, desc, rec)
			if res.Violation != nil {
				rf := &ReplayFile{Property: r.Prop, Check: ck.Name, Signature: res.Violation.Signature,
					Message: res.Violation.Message, Choices: append([]uint64(nil), rec.Choices...), Case: desc}
				if k := r.matchKnown(res.Violation.Signature); k != nil {
					r.recordKnown(a, k, rf)
					res.Violation = nil
				} else {
					a.sub.Violation = rf
					a.sub.Exhaustive = false
					break
				}
			}
			a.add(desc, rec.Choices, res)
		}
		leaf++
		if !d.Next() {
			break
		}
		if maxLeaves > 0 && leaf >= maxLeaves {
			a.sub.Exhaustive = false
			if !ck.Bounded {
				a.sub.Incomplete = fmt.Sprintf("enumeration stopped at the bound of %d leaves", maxLeaves)
			}
			break
		}
	}
	if a.sub.Extra == nil {
		a.sub.Extra = map[string]any{}
	}
	a.sub.Extra["leaves"] = leaf
	s := a.finish(start)
	r.file.Subs = append(r.file.Subs, s)
	r.flush()
	return s
}

// ---------------------------------------------------------------- replay

func replayOne[C any](r *Runner, ck *Check[C]) *SubResult {
	r.startWatchdog()
	start := time.Now()
	a := newAccum(ck.Name, "replay", 1, 0)
	rs := &ReplaySource{Choices: r.replay.Choices}
	rec := &Recorder{Inner: rs}
	c := ck.Gen(rec)
	desc, _ := json.Marshal(c)
	res := execCase(r, ck, c, desc, rec)
	if res.Violation != nil {
		a.sub.Violation = &ReplayFile{Property: r.Prop, Check: ck.Name, Signature: res.Violation.Signature,
			Message: res.Violation.Message, Choices: rec.Choices, Case: desc}
	}
	a.add(desc, rec.Choices, res)
	s := a.finish(start)
	r.file.Subs = append(r.file.Subs, s)
	r.flush()
	return s
}

// ReplayChoices runs one recorded choice list through a check outside any
// driver (used for the witnesses of known findings); it returns the violation
// found, if any.
func ReplayChoices[C any](r *Runner, ck Check[C], choices []uint64) *Violation {
	r.startWatchdog()
	rec := &Recorder{Inner: &ReplaySource{Choices: choices}}
	c := ck.Gen(rec)
	desc, _ := json.Marshal(c)
	res := execCase(r, &ck, c, desc, rec)
	return res.Violation
}

// Custom lets a check with its own driver (stress runs, native fuzz replays)
// contribute a sub-result.
func (r *Runner) Custom(s *SubResult) {
	r.file.Subs = append(r.file.Subs, s)
	r.flush()
}

// Skip tells whether the named sub-check is deselected (replay of another
// sub-check, or VERIF_ONLY).
func (r *Runner) Skip(name string) bool { return r.skip(name) }

// ReplayOf returns the replay file when the run is a replay.
func (r *Runner) ReplayOf() *ReplayFile { return r.replay }

// Stress runs n cases generated from hash-derived sources (no shrinking: the
// outcome of a stress case depends on the OS scheduler, so a failure is reported
// with the case and seed as they are).  Used for the race-detector runs.
func Stress[C any](r *Runner, ck Check[C], n int) *SubResult {
	if r.skip(ck.Name) {
		return nil
	}
	if r.replay != nil {
		return replayOne(r, &ck)
	}
	r.startWatchdog()
	start := time.Now()
	seed := subSeed(r.Seed, r.Prop, ck.Name, r.Shard)
	a := newAccum(ck.Name, "stress", n, seed)
	for i := 0; i < n; i++ {
		rec := &Recorder{Inner: &HashSource{Seed: seed + uint64(i)*7919}}
		c := ck.Gen(rec)
		desc, err := json.Marshal(c)
		if err != nil {
			panic(HarnessError{"case not serialisable: " + err.Error()})
		}
		res := execCase(r, &ck, c, desc, rec)
		if res.Violation != nil {
			rf := &ReplayFile{Property: r.Prop, Check: ck.Name, Signature: res.Violation.Signature,
				Message: res.Violation.Message, Choices: append([]uint64(nil), rec.Choices...), Case: desc,
				Note: "stress case: the outcome depends on the OS scheduler; not shrunk"}
			if k := r.matchKnown(res.Violation.Signature); k != nil {
				r.recordKnown(a, k, rf)
				res.Violation = nil
			} else {
				a.sub.Violation = rf
				break
			}
		}
		a.add(desc, rec.Choices, res)
	}
	s := a.finish(start)
	r.file.Subs = append(r.file.Subs, s)
	r.flush()
	return s
}
