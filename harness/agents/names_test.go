package agents

import (
	"fmt"

	age "github.com/craterdog/go-collection-framework/v4/agent"
	"verifharness/agents/twin"
	"verifharness/core"
	"verifharness/lib"
)

// ---------------------------------------------------------------- what the collator remembers about types

// ---- one struct type, ranked by value and through pointers

// A struct with exported fields and pointer-receiver getters has two faces: through a pointer it is ranked by its
// getters, by value it is ranked field by field (the getters are not in the method set of a value).  Whatever a
// collator remembers about a type must keep the two apart, in whichever order they were first seen.  The getter
// orders by -N, the field by N, so the two faces give opposite answers.
type face[T any] struct {
	N int
	V T
}

func (f *face[T]) GetOrder() int { return -f.N }

type faceCase struct {
	Type        int  `json:"type"`
	ValuesFirst bool `json:"values_first"`
}

var faceRunners = []func(bool) *core.Violation{
	runFaces[int], runFaces[int8], runFaces[int16], runFaces[int32], runFaces[int64], runFaces[uint], runFaces[uint8], runFaces[uint16],
	runFaces[uint32], runFaces[uint64], runFaces[float32], runFaces[float64], runFaces[string], runFaces[bool], runFaces[[]int], runFaces[any],
}

func runFaces[T any](valuesFirst bool) *core.Violation {
	var zero T
	name := fmt.Sprintf("face[%T]", zero)
	c := age.Collator[any]().Make()
	byValue := func() *core.Violation {
		for a := 0; a < 3; a++ {
			for b := 0; b < 3; b++ {
				want := rankOf(a, b)
				var got age.Rank
				var eq bool
				if p, payload := lib.Call(func() {
					got = c.RankValues(face[T]{N: a}, face[T]{N: b})
					eq = age.Collator[any]().Make().CompareValues(face[T]{N: a}, face[T]{N: b})
				}); p {
					return core.Violate("C07/faces/panicked", "ranking two %s values (values ranked %s): %s", name, order(valuesFirst), lib.Short(payload))
				}
				if got != want || eq != (a == b) {
					return core.Violate("C07/faces/by-value", "%s values with N=%d and N=%d (values ranked %s): RankValues = %v, CompareValues = %v, expected %v and %v", name, a, b, order(valuesFirst), got, eq, want, a == b)
				}
			}
		}
		return nil
	}
	byPointer := func() *core.Violation {
		for a := 0; a < 3; a++ {
			for b := 0; b < 3; b++ {
				want := rankOf(b, a) // the getter orders by -N
				var got age.Rank
				var eq bool
				if p, payload := lib.Call(func() {
					got = c.RankValues(&face[T]{N: a}, &face[T]{N: b})
					eq = age.Collator[any]().Make().CompareValues(&face[T]{N: a}, &face[T]{N: b})
				}); p {
					return core.Violate("C07/faces/panicked", "ranking two pointers to %s (values ranked %s): %s", name, order(valuesFirst), lib.Short(payload))
				}
				if got != want || eq != (a == b) {
					return core.Violate("C07/faces/through-pointers", "pointers to %s with N=%d and N=%d (values ranked %s): RankValues = %v, CompareValues = %v, expected %v and %v", name, a, b, order(valuesFirst), got, eq, want, a == b)
				}
			}
		}
		return nil
	}
	steps := []func() *core.Violation{byPointer, byValue, byPointer}
	if valuesFirst {
		steps = []func() *core.Violation{byValue, byPointer, byValue}
	}
	for _, step := range steps {
		if v := step(); v != nil {
			return v
		}
	}
	return nil
}

func order(valuesFirst bool) string {
	if valuesFirst {
		return "first"
	}
	return "after the pointers"
}

func rankOf(a, b int) age.Rank {
	switch {
	case a < b:
		return age.LesserRank
	case a > b:
		return age.GreaterRank
	}
	return age.EqualRank
}

func execFaces(prop string) func(faceCase, core.Source) core.Result {
	return func(c faceCase, _ core.Source) (res core.Result) {
		res.Violation = faceRunners[c.Type%len(faceRunners)](c.ValuesFirst)
		if res.Violation != nil && prop == "C08" {
			res.Violation.Signature = "C08" + res.Violation.Signature[3:]
		}
		res.NonTrivial = true
		return
	}
}

func genFaces(s core.Source) faceCase {
	t := s.Choose(len(faceRunners), "type")
	return faceCase{Type: t, ValuesFirst: t%2 == 0} // every type is new to the process exactly once
}

// ---- two types with one name

type Point struct{ X, Y int }
type Weekday int
type Label string
type Record struct {
	Name string
	N    int
}

func (r *Record) GetName() string { return r.Name }

type twinCase struct {
	Pair  int  `json:"pair"`
	Local bool `json:"local_first"`
}

var twinPairs = []struct {
	name        string
	local, away any
}{
	{"Point{1, 2}", Point{1, 2}, twin.Point{X: 1, Y: 2}},
	{"Weekday(3)", Weekday(3), twin.Weekday(3)},
	{"Label(\"x\")", Label("x"), twin.Label("x")},
	{"&Record{\"r\", 1}", &Record{"r", 1}, &twin.Record{Name: "r", N: 1}},
	{"[]any{\"a\", Weekday(3)}", []any{"a", Weekday(3)}, []any{"a", twin.Weekday(3)}},
	{"[]Point{{1, 2}}", []Point{{1, 2}}, []twin.Point{{X: 1, Y: 2}}},
}

func execTwins(prop string) func(twinCase, core.Source) core.Result {
	return func(c twinCase, _ core.Source) (res core.Result) {
		p := twinPairs[c.Pair%len(twinPairs)]
		a, b := p.local, p.away
		if !c.Local {
			a, b = b, a
		}
		collator := age.Collator[any]().Make()
		var ab, ba, aa, bb age.Rank
		var eq, eqa bool
		if pn, payload := lib.Call(func() {
			aa, bb = collator.RankValues(a, a), collator.RankValues(b, b)
			ab, ba = collator.RankValues(a, b), collator.RankValues(b, a)
			eq, eqa = age.Collator[any]().Make().CompareValues(a, b), age.Collator[any]().Make().CompareValues(a, a)
		}); pn {
			res.Violation = core.Violate(prop+"/same-named-types/panicked", "%s of this package and of another one: %s", p.name, lib.Short(payload))
			return
		}
		switch {
		case aa != age.EqualRank || bb != age.EqualRank || !eqa:
			res.Violation = core.Violate(prop+"/same-named-types/not-reflexive", "%s: a value does not rank or compare equal to itself (%v, %v, %v)", p.name, aa, bb, eqa)
		case eq || ab == age.EqualRank || ba != mirrorRank(ab):
			res.Violation = core.Violate(prop+"/same-named-types/conflated", "%s of this package and the value of the type with the same name in another package are values of different types: CompareValues = %v, RankValues = %v and reversed %v", p.name, eq, ab, ba)
		}
		res.NonTrivial = true
		return
	}
}

func genTwins(s core.Source) twinCase {
	return twinCase{Pair: s.Choose(len(twinPairs), "pair"), Local: s.Choose(2, "local-first") == 1}
}
