package agents

import (
	"fmt"
	"sort"

	age "github.com/craterdog/go-collection-framework/v4/agent"
	col "github.com/craterdog/go-collection-framework/v4/collection"
	"verifharness/core"
	"verifharness/lib"
	"verifharness/model"
)

// ---------------------------------------------------------------- ranked, then changed, then ranked again

// A collection that was ranked or compared once is changed through its own methods -- in particular by changes that
// give it its old size back -- and ranked again.  The oracle is an instance without a past: a collection of the same
// kind freshly built from the reference content must rank Equal with the subject (both ways) and compare equal, and
// the subject must rank against a third, fixed value exactly as the fresh instance does.  Which rank that is, is not
// prescribed here (composite-pools does that): only that what a collator says depends on the content, not on what it
// or the collection saw before.

type pastOp struct {
	Op   int  `json:"op"`
	A    int  `json:"a"`
	B    int  `json:"b"`
	Look bool `json:"look"`
}

type rankPastCase struct {
	Kind     string   `json:"kind"`
	Init     []int    `json:"init"`
	Ops      []pastOp `json:"ops"`
	Shared   bool     `json:"one_collator"`
	LookInit bool     `json:"ranked_before"`
}

var pastKinds = []string{"List", "Set", "Stack", "Catalog", "Map"}

func genRankPast(s core.Source) rankPastCase {
	c := rankPastCase{Kind: core.Pick(s, pastKinds, "kind"), Shared: s.Choose(2, "shared") == 0, LookInit: s.Choose(4, "ranked-before") != 0}
	for k, n := 0, s.Choose(5, "size"); k < n; k++ {
		c.Init = append(c.Init, s.Choose(6, "v"))
	}
	for k, n := 0, 1+s.Choose(6, "ops"); k < n; k++ {
		c.Ops = append(c.Ops, pastOp{Op: s.Choose(7, "op"), A: s.Choose(6, "a"), B: s.Choose(8, "b"), Look: s.Choose(3, "look") == 0})
	}
	return c
}

// pastSubject is one kind: the library instance, its reference content and a builder of fresh instances.
type pastSubject struct {
	value any
	apply func(o pastOp) (string, bool) // performs the operation on both sides; false if it does not apply
	fresh func() any
	show  func() string
}

func newPastSubject(kind string, init []int) *pastSubject {
	n := model.Notation()
	switch kind {
	case "List", "Stack":
		var ref []int
		ref = append(ref, init...)
		if kind == "Stack" {
			x := col.Stack[any](n).Make()
			for _, v := range ref {
				x.AddValue(int64(v))
			}
			return &pastSubject{value: x, show: func() string { return fmt.Sprint(ref) },
				fresh: func() any {
					y := col.Stack[any](n).Make()
					for _, v := range ref {
						y.AddValue(int64(v))
					}
					return y
				},
				apply: func(o pastOp) (string, bool) {
					switch o.Op % 3 {
					case 0:
						x.AddValue(int64(o.B))
						ref = append(ref, o.B)
						return fmt.Sprintf("AddValue(%d)", o.B), true
					case 1:
						if len(ref) == 0 {
							return "", false
						}
						x.RemoveTop()
						ref = ref[:len(ref)-1]
						return "RemoveTop()", true
					}
					x.RemoveAll()
					ref = nil
					return "RemoveAll()", true
				}}
		}
		x := col.List[any](n).Make()
		for _, v := range ref {
			x.AppendValue(int64(v))
		}
		return &pastSubject{value: x, show: func() string { return fmt.Sprint(ref) },
			fresh: func() any {
				y := col.List[any](n).Make()
				for _, v := range ref {
					y.AppendValue(int64(v))
				}
				return y
			},
			apply: func(o pastOp) (string, bool) {
				switch o.Op {
				case 0:
					x.AppendValue(int64(o.B))
					ref = append(ref, o.B)
					return fmt.Sprintf("AppendValue(%d)", o.B), true
				case 1:
					if len(ref) == 0 {
						return "", false
					}
					i := o.A % len(ref)
					x.RemoveValue(i + 1)
					ref = append(ref[:i:i], ref[i+1:]...)
					return fmt.Sprintf("RemoveValue(%d)", i+1), true
				case 2:
					i := o.A % (len(ref) + 1)
					x.InsertValue(uint(i), int64(o.B))
					ref = append(ref[:i:i], append([]int{o.B}, ref[i:]...)...)
					return fmt.Sprintf("InsertValue(%d, %d)", i, o.B), true
				case 3:
					if len(ref) == 0 {
						return "", false
					}
					i := o.A % len(ref)
					x.SetValue(i+1, int64(o.B))
					ref = append([]int(nil), ref...)
					ref[i] = o.B
					return fmt.Sprintf("SetValue(%d, %d)", i+1, o.B), true
				case 4:
					x.SortValues()
					ref = append([]int(nil), ref...)
					sort.Ints(ref)
					return "SortValues()", true
				case 5:
					x.ReverseValues()
					r := make([]int, len(ref))
					for k, v := range ref {
						r[len(ref)-1-k] = v
					}
					ref = r
					return "ReverseValues()", true
				}
				x.RemoveAll()
				ref = nil
				return "RemoveAll()", true
			}}
	case "Set":
		ref := map[int]bool{}
		x := col.Set[any](n).Make()
		for _, v := range init {
			x.AddValue(int64(v))
			ref[v] = true
		}
		return &pastSubject{value: x, show: func() string { return fmt.Sprint(ref) },
			fresh: func() any {
				y := col.Set[any](n).Make()
				for v := range ref {
					y.AddValue(int64(v))
				}
				return y
			},
			apply: func(o pastOp) (string, bool) {
				switch o.Op % 3 {
				case 0:
					x.AddValue(int64(o.B))
					ref[o.B] = true
					return fmt.Sprintf("AddValue(%d)", o.B), true
				case 1:
					x.RemoveValue(int64(o.B))
					delete(ref, o.B)
					return fmt.Sprintf("RemoveValue(%d)", o.B), true
				}
				if o.A != 0 {
					return "", false
				}
				x.RemoveAll()
				ref = map[int]bool{}
				return "RemoveAll()", true
			}}
	}
	// Catalog and Map: keys are the numbers, values are drawn from B.
	type pair struct{ k, v int }
	var ref []pair
	find := func(k int) int {
		for i, p := range ref {
			if p.k == k {
				return i
			}
		}
		return -1
	}
	set := func(k, v int) {
		if i := find(k); i >= 0 {
			ref = append([]pair(nil), ref...)
			ref[i].v = v
		} else {
			ref = append(ref[:len(ref):len(ref)], pair{k, v})
		}
	}
	type keyed interface {
		SetValue(key any, value any)
		RemoveValue(key any) any
		RemoveAll()
	}
	var x keyed
	var make_ func() keyed
	if kind == "Catalog" {
		make_ = func() keyed { return col.Catalog[any, any](n).Make() }
	} else {
		make_ = func() keyed { return col.Map[any, any](n).Make() }
	}
	x = make_()
	for i, k := range init {
		x.SetValue(int64(k), int64(i))
		set(k, i)
	}
	return &pastSubject{value: x, show: func() string { return fmt.Sprint(ref) },
		fresh: func() any {
			y := make_()
			for _, p := range ref {
				y.SetValue(int64(p.k), int64(p.v))
			}
			return y
		},
		apply: func(o pastOp) (string, bool) {
			switch o.Op {
			case 0, 1, 2:
				x.SetValue(int64(o.A), int64(o.B))
				set(o.A, o.B)
				return fmt.Sprintf("SetValue(%d, %d)", o.A, o.B), true
			case 3, 4:
				i := find(o.A)
				if i < 0 {
					return "", false
				}
				x.RemoveValue(int64(o.A))
				ref = append(ref[:i:i], ref[i+1:]...)
				return fmt.Sprintf("RemoveValue(%d)", o.A), true
			case 5:
				c, ok := x.(col.CatalogLike[any, any])
				if !ok {
					return "", false
				}
				c.ReverseValues()
				r := make([]pair, len(ref))
				for k, p := range ref {
					r[len(ref)-1-k] = p
				}
				ref = r
				return "ReverseValues()", true
			}
			x.RemoveAll()
			ref = nil
			return "RemoveAll()", true
		}}
}

func execRankPast(prop string) func(rankPastCase, core.Source) core.Result {
	return func(c rankPastCase, _ core.Source) (res core.Result) {
		res.Classes = append(res.Classes, "kind-"+c.Kind)
		history := []string{fmt.Sprintf("%s of %v", c.Kind, c.Init)}
		panicked, payload := lib.Call(func() {
			one := age.Collator[any]().Make()
			collator := func() age.CollatorLike[any] {
				if c.Shared {
					return one
				}
				return age.Collator[any]().Make()
			}
			s := newPastSubject(c.Kind, c.Init)
			first := s.fresh()
			looks, changes := 0, 0
			look := func() {
				looks++
				f := s.fresh()
				if a, b := collator().RankValues(s.value, f), collator().RankValues(f, s.value); a != age.EqualRank || b != age.EqualRank {
					res.Violation = core.Violate(prop+"/ranked-then-changed/own-content", "after %v the %s holds %s, but it ranks %v against (and %v from) a fresh %s with that content", history, c.Kind, s.show(), a, b, c.Kind)
					return
				}
				if !collator().CompareValues(s.value, f) || !collator().CompareValues(f, s.value) {
					res.Violation = core.Violate(prop+"/ranked-then-changed/compare", "after %v the %s holds %s, but CompareValues denies that it equals a fresh %s with that content", history, c.Kind, s.show(), c.Kind)
					return
				}
				if a, b := collator().RankValues(s.value, first), collator().RankValues(f, first); a != b {
					res.Violation = core.Violate(prop+"/ranked-then-changed/third-value", "after %v the %s holds %s and ranks %v against its first content, a fresh %s with that content ranks %v", history, c.Kind, s.show(), a, c.Kind, b)
					return
				}
				if a, b := collator().CompareValues(first, s.value), collator().CompareValues(first, f); a != b {
					res.Violation = core.Violate(prop+"/ranked-then-changed/third-value", "after %v the %s holds %s and CompareValues(first content, it) is %v, with a fresh %s of that content %v", history, c.Kind, s.show(), a, c.Kind, b)
				}
			}
			if c.LookInit {
				look()
			}
			for _, o := range c.Ops {
				if res.Violation != nil {
					return
				}
				if what, ok := s.apply(o); ok {
					changes++
					history = append(history, what)
					if o.Look {
						history = append(history, "ranked")
						look()
					}
				}
			}
			if res.Violation == nil {
				look()
			}
			res.NonTrivial = looks >= 2 && changes >= 2
			res.Counts = map[string]int{"rankings": looks * 4}
		})
		if panicked && res.Violation == nil {
			res.Violation = core.Violate(prop+"/ranked-then-changed/panicked", "after %v: %s", history, lib.Short(payload))
		}
		return
	}
}
