package agents

import (
	"fmt"
	"math"

	age "github.com/craterdog/go-collection-framework/v4/agent"
	col "github.com/craterdog/go-collection-framework/v4/collection"
	"verifharness/core"
	"verifharness/lib"
	"verifharness/model"
)

// ---------------------------------------------------------------- primitives of different Go types under one Collator[any]

// A Set[any] or a sort of []any may hold a uint8 next to a uint16, an int next to an int64, a float32 next
// to a float64.  Which of two such values comes first is the implementation's business; that the answers
// form a preorder (reflexive, mirrored, transitive), do not depend on earlier calls and agree with
// CompareValues is what C07 and C08 require.  The pool holds, for every numeric type, values on both sides of
// the ranges of the narrower types.
var mixedPool = func() []any {
	out := []any{nil, false, true, "", "a", "b", 'a', 'b', rune(0), complex(1, 2), complex(1, -2), complex64(complex(1, 2)),
		float32(0), float32(1.5), float32(-2), float32(300), float64(0), 1.5, -2.0, 300.0, math.Copysign(0, -1), 1e300,
		// a float64 that a float32 cannot hold exactly, next to the float32 it would round to; beyond the float32
		// range next to float32 infinity; below the smallest float32 next to zero
		float32(0.1), 0.1, float64(float32(0.1)), 1 + 1e-12, float32(1), float32(math.Inf(1)), math.Inf(1), 5e-324, float32(math.MaxFloat32), math.MaxFloat32 * 2}
	for _, v := range []uint64{0, 1, 127, 128, 255} {
		out = append(out, uint8(v), uint16(v), uint32(v), uint64(v), uint(v), int16(v), int32(v), int64(v), int(v))
	}
	for _, v := range []int64{-1, -128, 127} {
		out = append(out, int8(v), int16(v), int32(v), int64(v), int(v))
	}
	for _, v := range []uint64{256, 257, 65535} {
		out = append(out, uint16(v), uint32(v), uint64(v), uint(v), int32(v), int64(v), int(v))
	}
	for _, v := range []uint64{65536, 1 << 31, 1<<32 - 1} {
		out = append(out, uint32(v), uint64(v), uint(v), int64(v), int(v))
	}
	for _, v := range []uint64{1 << 32, 1<<63 - 1} {
		out = append(out, uint64(v), uint(v), int64(v), int(v))
	}
	out = append(out, uint64(1<<63), uint(1<<63), uint64(math.MaxUint64), int64(math.MinInt64), int(math.MinInt64), int16(-32768), int32(math.MinInt32))
	return out
}()

type mixedCase struct {
	I int `json:"i"`
}

func showMixed(v any) string { return fmt.Sprintf("%T(%v)", v, v) }

func execMixed(prop string) func(mixedCase, core.Source) core.Result {
	return func(c mixedCase, _ core.Source) (res core.Result) {
		pool := mixedPool
		n := len(pool)
		i := c.I % n
		reused := age.Collator[any]().Make()
		reusedCompare := age.Collator[any]().Make()
		rank := func(a, b any) (r age.Rank, eq bool, v *core.Violation) {
			if p, payload := lib.Call(func() { r, eq = reused.RankValues(a, b), reusedCompare.CompareValues(a, b) }); p {
				return r, eq, core.Violate(prop+"/mixed/panicked", "ranking/comparing %s and %s panicked: %s", showMixed(a), showMixed(b), lib.Short(payload))
			}
			if fr := age.Collator[any]().Make().RankValues(a, b); fr != r {
				return r, eq, core.Violate("C07/mixed/depends-on-earlier-calls", "RankValues(%s, %s) = %v on a reused collator, %v on a fresh one", showMixed(a), showMixed(b), r, fr)
			}
			if eq != (r == age.EqualRank) {
				return r, eq, core.Violate("C08/mixed/compare-vs-rank", "CompareValues(%s, %s) = %v but RankValues = %v", showMixed(a), showMixed(b), eq, r)
			}
			return r, eq, nil
		}
		row := make([]age.Rank, n) // rank(pool[i], pool[j])
		for j := 0; j < n; j++ {
			r, _, v := rank(pool[i], pool[j])
			if v != nil {
				res.Violation = v
				return
			}
			row[j] = r
			back, _, v := rank(pool[j], pool[i])
			if v != nil {
				res.Violation = v
				return
			}
			if back != mirrorRank(r) {
				res.Violation = core.Violate(prop+"/mixed/not-mirrored", "RankValues(%s, %s) = %v but reversed = %v", showMixed(pool[i]), showMixed(pool[j]), r, back)
				return
			}
		}
		if row[i] != age.EqualRank {
			res.Violation = core.Violate(prop+"/mixed/not-reflexive", "RankValues(%s, itself) = %v", showMixed(pool[i]), row[i])
			return
		}
		for j := 0; j < n; j++ {
			if row[j] == age.GreaterRank {
				continue
			}
			for k := 0; k < n; k++ {
				jk, _, v := rank(pool[j], pool[k])
				if v != nil {
					res.Violation = v
					return
				}
				if jk != age.GreaterRank && row[k] == age.GreaterRank {
					res.Violation = core.Violate(prop+"/mixed/not-transitive", "%s <= %s <= %s but the first ranks after the third", showMixed(pool[i]), showMixed(pool[j]), showMixed(pool[k]))
					return
				}
				if row[j] == age.EqualRank && jk == age.EqualRank && row[k] != age.EqualRank {
					res.Violation = core.Violate(prop+"/mixed/equality-not-transitive", "%s = %s = %s but the first and the third are not equal", showMixed(pool[i]), showMixed(pool[j]), showMixed(pool[k]))
					return
				}
			}
		}
		res.NonTrivial = true
		res.Counts = map[string]int{"pairs": 2 * n, "triples": n * n}
		return
	}
}

func genMixed(s core.Source) mixedCase { return mixedCase{I: s.Choose(len(mixedPool), "i")} }

// ---------------------------------------------------------------- collators with a tight traversal limit

// MakeWithMaximum(m) bounds the nesting the collator follows.  Whether a pair is within the limit must not
// depend on the order in which the two values are passed: either both orders end with the depth-limit panic or
// both return, mirrored.  With m equal to the nesting depth of the deeper value the pair is within the limit
// and ranks as under the default collator.
func execTightMaximum(c poolCase, _ core.Source) (res core.Result) {
	n := len(c.Vals)
	objs := make([]any, n)
	for i, v := range c.Vals {
		objs[i] = model.Build(v)
	}
	def := age.Collator[any]().Make()
	outcome := func(col age.CollatorLike[any], a, b any) (age.Rank, bool, any) {
		var r age.Rank
		p, payload := lib.Call(func() { r = col.RankValues(a, b) })
		return r, p, payload
	}
	limited := 0
	for i := 0; i < n; i++ {
		for j := 0; j < n; j++ {
			depth := max(c.Vals[i].Depth(), c.Vals[j].Depth())
			want := def.RankValues(objs[i], objs[j])
			for m := max(depth-1, 1); m <= depth+1; m++ {
				tight := age.Collator[any]().MakeWithMaximum(m)
				r1, p1, payload1 := outcome(tight, objs[i], objs[j])
				r2, p2, _ := outcome(age.Collator[any]().MakeWithMaximum(m), objs[j], objs[i])
				if p1 != p2 {
					res.Violation = core.Violate("C07/tight-maximum/one-order-only", "with MakeWithMaximum(%d), RankValues(%v, %v) panicked=%v but the opposite order panicked=%v (nesting depths %d and %d)", m, c.Vals[i], c.Vals[j], p1, p2, c.Vals[i].Depth(), c.Vals[j].Depth())
					return
				}
				if p1 {
					limited++
					if m >= depth && depth >= 1 {
						res.Violation = core.Violate("C07/tight-maximum/refused-within-the-limit", "MakeWithMaximum(%d) refused to rank %v and %v, nested %d and %d deep: %s", m, c.Vals[i], c.Vals[j], c.Vals[i].Depth(), c.Vals[j].Depth(), lib.Short(payload1))
						return
					}
					continue
				}
				if r2 != mirrorRank(r1) {
					res.Violation = core.Violate("C07/tight-maximum/not-mirrored", "with MakeWithMaximum(%d), RankValues(%v, %v) = %v but reversed = %v", m, c.Vals[i], c.Vals[j], r1, r2)
					return
				}
				if r1 != want {
					res.Violation = core.Violate("C07/tight-maximum/differs-from-default", "MakeWithMaximum(%d) ranks %v and %v as %v, the default collator as %v", m, c.Vals[i], c.Vals[j], r1, want)
					return
				}
			}
		}
	}
	res.NonTrivial = n >= 2
	if limited > 0 {
		res.Classes = append(res.Classes, "some-pair-beyond-the-limit")
	}
	return
}

// ---------------------------------------------------------------- maps whose keys only look alike

// Two maps may use different key objects that the collator calls equal: lists of equal content, an int8 and
// an int64 of the same value.  Ranking pairs the keys in sorted order and must then read each map's value
// with that map's own key.  The check builds two maps over the same key groups, each with its own
// representative of every group: the ranks of the two orders mirror each other, the maps rank Equal exactly
// when the values agree group by group, and CompareValues says the same.
type mapKeysCase struct {
	Form   string `json:"form"`   // gomap | Map | Catalog
	Groups []int  `json:"groups"` // key groups used
	RepA   int    `json:"rep_a"`
	RepB   int    `json:"rep_b"`
	ValsA  []int  `json:"vals_a"`
	ValsB  []int  `json:"vals_b"`
	// Double: the group is present twice in each map, through two representatives that are different keys for
	// Go and one key for the collator (gomap and Map forms); ValsA2/ValsB2 are the values under the second one
	Double []bool `json:"double,omitempty"`
	ValsA2 []int  `json:"vals_a2,omitempty"`
	ValsB2 []int  `json:"vals_b2,omitempty"`
}

func keyGroup(g, rep int) any {
	n := lib.Notation()
	switch g {
	case 0:
		return []any{int8(1), int64(1), int(1)}[rep%3]
	case 1:
		return "k"
	case 2: // a list of its own for every call: equal content, another object
		return col.List[any](n).MakeFromArray([]any{int64(1), "x"})
	case 3:
		return []any{uint16(2), uint64(2), uint(2)}[rep%3]
	case 4:
		return col.Set[any](n).MakeFromArray([]any{int64(5)})
	case 5: // the same complex number in both widths
		return []any{complex64(complex(1, 2)), complex(1, 2)}[rep%2]
	case 6: // the same float in both widths
		return []any{float32(1.5), 1.5}[rep%2]
	case 7: // a pointer of its own for every call, to an equal number
		p := new(int64)
		*p = 7
		return p
	case 8: // a complex number with an undefined part: not equal to itself for Go, one key for the collator
		return complex(math.NaN(), 1)
	default: // the wider unsigned types
		return []any{uint32(9), uint64(9), uint(9)}[rep%3]
	}
}

const keyGroups = 10

func execMapKeys(prop string) func(mapKeysCase, core.Source) core.Result {
	return func(c mapKeysCase, _ core.Source) (res core.Result) {
		n := lib.Notation()
		doubled := func(i int) bool { return i < len(c.Double) && c.Double[i] && c.Form != "Catalog" && c.Groups[i] != 1 }
		build := func(rep int, vals, vals2 []int) any {
			switch c.Form {
			case "gomap":
				m := map[any]any{}
				for i, g := range c.Groups {
					m[keyGroup(g, rep)] = int64(vals[i])
					if doubled(i) {
						m[keyGroup(g, rep+1)] = int64(vals2[i])
					}
				}
				return m
			case "Map":
				m := col.Map[any, any](n).Make()
				for i, g := range c.Groups {
					m.SetValue(keyGroup(g, rep), int64(vals[i]))
					if doubled(i) {
						m.SetValue(keyGroup(g, rep+1), int64(vals2[i]))
					}
				}
				return m
			}
			m := col.Catalog[any, any](n).Make()
			for i, g := range c.Groups {
				m.SetValue(keyGroup(g, rep), int64(vals[i]))
			}
			return m
		}
		a, b := build(c.RepA, c.ValsA, c.ValsA2), build(c.RepB, c.ValsB, c.ValsB2)
		// the maps agree when, group by group, they hold the same values (as a multiset where a group is doubled)
		same := true
		anyDoubled := false
		for i := range c.Groups {
			if doubled(i) {
				anyDoubled = true
				a1, a2, b1, b2 := c.ValsA[i], c.ValsA2[i], c.ValsB[i], c.ValsB2[i]
				same = same && ((a1 == b1 && a2 == b2) || (a1 == b2 && a2 == b1))
			} else {
				same = same && c.ValsA[i] == c.ValsB[i]
			}
		}
		collator := age.Collator[any]().Make()
		var ab, ba age.Rank
		var eq bool
		desc := fmt.Sprintf("two %ss over the key groups %v (representatives %d and %d) with the values %v and %v", c.Form, c.Groups, c.RepA, c.RepB, c.ValsA, c.ValsB)
		if p, payload := lib.Call(func() {
			ab, ba, eq = collator.RankValues(a, b), collator.RankValues(b, a), age.Collator[any]().Make().CompareValues(a, b)
		}); p {
			res.Violation = core.Violate(prop+"/map-keys/panicked", "%s: ranking or comparing panicked: %s", desc, lib.Short(payload))
			return
		}
		if anyDoubled {
			res.Classes = append(res.Classes, "equal-ranking-keys-within-one-map")
			// which of two equally ranked keys Go's map iteration meets first must not matter
			for round := 0; round < 6 && res.Violation == nil; round++ {
				lib.Call(func() {
					if r := collator.RankValues(a, b); r != ab {
						res.Violation = core.Violate("C07/map-keys/not-deterministic", "%s: RankValues = %v, then %v for the same two maps", desc, ab, r)
					} else if e := age.Collator[any]().Make().CompareValues(a, b); e != eq && prop == "C08" {
						res.Violation = core.Violate("C08/map-keys/not-deterministic", "%s: CompareValues = %v, then %v for the same two maps", desc, eq, e)
					}
				})
			}
			if res.Violation != nil {
				return
			}
		}
		switch {
		case prop == "C08" && eq != same:
			res.Violation = core.Violate("C08/map-keys/compare-vs-content", "%s: CompareValues = %v although the values agree = %v (RankValues = %v)", desc, eq, same, ab)
		case ba != mirrorRank(ab):
			res.Violation = core.Violate("C07/map-keys/not-mirrored", "%s: RankValues = %v, reversed = %v", desc, ab, ba)
		case (ab == age.EqualRank) != same:
			res.Violation = core.Violate("C07/map-keys/wrong-rank", "%s: RankValues = %v although the values agree = %v", desc, ab, same)
		case prop == "C08" && eq != same:
			res.Violation = core.Violate("C08/map-keys/compare-vs-content", "%s: CompareValues = %v although the values agree = %v (RankValues = %v)", desc, eq, same, ab)
		}
		res.NonTrivial = len(c.Groups) > 0
		res.Classes = append(res.Classes, "form-"+c.Form)
		return
	}
}

func genMapKeys(s core.Source) mapKeysCase {
	c := mapKeysCase{Form: core.Pick(s, []string{"gomap", "Map", "Catalog"}, "form"), RepA: s.Choose(3, "rep-a"), RepB: s.Choose(3, "rep-b")}
	c.Groups = []int{}
	for g := 0; g < keyGroups; g++ {
		if s.Choose(3, "use-group") == 1 {
			c.Groups = append(c.Groups, g)
			c.ValsA = append(c.ValsA, s.Choose(2, "va"))
			c.ValsB = append(c.ValsB, s.Choose(2, "vb"))
			c.Double = append(c.Double, s.Choose(3, "double") == 0)
			c.ValsA2 = append(c.ValsA2, s.Choose(3, "va2"))
			c.ValsB2 = append(c.ValsB2, s.Choose(3, "vb2"))
		}
	}
	return c
}
