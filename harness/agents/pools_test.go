package agents

import (
	"fmt"
	"math"
	"sort"

	age "github.com/craterdog/go-collection-framework/v4/agent"
	col "github.com/craterdog/go-collection-framework/v4/collection"
	"verifharness/core"
	"verifharness/lib"
	"verifharness/model"
)

// ---------------------------------------------------------------- pools of related composite values under Collator[any]

type poolCase struct {
	Vals  []model.Val `json:"values"`
	Notes []string    `json:"derivation"`
}

var poolLeafKinds = []model.Kind{model.Nil, model.Bool, model.Int, model.Uint, model.Float, model.Complex, model.Rune, model.Str}

// mutate returns a variant of v that differs from it in exactly one place (single-point mutation).
func mutate(s core.Source, o *model.GenOpts, v model.Val) (model.Val, string) {
	if v.IsLeaf() {
		for try := 0; try < 8; try++ {
			w := model.GenLeaf(s, o)
			if !model.Eq(w, v) && !(w.K == model.Float && math.IsNaN(w.F)) {
				return w, "leaf"
			}
		}
		return model.VStr("mutant"), "leaf"
	}
	assoc := v.K == model.GoMap || (v.K == model.Coll && model.Associative(v.CK))
	n := len(v.Items) + len(v.Pairs)
	out := v
	out.Items = append([]model.Val{}, v.Items...)
	out.Pairs = append([]model.Pair{}, v.Pairs...)
	choice := s.Choose(6, "mutation")
	switch {
	case choice == 0 && n > 0: // descend
		k := s.Choose(n, "child")
		if assoc {
			w, note := mutate(s, o, v.Pairs[k].Value)
			out.Pairs[k].Value = w
			return out, "value>" + note
		}
		w, note := mutate(s, o, v.Items[k])
		out.Items[k] = w
		return out, "item>" + note
	case choice == 1: // add one element at the end
		if assoc {
			out.Pairs = append(out.Pairs, model.Pair{Key: freshKey(out.Pairs), Value: model.GenLeaf(s, o)})
		} else {
			out.Items = append(out.Items, model.GenLeaf(s, o))
		}
		return out, "add"
	case choice == 2 && n > 0: // remove one element
		k := s.Choose(n, "child")
		if assoc {
			out.Pairs = append(out.Pairs[:k:k], out.Pairs[k+1:]...)
		} else {
			out.Items = append(out.Items[:k:k], out.Items[k+1:]...)
		}
		return out, "remove"
	case choice == 3 && !assoc && n >= 2: // swap two unequal neighbours
		for k := 0; k+1 < n; k++ {
			if !model.Eq(out.Items[k], out.Items[k+1]) && v.CK != "Set" {
				out.Items[k], out.Items[k+1] = out.Items[k+1], out.Items[k]
				return out, "swap"
			}
		}
	case choice == 4 && assoc && n > 0: // rename one key
		k := s.Choose(n, "child")
		out.Pairs[k].Key = model.VStr(fmt.Sprintf("renamed%d-%d", k, len(fmt.Sprint(out.Pairs))))
		return out, "rename-key"
	case choice == 5 && v.K == model.Coll && !assoc: // change the collection kind
		kinds := []string{"Array", "List", "Stack", "Queue", "Set"}
		nk := kinds[s.Choose(len(kinds), "newkind")]
		if nk != v.CK {
			out.CK = nk
			return out, "kind"
		}
	}
	// fall back: add
	if assoc {
		out.Pairs = append(out.Pairs, model.Pair{Key: freshKey(out.Pairs), Value: model.VInt(7)})
	} else {
		out.Items = append(out.Items, model.VInt(7))
	}
	return out, "add"
}

// freshKey returns a key that none of the pairs uses (an abstract map never lists a key twice).
func freshKey(pairs []model.Pair) model.Val {
	for k := len(pairs); ; k++ {
		key := model.VStr(fmt.Sprintf("new%d", k))
		used := false
		for _, p := range pairs {
			if model.Eq(p.Key, key) {
				used = true
			}
		}
		if !used {
			return key
		}
	}
}

func genPool(forCompare bool) func(core.Source) poolCase {
	return func(s core.Source) poolCase {
		o := &model.GenOpts{MaxDepth: 3, MaxItems: 4, QueueMax: 16, SmallLeaves: s.Choose(3, "small") != 0, LeafKinds: poolLeafKinds}
		var c poolCase
		var ancestor model.Val
		switch s.Choose(4, "ancestor") {
		case 0:
			ancestor = model.GenLeaf(s, o)
		case 1: // Go-native containers
			inner := model.GenColl(s, o, 1)
			if model.Associative(inner.CK) {
				ancestor = model.Val{K: model.GoMap, Pairs: inner.Pairs}
			} else {
				ancestor = model.Val{K: model.GoSlice, Items: inner.Items}
			}
		default:
			ancestor = model.GenColl(s, o, 0)
		}
		c.Vals = append(c.Vals, ancestor)
		c.Notes = append(c.Notes, "ancestor")
		n := 4 + s.Choose(4, "npool")
		for i := 1; i < n; i++ {
			from := s.Choose(len(c.Vals), "from")
			switch s.Choose(8, "how") {
			case 0: // an equal value (rebuilt independently)
				c.Vals = append(c.Vals, c.Vals[from])
				c.Notes = append(c.Notes, fmt.Sprintf("copy of %d", from))
			case 1: // a proper prefix
				w := c.Vals[from]
				if len(w.Items) > 0 {
					w.Items = w.Items[:len(w.Items)-1]
				}
				if len(w.Pairs) > 0 {
					w.Pairs = w.Pairs[:len(w.Pairs)-1]
				}
				c.Vals = append(c.Vals, w)
				c.Notes = append(c.Notes, fmt.Sprintf("prefix of %d", from))
			case 2:
				c.Vals = append(c.Vals, model.VNil())
				c.Notes = append(c.Notes, "nil")
			default:
				w, note := mutate(s, o, c.Vals[from])
				c.Vals = append(c.Vals, w)
				c.Notes = append(c.Notes, fmt.Sprintf("%s of %d", note, from))
			}
		}
		return c
	}
}

// reversedInsertion rebuilds the same abstract value with every map filled in the opposite order.
func reversedInsertion(v model.Val) model.Val {
	out := v
	out.Items = nil
	out.Pairs = nil
	for _, x := range v.Items {
		out.Items = append(out.Items, reversedInsertion(x))
	}
	for i := len(v.Pairs) - 1; i >= 0; i-- {
		p := v.Pairs[i]
		overridden := false
		for _, later := range v.Pairs[i+1:] {
			if model.Eq(later.Key, p.Key) {
				overridden = true // a later pair with the same key wins when the value is built
			}
		}
		if overridden {
			continue
		}
		q := model.Pair{Key: p.Key, Value: reversedInsertion(p.Value)}
		if v.K == model.GoMap || (v.K == model.Coll && v.CK == "Map") {
			out.Pairs = append(out.Pairs, q)
		} else {
			out.Pairs = append([]model.Pair{q}, out.Pairs...)
		}
	}
	return out
}

func hasNaN(v model.Val) bool {
	if v.K == model.Float {
		return math.IsNaN(v.F)
	}
	if v.K == model.Complex {
		return math.IsNaN(real(v.C)) || math.IsNaN(imag(v.C))
	}
	for _, x := range v.Items {
		if hasNaN(x) {
			return true
		}
	}
	for _, p := range v.Pairs {
		if hasNaN(p.Key) || hasNaN(p.Value) {
			return true
		}
	}
	return false
}

func execPool(prop string) func(poolCase, core.Source) core.Result {
	return func(c poolCase, _ core.Source) (res core.Result) {
		n := len(c.Vals)
		objs := make([]any, n)
		copies := make([]any, n)
		abs := make([]model.Val, n)
		if p, payload := lib.Call(func() {
			for i, v := range c.Vals {
				objs[i] = model.Build(v)
				// the copy is built independently: maps filled in the opposite order, collections through
				// other constructors (from an array, from a sequence, as a copy) or filled, emptied and filled again
				copies[i] = model.BuildVia(reversedInsertion(v), i%5)
				abs[i] = model.Abstract(objs[i])
			}
		}); p {
			res.Violation = core.Violate(prop+"/build-panicked", "building the pool panicked: %s", lib.Short(payload))
			return
		}
		reused := age.Collator[any]().Make()        // ranks every pair of the pool, one call after the other
		reusedCompare := age.Collator[any]().Make() // compares every pair (kept apart: a call of one kind must not repair what the other left behind)
		ranks := make([][]age.Rank, n)
		distinctRanks := false
		for i := 0; i < n; i++ {
			ranks[i] = make([]age.Rank, n)
			for j := 0; j < n; j++ {
				var r age.Rank
				var cmp bool
				if p, payload := lib.Call(func() { r, cmp = reused.RankValues(objs[i], objs[j]), reusedCompare.CompareValues(objs[i], objs[j]) }); p {
					res.Violation = core.Violate(prop+"/panicked", "ranking/comparing %v and %v panicked: %s", abs[i], abs[j], lib.Short(payload))
					return
				}
				ranks[i][j] = r
				if r != age.EqualRank {
					distinctRanks = true
				}
				fresh := age.Collator[any]().Make()
				if fr := fresh.RankValues(objs[i], objs[j]); fr != r {
					res.Violation = core.Violate("C07/depends-on-earlier-calls", "RankValues(%v, %v) = %v on a reused collator, %v on a fresh one", abs[i], abs[j], r, fr)
					return
				}
				// which of two equal-content objects is passed must not matter
				if rc := fresh.RankValues(copies[i], objs[j]); rc != r {
					res.Violation = core.Violate("C07/depends-on-object-or-insertion-order", "RankValues gives %v for %v vs %v, but %v when the first is rebuilt with maps filled in the opposite order", r, abs[i], abs[j], rc)
					return
				}
				if prop == "C08" {
					if cmp != (r == age.EqualRank) {
						res.Violation = core.Violate("C08/compare-vs-rank", "CompareValues(%v, %v) = %v but RankValues = %v", abs[i], abs[j], cmp, r)
						return
					}
					if !hasNaN(abs[i]) && !hasNaN(abs[j]) {
						if want := model.Eq(abs[i], abs[j]); want != cmp {
							res.Violation = core.Violate("C08/not-structural-equality", "CompareValues(%v, %v) = %v, structurally they are equal=%v (%s vs %s)", abs[i], abs[j], cmp, want, c.Notes[i], c.Notes[j])
							return
						}
					}
					if cc := fresh.CompareValues(objs[i], copies[j]); cc != cmp {
						res.Violation = core.Violate("C08/depends-on-object-or-insertion-order", "CompareValues(%v, %v) = %v, but %v against an independently rebuilt copy of the second", abs[i], abs[j], cmp, cc)
						return
					}
				}
			}
		}
		pairs, triples := n*n, 0
		for i := 0; i < n; i++ {
			if prop == "C08" {
				if !reused.CompareValues(objs[i], copies[i]) {
					res.Violation = core.Violate("C08/copy-not-equal", "a value and its independently rebuilt copy compare unequal: %v", abs[i])
					return
				}
				for j := 0; j < n; j++ {
					if reused.CompareValues(objs[i], objs[j]) != reused.CompareValues(objs[j], objs[i]) {
						res.Violation = core.Violate("C08/not-symmetric", "CompareValues(%v, %v) is not symmetric", abs[i], abs[j])
						return
					}
					for k := 0; k < n; k++ {
						triples++
						if ranks[i][j] == age.EqualRank && ranks[j][k] == age.EqualRank && !reused.CompareValues(objs[i], objs[k]) {
							res.Violation = core.Violate("C08/not-transitive", "%v = %v and %v = %v but CompareValues(%v, %v) is false", abs[i], abs[j], abs[j], abs[k], abs[i], abs[k])
							return
						}
					}
				}
				continue
			}
			if ranks[i][i] != age.EqualRank {
				res.Violation = core.Violate("C07/not-reflexive", "RankValues(%v, itself) = %v", abs[i], ranks[i][i])
				return
			}
			for j := 0; j < n; j++ {
				if ranks[j][i] != mirrorRank(ranks[i][j]) {
					res.Violation = core.Violate("C07/not-antisymmetric", "RankValues(%v, %v) = %v but reversed = %v", abs[i], abs[j], ranks[i][j], ranks[j][i])
					return
				}
				if cmp, def := model.Ord(abs[i], abs[j]); def {
					want := age.EqualRank
					if cmp < 0 {
						want = age.LesserRank
					} else if cmp > 0 {
						want = age.GreaterRank
					}
					if ranks[i][j] != want {
						res.Violation = core.Violate("C07/not-the-defined-order", "RankValues(%v, %v) = %v, the defined order (natural leaves, nil first, lexicographic sequences with prefix first, maps by sorted keys then values) says %v", abs[i], abs[j], ranks[i][j], want)
						return
					}
				}
				for k := 0; k < n; k++ {
					triples++
					if ranks[i][j] != age.GreaterRank && ranks[j][k] != age.GreaterRank && ranks[i][k] == age.GreaterRank {
						res.Violation = core.Violate("C07/not-transitive", "%v <= %v and %v <= %v but RankValues(%v, %v) = Greater", abs[i], abs[j], abs[j], abs[k], abs[i], abs[k])
						return
					}
				}
			}
		}
		res.Counts = map[string]int{"pairs": pairs, "triples": triples}
		res.NonTrivial = distinctRanks
		depth := 0
		for _, a := range abs {
			if d := a.Depth(); d > depth {
				depth = d
			}
		}
		res.Classes = append(res.Classes, fmt.Sprintf("depth-%d", depth))
		for _, a := range abs {
			switch a.K {
			case model.GoSlice:
				res.Classes = append(res.Classes, "go-slice")
			case model.GoMap:
				res.Classes = append(res.Classes, "go-map")
			case model.Coll:
				res.Classes = append(res.Classes, "coll-"+a.CK)
			}
		}
		return
	}
}

// ---------------------------------------------------------------- typed composites: Collator[[]int], Collator[map[string]int], Collator[[][]int]

type typedPoolCase struct {
	Type  string  `json:"type"`
	Codes [][]int `json:"codes"`
}

func genTypedPool(s core.Source) typedPoolCase {
	c := typedPoolCase{Type: core.Pick(s, []string{"[][]int/shared-backing", "[]int", "map[string]int", "[][]int", "[]string", "map[int][]int", "map[int]int/large", "map[int]int/large", "[]float64",
		"[]MapLike", "List[MapLike]", "map[string]MapLike", "[]ListLike", "[]Sequential/Set", "Association[string,MapLike]"}, "type")}
	if c.Type == "map[int]int/large" {
		// maps with up to 70 keys (the collator sorts the keys of a map before it ranks): a base map, a copy,
		// the base with one more key (first, middle or last in key order), the base with one value changed
		n := s.Choose(71, "keys")
		base := []int{}
		for k := 0; k < n; k++ {
			base = append(base, 2*k+1, int(core.Mix(uint64(k)+s.Bits("vseed")%1000)%5))
		}
		c.Codes = append(c.Codes, base, append([]int{}, base...))
		extra := []int{0, 2 * (n / 2), 2*n + 2}[s.Choose(3, "where")]
		c.Codes = append(c.Codes, append(append([]int{}, base...), extra, 1))
		if n > 0 {
			changed := append([]int{}, base...)
			changed[2*s.Choose(n, "which")+1] += 7
			c.Codes = append(c.Codes, changed)
			c.Codes = append(c.Codes, append([]int{}, base[:2*(n-1)]...))
		}
		return c
	}
	n := 4 + s.Choose(4, "n")
	for i := 0; i < n; i++ {
		if i > 0 && s.Choose(3, "derive") == 0 {
			// derived from an earlier one: copy, prefix, or one element changed
			base := append([]int{}, c.Codes[s.Choose(i, "from")]...)
			switch s.Choose(3, "how") {
			case 1:
				if len(base) > 0 {
					base = base[:len(base)-1]
				}
			case 2:
				if len(base) > 0 {
					base[s.Choose(len(base), "at")] = s.Choose(5, "v")
				}
			}
			c.Codes = append(c.Codes, base)
			continue
		}
		k := s.Choose(5, "len")
		code := []int{}
		for j := 0; j < k; j++ {
			code = append(code, s.Choose(5, "v"))
		}
		c.Codes = append(c.Codes, code)
	}
	return c
}

func cmpIntSlices(a, b []int) int {
	for i := 0; i < len(a) && i < len(b); i++ {
		if a[i] != b[i] {
			if a[i] < b[i] {
				return -1
			}
			return 1
		}
	}
	switch {
	case len(a) < len(b):
		return -1
	case len(a) > len(b):
		return 1
	}
	return 0
}

// the reference comparison of two maps given as code lists: keys code%3 -> value = last write, compared as sorted (key, value) sequences
func mapOf(code []int) map[string]int {
	m := map[string]int{}
	for i, v := range code {
		m[string(rune('a'+v%3))] = i + v
	}
	return m
}

func flatMap(m map[string]int) []int {
	keys := []string{}
	for k := range m {
		keys = append(keys, k)
	}
	sort.Strings(keys)
	out := []int{}
	for _, k := range keys {
		out = append(out, int(k[0]), m[k])
	}
	return out
}

func typedAxioms[T any](prop string, typ string, vals []T, ref func(i, j int) int) (v *core.Violation, distinct bool) {
	n := len(vals)
	reused := age.Collator[T]().Make()
	reusedCompare := age.Collator[T]().Make()
	ranks := make([][]age.Rank, n)
	for i := 0; i < n; i++ {
		ranks[i] = make([]age.Rank, n)
		for j := 0; j < n; j++ {
			var r age.Rank
			var cmp bool
			if p, payload := lib.Call(func() { r, cmp = reused.RankValues(vals[i], vals[j]), reusedCompare.CompareValues(vals[i], vals[j]) }); p {
				return core.Violate(prop+"/typed/panicked/"+typ, "%s: ranking/comparing %v and %v panicked: %s", typ, vals[i], vals[j], lib.Short(payload)), false
			}
			ranks[i][j] = r
			for round := 0; round < 2; round++ {
				if again := reused.RankValues(vals[i], vals[j]); again != r {
					return core.Violate(prop+"/typed/depends-on-history/"+typ, "Collator[%s]: RankValues(%v, %v) = %v, then %v on the same collator", typ, vals[i], vals[j], r, again), false
				}
			}
			want := age.EqualRank
			if c := ref(i, j); c < 0 {
				want = age.LesserRank
			} else if c > 0 {
				want = age.GreaterRank
			}
			if want != age.EqualRank {
				distinct = true
			}
			if prop == "C07" && r != want {
				return core.Violate("C07/typed/not-the-defined-order/"+typ, "Collator[%s]: RankValues(%v, %v) = %v, expected %v", typ, vals[i], vals[j], r, want), false
			}
			if prop == "C08" && (cmp != (want == age.EqualRank) || cmp != (r == age.EqualRank)) {
				return core.Violate("C08/typed/compare/"+typ, "Collator[%s]: CompareValues(%v, %v) = %v, RankValues = %v, structurally equal = %v", typ, vals[i], vals[j], cmp, r, want == age.EqualRank), false
			}
		}
	}
	return nil, distinct
}

func execTypedPool(prop string) func(typedPoolCase, core.Source) core.Result {
	return func(c typedPoolCase, _ core.Source) (res core.Result) {
		var v *core.Violation
		var distinct bool
		switch c.Type {
		case "[]int":
			vals := make([][]int, len(c.Codes))
			for i, code := range c.Codes {
				vals[i] = append([]int{}, code...)
			}
			v, distinct = typedAxioms(prop, c.Type, vals, func(i, j int) int { return cmpIntSlices(c.Codes[i], c.Codes[j]) })
		case "[]string":
			vals := make([][]string, len(c.Codes))
			for i, code := range c.Codes {
				vals[i] = []string{}
				for _, k := range code {
					vals[i] = append(vals[i], []string{"", "a", "ab", "b", "é"}[k])
				}
			}
			// the codes are ordered like the strings they stand for
			v, distinct = typedAxioms(prop, c.Type, vals, func(i, j int) int { return cmpIntSlices(c.Codes[i], c.Codes[j]) })
		case "[][]int/shared-backing":
			// the inner slices of one value are windows of one backing array (prefixes of a growing journal, an
			// empty tail and the whole): two windows that start at the same address are different values when
			// their lengths differ
			vals := make([][][]int, len(c.Codes))
			flat := make([][]int, len(c.Codes))
			for i, code := range c.Codes {
				backing := append([]int{}, code...)
				vals[i] = [][]int{}
				for k := 0; k <= len(backing); k++ {
					vals[i] = append(vals[i], backing[:k])
					flat[i] = append(flat[i], -1)
					flat[i] = append(flat[i], backing[:k]...)
				}
				vals[i] = append(vals[i], backing[len(backing):], backing)
				flat[i] = append(append(flat[i], -1, -1), backing...)
			}
			v, distinct = typedAxioms(prop, "[][]int", vals, func(i, j int) int { return cmpNested(vals[i], vals[j]) })
		case "[][]int":
			vals := make([][][]int, len(c.Codes))
			for i, code := range c.Codes {
				vals[i] = [][]int{}
				for _, k := range code {
					vals[i] = append(vals[i], [][]int{{}, {0}, {0, 1}, {1}, {1, 0}}[k])
				}
			}
			v, distinct = typedAxioms(prop, c.Type, vals, func(i, j int) int { return cmpIntSlices(c.Codes[i], c.Codes[j]) })
		case "[]float64":
			// codes 0..4 stand for NaN, -1.5, -0.0, +0.0, 2.5: NaN before every number and equal to itself, the zeros equal
			pool := []float64{math.NaN(), -1.5, math.Copysign(0, -1), 0, 2.5}
			key := []int{0, 1, 2, 2, 3}
			vals := make([][]float64, len(c.Codes))
			keys := make([][]int, len(c.Codes))
			for i, code := range c.Codes {
				vals[i] = []float64{}
				for _, k := range code {
					vals[i] = append(vals[i], pool[k])
					keys[i] = append(keys[i], key[k])
				}
			}
			v, distinct = typedAxioms(prop, c.Type, vals, func(i, j int) int { return cmpIntSlices(keys[i], keys[j]) })
		// collections held in slots whose static type is a collection interface (not any): what a slot holds is
		// ranked as what it is -- a Map as a map, whatever order its own array view happens to list it in
		case "[]MapLike":
			vals := make([][]col.MapLike[string, int], len(c.Codes))
			for i, code := range c.Codes {
				vals[i] = []col.MapLike[string, int]{col.Map[string, int](lib.Notation()).MakeFromMap(mapOf(code))}
			}
			v, distinct = typedAxioms(prop, c.Type, vals, func(i, j int) int { return cmpIntSlices(flatMap(mapOf(c.Codes[i])), flatMap(mapOf(c.Codes[j]))) })
		case "List[MapLike]":
			vals := make([]col.ListLike[col.MapLike[string, int]], len(c.Codes))
			for i, code := range c.Codes {
				vals[i] = col.List[col.MapLike[string, int]](lib.Notation()).MakeFromArray([]col.MapLike[string, int]{col.Map[string, int](lib.Notation()).MakeFromMap(mapOf(code))})
			}
			v, distinct = typedAxioms(prop, c.Type, vals, func(i, j int) int { return cmpIntSlices(flatMap(mapOf(c.Codes[i])), flatMap(mapOf(c.Codes[j]))) })
		case "map[string]MapLike":
			vals := make([]map[string]col.MapLike[string, int], len(c.Codes))
			for i, code := range c.Codes {
				vals[i] = map[string]col.MapLike[string, int]{"k": col.Map[string, int](lib.Notation()).MakeFromMap(mapOf(code))}
			}
			v, distinct = typedAxioms(prop, c.Type, vals, func(i, j int) int { return cmpIntSlices(flatMap(mapOf(c.Codes[i])), flatMap(mapOf(c.Codes[j]))) })
		case "Association[string,MapLike]":
			vals := make([]col.AssociationLike[string, col.MapLike[string, int]], len(c.Codes))
			for i, code := range c.Codes {
				vals[i] = col.Association[string, col.MapLike[string, int]](lib.Notation()).Make("k", col.Map[string, int](lib.Notation()).MakeFromMap(mapOf(code)))
			}
			v, distinct = typedAxioms(prop, c.Type, vals, func(i, j int) int { return cmpIntSlices(flatMap(mapOf(c.Codes[i])), flatMap(mapOf(c.Codes[j]))) })
		case "[]ListLike":
			vals := make([][]col.ListLike[int], len(c.Codes))
			for i, code := range c.Codes {
				vals[i] = []col.ListLike[int]{col.List[int](lib.Notation()).MakeFromArray(code)}
			}
			v, distinct = typedAxioms(prop, c.Type, vals, func(i, j int) int { return cmpIntSlices(c.Codes[i], c.Codes[j]) })
		case "[]Sequential/Set":
			vals := make([][]col.Sequential[int], len(c.Codes))
			members := make([][]int, len(c.Codes))
			for i, code := range c.Codes {
				set := col.Set[int](lib.Notation()).MakeFromArray(code)
				vals[i] = []col.Sequential[int]{set}
				seen := map[int]bool{}
				for _, k := range code {
					if !seen[k] {
						seen[k] = true
						members[i] = append(members[i], k)
					}
				}
				sort.Ints(members[i])
			}
			v, distinct = typedAxioms(prop, c.Type, vals, func(i, j int) int { return cmpIntSlices(members[i], members[j]) })
		case "map[int]int/large":
			// codes are (key, value) pairs; the maps are filled in a scrambled order
			vals := make([]map[int]int, len(c.Codes))
			flat := make([][]int, len(c.Codes))
			for i, code := range c.Codes {
				vals[i] = map[int]int{}
				npairs := len(code) / 2
				for j := 0; j < npairs; j++ {
					k := (j*7 + i*3) % npairs
					vals[i][code[2*k]] = code[2*k+1]
				}
				keys := []int{}
				for k := range vals[i] {
					keys = append(keys, k)
				}
				sort.Ints(keys)
				for _, k := range keys {
					flat[i] = append(flat[i], k, vals[i][k])
				}
			}
			v, distinct = typedAxioms(prop, c.Type, vals, func(i, j int) int { return cmpIntSlices(flat[i], flat[j]) })
		case "map[string]int":
			vals := make([]map[string]int, len(c.Codes))
			for i, code := range c.Codes {
				vals[i] = mapOf(code)
			}
			v, distinct = typedAxioms(prop, c.Type, vals, func(i, j int) int { return cmpIntSlices(flatMap(vals[i]), flatMap(vals[j])) })
			if v == nil {
				// the same map objects, changed in place between two rankings on one collator (a key replaced:
				// the size stays the same): the result must be what a fresh collator says
				reused, fresh := age.Collator[map[string]int]().Make(), age.Collator[map[string]int]().Make()
				for i := range vals {
					for j := range vals {
						if i == j || len(vals[i]) == 0 || v != nil {
							continue
						}
						reused.RankValues(vals[i], vals[j])
						reused.CompareValues(vals[i], vals[j])
						// replace one key of the first map in place (the size stays the same), rank the same two objects again
						var oldKey string
						for k := range vals[i] {
							if oldKey == "" || k < oldKey {
								oldKey = k
							}
						}
						oldVal := vals[i][oldKey]
						delete(vals[i], oldKey)
						vals[i]["zz"] = oldVal
						if a, b := reused.RankValues(vals[i], vals[j]), fresh.RankValues(vals[i], vals[j]); a != b {
							v = core.Violate(prop+"/typed/depends-on-history/map-changed-in-place", "after a key of the first map was replaced in place, a collator that had ranked the two maps before says %v for %v vs %v, a fresh collator says %v", a, vals[i], vals[j], b)
						}
						if a, b := reused.CompareValues(vals[j], vals[i]), fresh.CompareValues(vals[j], vals[i]); a != b {
							v = core.Violate(prop+"/typed/depends-on-history/map-changed-in-place", "after a key of the second map was replaced in place, a collator that had compared the two maps before says %v for %v vs %v, a fresh collator says %v", a, vals[j], vals[i], b)
						}
						delete(vals[i], "zz")
						vals[i][oldKey] = oldVal
					}
				}
			}
		default: // map[int][]int
			vals := make([]map[int][]int, len(c.Codes))
			flat := make([][]int, len(c.Codes))
			for i, code := range c.Codes {
				vals[i] = map[int][]int{}
				for pos, k := range code {
					vals[i][k%3] = []int{pos, k}
				}
				for key := 0; key < 3; key++ {
					if x, ok := vals[i][key]; ok {
						flat[i] = append(flat[i], key, x[0], x[1])
					}
				}
			}
			// (key, [pos, k]) sequences over sorted keys; the value slices all have length two, so flattening keeps the order
			v, distinct = typedAxioms(prop, c.Type, vals, func(i, j int) int { return cmpIntSlices(flat[i], flat[j]) })
		}
		res.Violation = v
		res.NonTrivial = distinct
		res.Classes = append(res.Classes, "type-"+c.Type)
		return
	}
}

// cmpNested compares two slices of int slices lexicographically, a proper prefix first at both levels
func cmpNested(a, b [][]int) int {
	for i := 0; i < len(a) && i < len(b); i++ {
		if c := cmpIntSlices(a[i], b[i]); c != 0 {
			return c
		}
	}
	switch {
	case len(a) < len(b):
		return -1
	case len(a) > len(b):
		return 1
	}
	return 0
}
