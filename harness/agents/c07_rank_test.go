package agents

import (
	"fmt"
	"math"
	"testing"

	age "github.com/craterdog/go-collection-framework/v4/agent"
	"verifharness/core"
	"verifharness/lib"
	"verifharness/model"
)

// ---------------------------------------------------------------- C07 / C08 on leaf types: exhaustive pairs and triples over boundary pools

type leafCase struct {
	Type string `json:"type"`
	I    int    `json:"i"`
}

// leafPool is a typed pool with the natural order where one exists.
type leafPool[T any] struct {
	vals []T
	cmp  func(a, b T) (c int, defined bool) // reference order
	show func(v T) string
	// differ: the two values are certainly not the same value although the reference order says nothing
	// about them (a NaN next to a number, two different complex numbers): they must not rank or compare equal
	differ func(a, b T) bool
}

func differFloat[T float32 | float64](a, b T) bool { return (a != a) != (b != b) }

func differComplex[T complex64 | complex128](a, b T) bool {
	nan := func(c T) bool { return c != c }
	return !nan(a) && !nan(b) && a != b
}

func cmpOrdered[T int | int8 | int16 | int32 | int64 | uint | uint8 | uint16 | uint32 | uint64 | string](a, b T) (int, bool) {
	switch {
	case a < b:
		return -1, true
	case a > b:
		return 1, true
	}
	return 0, true
}

func cmpFloat[T float32 | float64](a, b T) (int, bool) {
	if a != a || b != b { // NaN: no natural order; only the axioms are required
		return 0, false
	}
	switch {
	case a < b:
		return -1, true
	case a > b:
		return 1, true
	}
	return 0, true
}

func cmpComplex[T complex64 | complex128](a, b T) (int, bool) {
	if a == b {
		return 0, true
	}
	return 0, false // distinct complex numbers have no natural order; only consistency is required
}

func showAny[T any](v T) string { return fmt.Sprintf("%#v", v) }

func signedPool[T int | int8 | int16 | int32 | int64](bits uint) []T {
	max := T(1)<<(bits-1) - 1
	min := -max - 1
	out := []T{0, 1, -1, 2, -2, 10, -10, max, max - 1, min, min + 1}
	for _, b := range []uint{7, 8, 15, 16, 31, 32} {
		if b < bits-1 {
			p := T(1) << b
			out = append(out, p, p-1, p+1, -p, -p-1, -p+1)
		}
	}
	return out
}

func unsignedPool[T uint | uint8 | uint16 | uint32 | uint64](bits uint) []T {
	max := ^T(0)
	out := []T{0, 1, 2, 10, max, max - 1, max/2 + 1, max / 2}
	for _, b := range []uint{7, 8, 15, 16, 31, 32, 63} {
		if b < bits {
			p := T(1) << b
			out = append(out, p, p-1, p+1)
		}
	}
	return out
}

var f64Pool = func() []float64 {
	out := []float64{math.NaN(), math.Inf(1), math.Inf(-1), math.Float64frombits(0x7ff8000000000001)}
	for _, e := range model.FloatPool {
		out = append(out, e.F)
	}
	return out
}()

var f32Pool = []float32{0, float32(math.Copysign(0, -1)), 1, -1, 1.5, math.SmallestNonzeroFloat32, -math.SmallestNonzeroFloat32, math.MaxFloat32, -math.MaxFloat32,
	float32(math.Inf(1)), float32(math.Inf(-1)), float32(math.NaN()), 0.1, 16777216, 16777217, 1e-40, 1.1754944e-38, 3}

var c128Pool = func() []complex128 {
	parts := []float64{0, math.Copysign(0, -1), 1, -1, 3, 4, 5, 1e300, 1.7e308, 1.75e308}
	var out []complex128
	for _, re := range parts {
		for _, im := range parts {
			out = append(out, complex(re, im))
		}
	}
	return out
}()

var c64Pool = []complex64{0, 1, -1, complex(0, 1), complex(0, -1), complex(float32(math.Copysign(0, -1)), 0), complex(-1, float32(math.Copysign(0, -1))), complex(-1, 0), complex(3, 4), complex(4, 3), complex(5, 0),
	complex(0, 5), complex(-5, 0), complex(3e38, 3e38), complex(3.1e38, 3.1e38), complex(1e-40, 0)}

var runePool = func() []rune {
	out := []rune{-1, math.MinInt32, math.MaxInt32}
	for _, e := range model.RunePool {
		out = append(out, e.R)
	}
	return out
}()

var strPool = func() []string {
	var out []string
	for _, e := range model.StrPool {
		out = append(out, e.S)
	}
	return append(out, "a\x00", "a\x00b", "\xfe", "\xff\xff", "aa", "aaa", "B", "Z", "z")
}()

type pairStats struct {
	pairs, triples int
}

// checkPool checks, for the element with index i, every pair (i, j) and every triple (i, j, k) of the pool.
func checkPool[T any](p leafPool[T], typ string, i int, prop string) (v *core.Violation, st pairStats, nontrivial bool) {
	reused := age.Collator[T]().Make()
	reusedCompare := age.Collator[T]().Make()
	rank := func(a, b T) age.Rank { return reused.RankValues(a, b) }
	vals := p.vals
	i %= len(vals)
	a := vals[i]
	leq := func(r age.Rank) bool { return r != age.GreaterRank }
	for j, b := range vals {
		st.pairs++
		var rab, rba age.Rank
		var cab bool
		if pn, payload := lib.Call(func() { rab, rba, cab = rank(a, b), rank(b, a), reusedCompare.CompareValues(a, b) }); pn {
			return core.Violate(prop+"/leaf/panicked/"+typ, "%s: ranking or comparing %s and %s panicked: %s", typ, p.show(a), p.show(b), lib.Short(payload)), st, false
		}
		fresh := age.Collator[T]().Make()
		if fr := fresh.RankValues(a, b); fr != rab {
			return core.Violate(prop+"/leaf/depends-on-history/"+typ, "%s: RankValues(%s, %s) = %v on a reused collator, %v on a fresh one", typ, p.show(a), p.show(b), rab, fr), st, false
		}
		if p.differ != nil && p.differ(a, b) && (cab || rab == age.EqualRank) {
			return core.Violate(prop+"/different-values-equal/"+typ, "%s: %s and %s are different values, but CompareValues = %v and RankValues = %v", typ, p.show(a), p.show(b), cab, rab), st, false
		}
		if prop == "C08" {
			if cab != (rab == age.EqualRank) {
				return core.Violate("C08/compare-vs-rank/"+typ, "%s: CompareValues(%s, %s) = %v but RankValues = %v", typ, p.show(a), p.show(b), cab, rab), st, false
			}
			if cba := reusedCompare.CompareValues(b, a); cba != cab {
				return core.Violate("C08/not-symmetric/"+typ, "%s: CompareValues(%s, %s) = %v but reversed = %v", typ, p.show(a), p.show(b), cab, cba), st, false
			}
			if i == j && !cab {
				return core.Violate("C08/not-reflexive/"+typ, "%s: CompareValues(%s, itself) = false", typ, p.show(a)), st, false
			}
			continue
		}
		if i == j && rab != age.EqualRank {
			return core.Violate("C07/not-reflexive/"+typ, "%s: RankValues(%s, itself) = %v", typ, p.show(a), rab), st, false
		}
		if rba != mirrorRank(rab) {
			return core.Violate("C07/not-antisymmetric/"+typ, "%s: RankValues(%s, %s) = %v but RankValues(%s, %s) = %v", typ, p.show(a), p.show(b), rab, p.show(b), p.show(a), rba), st, false
		}
		if c, def := p.cmp(a, b); def {
			want := age.EqualRank
			if c < 0 {
				want = age.LesserRank
			} else if c > 0 {
				want = age.GreaterRank
			}
			if rab != want {
				return core.Violate("C07/not-natural-order/"+typ, "%s: RankValues(%s, %s) = %v, the natural order says %v", typ, p.show(a), p.show(b), rab, want), st, false
			}
			if c != 0 {
				nontrivial = true
			}
		}
		if !leq(rab) {
			continue
		}
		for _, c := range vals {
			st.triples++
			rbc, rac := rank(b, c), rank(a, c)
			if leq(rbc) && !leq(rac) {
				return core.Violate("C07/not-transitive/"+typ, "%s: %s <= %s (%v) and %s <= %s (%v) but RankValues(%s, %s) = %v", typ, p.show(a), p.show(b), rab, p.show(b), p.show(c), rbc, p.show(a), p.show(c), rac), st, false
			}
			if rab != rbc || rab != rac {
				nontrivial = true
			}
		}
	}
	return nil, st, nontrivial
}

func mirrorRank(r age.Rank) age.Rank {
	switch r {
	case age.LesserRank:
		return age.GreaterRank
	case age.GreaterRank:
		return age.LesserRank
	}
	return age.EqualRank
}

var leafTypes = []string{"bool", "int8", "int16", "int32/rune", "int64", "int", "uint8", "uint16", "uint32", "uint64", "uint", "float32", "float64", "complex64", "complex128", "string"}

func poolSize(t string) int {
	switch t {
	case "bool":
		return 2
	case "int8":
		return len(signedPool[int8](8))
	case "int16":
		return len(signedPool[int16](16))
	case "int32/rune":
		return len(runePool)
	case "int64":
		return len(signedPool[int64](64))
	case "int":
		return len(signedPool[int](64))
	case "uint8":
		return len(unsignedPool[uint8](8))
	case "uint16":
		return len(unsignedPool[uint16](16))
	case "uint32":
		return len(unsignedPool[uint32](32))
	case "uint64":
		return len(unsignedPool[uint64](64))
	case "uint":
		return len(unsignedPool[uint](64))
	case "float32":
		return len(f32Pool)
	case "float64":
		return len(f64Pool)
	case "complex64":
		return len(c64Pool)
	case "complex128":
		return len(c128Pool)
	}
	return len(strPool)
}

func execLeaf(prop string) func(leafCase, core.Source) core.Result {
	return func(c leafCase, _ core.Source) (res core.Result) {
		var v *core.Violation
		var st pairStats
		var nt bool
		switch c.Type {
		case "bool":
			v, st, nt = checkPool(leafPool[bool]{[]bool{false, true}, func(a, b bool) (int, bool) {
				switch {
				case !a && b:
					return -1, true
				case a && !b:
					return 1, true
				}
				return 0, true
			}, showAny[bool], nil}, c.Type, c.I, prop)
		case "int8":
			v, st, nt = checkPool(leafPool[int8]{signedPool[int8](8), cmpOrdered[int8], showAny[int8], nil}, c.Type, c.I, prop)
		case "int16":
			v, st, nt = checkPool(leafPool[int16]{signedPool[int16](16), cmpOrdered[int16], showAny[int16], nil}, c.Type, c.I, prop)
		case "int32/rune":
			v, st, nt = checkPool(leafPool[rune]{runePool, cmpOrdered[int32], showAny[rune], nil}, c.Type, c.I, prop)
		case "int64":
			v, st, nt = checkPool(leafPool[int64]{signedPool[int64](64), cmpOrdered[int64], showAny[int64], nil}, c.Type, c.I, prop)
		case "int":
			v, st, nt = checkPool(leafPool[int]{signedPool[int](64), cmpOrdered[int], showAny[int], nil}, c.Type, c.I, prop)
		case "uint8":
			v, st, nt = checkPool(leafPool[uint8]{unsignedPool[uint8](8), cmpOrdered[uint8], showAny[uint8], nil}, c.Type, c.I, prop)
		case "uint16":
			v, st, nt = checkPool(leafPool[uint16]{unsignedPool[uint16](16), cmpOrdered[uint16], showAny[uint16], nil}, c.Type, c.I, prop)
		case "uint32":
			v, st, nt = checkPool(leafPool[uint32]{unsignedPool[uint32](32), cmpOrdered[uint32], showAny[uint32], nil}, c.Type, c.I, prop)
		case "uint64":
			v, st, nt = checkPool(leafPool[uint64]{unsignedPool[uint64](64), cmpOrdered[uint64], showAny[uint64], nil}, c.Type, c.I, prop)
		case "uint":
			v, st, nt = checkPool(leafPool[uint]{unsignedPool[uint](64), cmpOrdered[uint], showAny[uint], nil}, c.Type, c.I, prop)
		case "float32":
			v, st, nt = checkPool(leafPool[float32]{f32Pool, cmpFloat[float32], showAny[float32], differFloat[float32]}, c.Type, c.I, prop)
		case "float64":
			v, st, nt = checkPool(leafPool[float64]{f64Pool, cmpFloat[float64], func(f float64) string { return fmt.Sprintf("%v(%#x)", f, math.Float64bits(f)) }, differFloat[float64]}, c.Type, c.I, prop)
		case "complex64":
			v, st, nt = checkPool(leafPool[complex64]{c64Pool, cmpComplex[complex64], showAny[complex64], differComplex[complex64]}, c.Type, c.I, prop)
		case "complex128":
			v, st, nt = checkPool(leafPool[complex128]{c128Pool, cmpComplex[complex128], showAny[complex128], differComplex[complex128]}, c.Type, c.I, prop)
		default:
			v, st, nt = checkPool(leafPool[string]{strPool, cmpOrdered[string], func(s string) string { return fmt.Sprintf("%q", s) }, nil}, c.Type, c.I, prop)
		}
		res.Violation = v
		res.NonTrivial = nt || prop == "C08"
		res.Counts = map[string]int{"pairs": st.pairs, "triples": st.triples}
		res.Classes = append(res.Classes, "type-"+c.Type)
		return
	}
}

func genLeafCase(s core.Source) leafCase {
	c := leafCase{Type: core.Pick(s, leafTypes, "type")}
	c.I = s.Choose(poolSize(c.Type), "i")
	return c
}

func TestC07(t *testing.T) {
	r := core.Begin(t, "C07")
	defer r.End()
	core.DFS(r, core.Check[leafCase]{Name: "leaf-pools", Gen: genLeafCase, Exec: execLeaf("C07"), NoJournal: true}, 0)
	core.DFS(r, core.Check[mixedCase]{Name: "mixed-primitives", Gen: genMixed, Exec: execMixed("C07"), NoJournal: true}, 0)
	core.DFS(r, core.Check[faceCase]{Name: "values-and-pointers", Gen: genFaces, Exec: execFaces("C07"), NoJournal: true}, 0)
	core.DFS(r, core.Check[twinCase]{Name: "same-named-types", Gen: genTwins, Exec: execTwins("C07"), NoJournal: true}, 0)
	core.Rapid(r, core.Check[mapKeysCase]{Name: "map-keys", Gen: genMapKeys, Exec: execMapKeys("C07")}, r.N(1500, 15000))
	core.Rapid(r, core.Check[poolCase]{Name: "composite-pools", Gen: genPool(false), Exec: execPool("C07")}, r.N(1500, 15000))
	core.Rapid(r, core.Check[poolCase]{Name: "tight-maximum", Gen: genPool(false), Exec: execTightMaximum}, r.N(600, 6000))
	core.Rapid(r, core.Check[typedPoolCase]{Name: "typed-composites", Gen: genTypedPool, Exec: execTypedPool("C07")}, r.N(800, 8000))
	core.Rapid(r, core.Check[rankPastCase]{Name: "ranked-then-changed", Gen: genRankPast, Exec: execRankPast("C07")}, r.N(3000, 30000))
}
