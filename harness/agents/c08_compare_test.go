package agents

import (
	"fmt"
	"math"
	"strings"
	"testing"

	age "github.com/craterdog/go-collection-framework/v4/agent"
	col "github.com/craterdog/go-collection-framework/v4/collection"
	"verifharness/core"
	"verifharness/lib"
	"verifharness/model"
)

// ---------------------------------------------------------------- C08: copies, every single-point mutation, cyclic values

type mutantCase struct {
	V model.Val `json:"value"`
}

func genMutantBase(s core.Source) mutantCase {
	o := &model.GenOpts{MaxDepth: 3, MaxItems: 4, QueueMax: 16, SmallLeaves: s.Choose(2, "small") == 0, LeafKinds: poolLeafKinds}
	var v model.Val
	if s.Choose(4, "native") == 0 {
		inner := model.GenColl(s, o, 0)
		if model.Associative(inner.CK) {
			v = model.Val{K: model.GoMap, Pairs: inner.Pairs}
		} else {
			v = model.Val{K: model.GoSlice, Items: inner.Items}
		}
	} else {
		v = model.GenColl(s, o, 0)
	}
	return mutantCase{V: v}
}

func changedLeaf(v model.Val) model.Val {
	switch v.K {
	case model.Nil:
		return model.VInt(0)
	case model.Bool:
		return model.VBool(!v.B)
	case model.Int:
		return model.VInt(v.I + 1)
	case model.Uint:
		return model.VUint(v.U + 1)
	case model.Float:
		if math.IsInf(v.F, 0) || math.IsNaN(v.F) {
			return model.VFloat(1)
		}
		n := math.Nextafter(v.F, math.Inf(1))
		return model.VFloat(n)
	case model.Complex:
		return model.VComplex(v.C + complex(0, 1))
	case model.Rune:
		return model.VRune(v.R + 1)
	default:
		return model.VStr(v.S + "x")
	}
}

// allMutants lists every single-point mutation of v together with a description.
func allMutants(v model.Val) (out []model.Val, notes []string) {
	add := func(w model.Val, note string) {
		out = append(out, w)
		notes = append(notes, note)
	}
	if v.IsLeaf() {
		add(changedLeaf(v), "leaf changed")
		return
	}
	clone := func() model.Val {
		w := v
		w.Items = append([]model.Val{}, v.Items...)
		w.Pairs = append([]model.Pair{}, v.Pairs...)
		return w
	}
	assoc := v.K == model.GoMap || (v.K == model.Coll && model.Associative(v.CK))
	for i, x := range v.Items {
		ms, ns := allMutants(x)
		for k, m := range ms {
			w := clone()
			w.Items[i] = m
			add(w, fmt.Sprintf("item %d: %s", i+1, ns[k]))
		}
		w := clone()
		w.Items = append(w.Items[:i:i], w.Items[i+1:]...)
		add(w, fmt.Sprintf("item %d removed", i+1))
		if i+1 < len(v.Items) && !model.Eq(v.Items[i], v.Items[i+1]) && v.CK != "Set" {
			w := clone()
			w.Items[i], w.Items[i+1] = w.Items[i+1], w.Items[i]
			add(w, fmt.Sprintf("items %d and %d swapped", i+1, i+2))
		}
	}
	for i, p := range v.Pairs {
		ms, ns := allMutants(p.Value)
		for k, m := range ms {
			w := clone()
			w.Pairs[i].Value = m
			add(w, fmt.Sprintf("value of key %v: %s", p.Key, ns[k]))
		}
		w := clone()
		w.Pairs = append(w.Pairs[:i:i], w.Pairs[i+1:]...)
		add(w, fmt.Sprintf("association %v removed", p.Key))
		w = clone()
		w.Pairs[i].Key = model.VStr(fmt.Sprintf("renamed-%d", i))
		add(w, fmt.Sprintf("key %v renamed", p.Key))
		if i+1 < len(v.Pairs) && v.K == model.Coll && v.CK == "Catalog" {
			w := clone()
			w.Pairs[i], w.Pairs[i+1] = w.Pairs[i+1], w.Pairs[i]
			add(w, fmt.Sprintf("associations %d and %d swapped", i+1, i+2))
		}
	}
	w := clone()
	if assoc {
		w.Pairs = append(w.Pairs, model.Pair{Key: model.VStr("added"), Value: model.VInt(1)})
	} else {
		w.Items = append(w.Items, model.VStr("added"))
	}
	add(w, "one element added")
	if v.K == model.Coll && !assoc {
		for _, nk := range []string{"Array", "List", "Stack", "Queue", "Set"} {
			if nk != v.CK {
				w := clone()
				w.CK = nk
				add(w, "kind changed to "+nk)
				break
			}
		}
	}
	return
}

func execMutants(c mutantCase, _ core.Source) (res core.Result) {
	var obj, copyObj any
	if p, payload := lib.Call(func() { obj, copyObj = model.Build(c.V), model.Build(reversedInsertion(c.V)) }); p {
		res.Violation = core.Violate("C08/build-panicked", "building %v panicked: %s", c.V, lib.Short(payload))
		return
	}
	abs := model.Abstract(obj)
	col8 := age.Collator[any]().Make()
	var eq bool
	var rk age.Rank
	if p, payload := lib.Call(func() { eq, rk = col8.CompareValues(obj, copyObj), col8.RankValues(obj, copyObj) }); p {
		res.Violation = core.Violate("C08/panicked", "comparing %v with its copy panicked: %s", abs, lib.Short(payload))
		return
	}
	if !eq || rk != age.EqualRank {
		res.Violation = core.Violate("C08/copy-not-equal", "a value and an independently rebuilt copy (maps filled in the opposite order): CompareValues = %v, RankValues = %v for %v", eq, rk, abs)
		return
	}
	muts, notes := allMutants(c.V)
	checked := 0
	for i, m := range muts {
		var mobj any
		if p, _ := lib.Call(func() { mobj = model.Build(m) }); p {
			continue
		}
		mabs := model.Abstract(mobj)
		if model.Eq(abs, mabs) {
			continue // e.g. adding to a Set something it already holds
		}
		checked++
		var meq bool
		var mrk age.Rank
		if p, payload := lib.Call(func() { meq, mrk = col8.CompareValues(obj, mobj), col8.RankValues(obj, mobj) }); p {
			res.Violation = core.Violate("C08/panicked", "comparing %v with mutant (%s) %v panicked: %s", abs, notes[i], mabs, lib.Short(payload))
			return
		}
		if meq || mrk == age.EqualRank {
			res.Violation = core.Violate("C08/mutant-equal", "single-point mutation (%s) goes unnoticed: CompareValues = %v, RankValues = %v\n  value  %v\n  mutant %v", notes[i], meq, mrk, abs, mabs)
			return
		}
	}
	res.Counts = map[string]int{"mutants": checked}
	res.NonTrivial = checked > 0 && abs.Depth() >= 1
	res.Classes = append(res.Classes, fmt.Sprintf("depth-%d", abs.Depth()))
	return
}

// ---------------------------------------------------------------- cyclic values

type cyclicCase struct {
	Kinds    []string  `json:"kinds"`
	Siblings []int     `json:"siblings"`
	V        model.Val `json:"value"`
	Op       string    `json:"op"`            // compare rank
	Other    string    `json:"other"`         // self copy
	Via      string    `json:"via,omitempty"` // "association": the cycle passes through a standalone Association held by the outermost collection
}

// buildViaAssociation builds a collection of the given kind that holds an Association whose value is the
// collection itself.
func buildViaAssociation(kind string, siblings int) any {
	n := model.Notation()
	A := col.Association[any, any](n)
	switch kind {
	case "Array":
		a := col.Array[any](n).Make(uint(siblings + 1))
		for k := 0; k < siblings; k++ {
			a.SetValue(k+1, int64(k))
		}
		a.SetValue(siblings+1, A.Make("self", a))
		return a
	case "Stack":
		x := col.Stack[any](n).Make()
		for k := 0; k < siblings; k++ {
			x.AddValue(int64(k))
		}
		x.AddValue(A.Make("self", x))
		return x
	case "Queue":
		x := col.Queue[any](n).Make()
		for k := 0; k < siblings; k++ {
			x.AddValue(int64(k))
		}
		x.AddValue(A.Make("self", x))
		return x
	case "Set":
		x := col.Set[any](n).Make()
		for k := 0; k < siblings; k++ {
			x.AddValue(int64(k))
		}
		x.AddValue(A.Make("self", x))
		return x
	case "Catalog":
		x := col.Catalog[any, any](n).Make()
		for k := 0; k < siblings; k++ {
			x.SetValue(int64(k), int64(k))
		}
		x.SetValue("held", A.Make("self", x))
		return x
	case "Map":
		x := col.Map[any, any](n).Make()
		for k := 0; k < siblings; k++ {
			x.SetValue(int64(k), int64(k))
		}
		x.SetValue("held", A.Make("self", x))
		return x
	}
	x := col.List[any](n).Make()
	for k := 0; k < siblings; k++ {
		x.AppendValue(int64(k))
	}
	x.AppendValue(A.Make("self", x))
	return x
}

// buildTwinKeys builds a Go map (or a Map) that holds itself under two keys that are different keys for Go and one
// key for the collator (two pointers to equal numbers), next to some siblings.
func buildTwinKeys(kind string, siblings int) any {
	a, b := new(int64), new(int64)
	if kind == "Map" || kind == "Catalog" {
		m := col.Map[any, any](model.Notation()).Make()
		for k := 0; k < siblings; k++ {
			m.SetValue(int64(k), int64(k))
		}
		m.SetValue(a, m)
		m.SetValue(b, m)
		return m
	}
	m := map[any]any{}
	for k := 0; k < siblings; k++ {
		m[int64(k)] = int64(k)
	}
	m[a], m[b] = m, m
	return m
}

func genCyclic(s core.Source) cyclicCase {
	c := cyclicCase{Op: core.Pick(s, []string{"compare", "rank"}, "op"), Other: core.Pick(s, []string{"self", "copy"}, "other")}
	levels := 1 + s.Choose(3, "cycle-length")
	kinds := []string{"List", "Array", "Stack", "Queue", "Catalog", "Map", "Set"}
	for i := 0; i < levels; i++ {
		c.Kinds = append(c.Kinds, core.Pick(s, kinds, "kind"))
		c.Siblings = append(c.Siblings, s.Choose(3, "siblings"))
	}
	inner := model.Val{K: model.Self, Up: levels}
	for i := levels - 1; i >= 0; i-- {
		ck := c.Kinds[i]
		v := model.Val{K: model.Coll, CK: ck}
		addv := func(x model.Val) {
			if model.Associative(ck) {
				v.Pairs = append(v.Pairs, model.Pair{Key: model.VInt(int64(len(v.Pairs))), Value: x})
			} else {
				v.Items = append(v.Items, x)
			}
		}
		// siblings first: a Set ranks its members while inserting, so the self reference goes in last
		for k := 0; k < c.Siblings[i]; k++ {
			addv(model.VInt(int64(k)))
		}
		addv(inner)
		inner = v
	}
	c.V = inner
	switch s.Choose(4, "via-association") {
	case 0:
		c.Via = "association"
	case 1:
		c.Via = "twin-keys"
	}
	return c
}

const depthMessage = "The maximum traversal depth was exceeded"

func execCyclic(c cyclicCase, _ core.Source) (res core.Result) {
	var obj, other any
	if p, payload := lib.Call(func() {
		build := func() any {
			if c.Via == "association" {
				return buildViaAssociation(c.Kinds[0], c.Siblings[0])
			}
			if c.Via == "twin-keys" {
				return buildTwinKeys(c.Kinds[0], c.Siblings[0])
			}
			return model.Build(c.V)
		}
		obj = build()
		other = obj
		if c.Other == "copy" {
			other = build()
		}
	}); p {
		// building a self-containing Set ranks the set against itself: that is the property under test as well
		if s, ok := payload.(string); ok && strings.HasPrefix(s, depthMessage) {
			res.Classes = append(res.Classes, "depth-panic-while-building")
			res.NonTrivial = true
			return
		}
		res.Violation = core.Violate("C08/cyclic/build-panicked", "building %v panicked with something else than the depth-limit message: %s", c.V, lib.Short(payload))
		return
	}
	collator := age.Collator[any]().Make()
	// acyclic reference pairs, evaluated before and after
	type refPair struct {
		a, b any
		eq   bool
		rk   age.Rank
	}
	l12 := model.Build(model.VColl("List", model.VInt(1), model.VColl("List", model.VInt(2))))
	l12b := model.Build(model.VColl("List", model.VInt(1), model.VColl("List", model.VInt(2))))
	l13 := model.Build(model.VColl("List", model.VInt(1), model.VColl("List", model.VInt(3))))
	refs := []refPair{{a: l12, b: l12b}, {a: l12, b: l13}, {a: int64(1), b: int64(2)}, {a: model.Build(model.VAssoc("Catalog", model.Pair{Key: model.VStr("k"), Value: model.VColl("Set", model.VInt(1))})), b: l12}}
	for i := range refs {
		refs[i].eq, refs[i].rk = collator.CompareValues(refs[i].a, refs[i].b), collator.RankValues(refs[i].a, refs[i].b)
	}
	p, payload := lib.Call(func() {
		if c.Op == "compare" {
			collator.CompareValues(obj, other)
		} else {
			collator.RankValues(obj, other)
		}
	})
	if !p {
		res.Violation = core.Violate("C08/cyclic/returned", "%s of the self-containing value %v (%s%s) returned instead of ending with the depth-limit panic", c.Op, c.V, c.Other, map[bool]string{true: "; here: a " + c.Kinds[0] + " holding an Association whose value is that " + c.Kinds[0], false: ""}[c.Via == "association"])
		return
	}
	if s, ok := payload.(string); !ok || !strings.HasPrefix(s, depthMessage) {
		res.Violation = core.Violate("C08/cyclic/wrong-panic", "%s of the self-containing value %v panicked with %s, not with the documented %q", c.Op, c.V, lib.Short(payload), depthMessage)
		return
	}
	// the same collator, and a fresh one, still compare acyclic values correctly
	for name, col9 := range map[string]age.CollatorLike[any]{"the same": collator, "a fresh": age.Collator[any]().Make()} {
		for i, rp := range refs {
			var eq bool
			var rk age.Rank
			if p, payload := lib.Call(func() { eq, rk = col9.CompareValues(rp.a, rp.b), col9.RankValues(rp.a, rp.b) }); p {
				res.Violation = core.Violate("C08/cyclic/collator-unusable-afterwards", "after the depth-limit panic %s collator panics on an acyclic pair (#%d): %s", name, i, lib.Short(payload))
				return
			}
			if eq != rp.eq || rk != rp.rk {
				res.Violation = core.Violate("C08/cyclic/collator-changed-afterwards", "after the depth-limit panic %s collator gives CompareValues=%v RankValues=%v for acyclic pair #%d (before: %v, %v)", name, eq, rk, i, rp.eq, rp.rk)
				return
			}
		}
	}
	res.NonTrivial = true
	res.Classes = append(res.Classes, fmt.Sprintf("cycle-%d", len(c.Kinds)), "op-"+c.Op)
	return
}

func TestC08(t *testing.T) {
	r := core.Begin(t, "C08")
	defer r.End()
	core.DFS(r, core.Check[leafCase]{Name: "leaf-pools", Gen: genLeafCase, Exec: execLeaf("C08"), NoJournal: true}, 0)
	core.DFS(r, core.Check[mixedCase]{Name: "mixed-primitives", Gen: genMixed, Exec: execMixed("C08"), NoJournal: true}, 0)
	core.DFS(r, core.Check[faceCase]{Name: "values-and-pointers", Gen: genFaces, Exec: execFaces("C08"), NoJournal: true}, 0)
	core.DFS(r, core.Check[twinCase]{Name: "same-named-types", Gen: genTwins, Exec: execTwins("C08"), NoJournal: true}, 0)
	core.Rapid(r, core.Check[mapKeysCase]{Name: "map-keys", Gen: genMapKeys, Exec: execMapKeys("C08")}, r.N(1500, 15000))
	core.Rapid(r, core.Check[poolCase]{Name: "composite-pools", Gen: genPool(true), Exec: execPool("C08")}, r.N(1500, 15000))
	core.Rapid(r, core.Check[typedPoolCase]{Name: "typed-composites", Gen: genTypedPool, Exec: execTypedPool("C08")}, r.N(800, 8000))
	core.Rapid(r, core.Check[mutantCase]{Name: "copies-and-mutants", Gen: genMutantBase, Exec: execMutants}, r.N(1500, 15000))
	core.Rapid(r, core.Check[cyclicCase]{Name: "cyclic", Gen: genCyclic, Exec: execCyclic}, r.N(400, 4000))
	core.Rapid(r, core.Check[rankPastCase]{Name: "ranked-then-changed", Gen: genRankPast, Exec: execRankPast("C08")}, r.N(3000, 30000))
}
