// Package twin declares types with the names the agents checks use themselves: two types of different
// packages that share their unqualified name are different types.
package twin

type Point struct{ X, Y int }

type Weekday int

type Label string

type Record struct {
	Name string
	N    int
}

func (r *Record) GetName() string { return r.Name }
