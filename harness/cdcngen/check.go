package cdcngen

import (
	"fmt"

	age "github.com/craterdog/go-collection-framework/v4/agent"
	col "github.com/craterdog/go-collection-framework/v4/collection"
	"verifharness/model"
)

// Expected turns the source-order denotation into the value the properties
// require: a Catalog keeps a repeated key at its first position with its last
// value, a Map keeps the last value.  Sets are left in source order (their
// membership is compared as a set by Matches).
func Expected(den model.Val) model.Val {
	out := den
	out.Items = nil
	out.Pairs = nil
	for _, x := range den.Items {
		out.Items = append(out.Items, Expected(x))
	}
	for _, p := range den.Pairs {
		q := model.Pair{Key: p.Key, Value: Expected(p.Value)}
		hit := false
		for i := range out.Pairs {
			if model.Eq(out.Pairs[i].Key, q.Key) {
				out.Pairs[i].Value = q.Value
				hit = true
			}
		}
		if !hit {
			out.Pairs = append(out.Pairs, q)
		}
	}
	return out
}

// Matches compares a parsed object with the expected denotation.  It returns
// "" when they agree, otherwise a description of the first difference.
func Matches(want model.Val, obj any, path string) string {
	if want.K != model.Coll {
		got := model.Abstract(obj)
		if !model.Identical(want, got) {
			return fmt.Sprintf("%s: literal denotes %v, parsed value is %v", path, want, got)
		}
		return ""
	}
	got := model.Abstract(obj)
	if got.K != model.Coll || got.CK != want.CK {
		return fmt.Sprintf("%s: expected a %s, got %v", path, want.CK, got)
	}
	switch want.CK {
	case "Set":
		set, ok := obj.(col.SetLike[any])
		if !ok {
			return fmt.Sprintf("%s: not a SetLike[any]: %T", path, obj)
		}
		arr := set.AsArray()
		// membership: every literal has a member, every member has a literal; no two members equal
		var distinct []model.Val
		for _, x := range want.Items {
			dup := false
			for _, d := range distinct {
				if model.Eq(d, x) {
					dup = true
				}
			}
			if !dup {
				distinct = append(distinct, x)
			}
		}
		if len(arr) != len(distinct) {
			return fmt.Sprintf("%s: the Set has %d members %v, the literals have %d distinct values %v", path, len(arr), got, len(distinct), distinct)
		}
		used := make([]bool, len(arr))
		for _, d := range distinct {
			hit := false
			for j, m := range arr {
				if !used[j] && Matches(d, m, path) == "" {
					used[j], hit = true, true
					break
				}
				// +0.0 and -0.0 are one member: either sign may have been kept
				if !used[j] && d.IsLeaf() && model.Eq(d, model.Abstract(m)) {
					used[j], hit = true, true
					break
				}
			}
			if !hit {
				return fmt.Sprintf("%s: the Set %v has no member for the literal %v", path, got, d)
			}
		}
		collator := age.Collator[any]().Make()
		for i := 0; i+1 < len(arr); i++ {
			if collator.RankValues(arr[i], arr[i+1]) != age.LesserRank {
				return fmt.Sprintf("%s: the Set %v is not strictly ascending at position %d", path, got, i+1)
			}
			// and by the reference order, where one is defined for the pair (the collator is the library's own)
			if cmp, ok := model.Ord(model.Abstract(arr[i]), model.Abstract(arr[i+1])); ok && cmp > 0 {
				return fmt.Sprintf("%s: the Set %v is not in the natural order at position %d", path, got, i+1)
			}
		}
		return ""
	case "Catalog", "Map":
		var assocs []col.AssociationLike[any, any]
		switch t := obj.(type) {
		case col.CatalogLike[any, any]:
			assocs = t.AsArray()
		case col.MapLike[any, any]:
			assocs = t.AsArray()
		default:
			return fmt.Sprintf("%s: not associative: %T", path, obj)
		}
		if len(assocs) != len(want.Pairs) {
			return fmt.Sprintf("%s: expected %d associations %v, got %d: %v", path, len(want.Pairs), want, len(assocs), got)
		}
		used := make([]bool, len(assocs))
		for i, p := range want.Pairs {
			if want.CK == "Catalog" {
				if !model.Identical(p.Key, model.Abstract(assocs[i].GetKey())) {
					return fmt.Sprintf("%s: association %d has key %v, expected %v (expected order %v, got %v)", path, i+1, model.Abstract(assocs[i].GetKey()), p.Key, want, got)
				}
				if d := Matches(p.Value, assocs[i].GetValue(), fmt.Sprintf("%s[%v]", path, p.Key)); d != "" {
					return d
				}
				continue
			}
			hit := false
			for j, a := range assocs {
				if !used[j] && model.Identical(p.Key, model.Abstract(a.GetKey())) {
					if d := Matches(p.Value, a.GetValue(), fmt.Sprintf("%s[%v]", path, p.Key)); d != "" {
						return d
					}
					used[j], hit = true, true
					break
				}
			}
			if !hit {
				return fmt.Sprintf("%s: the Map %v has no key %v", path, got, p.Key)
			}
		}
		return ""
	}
	seq, ok := obj.(interface{ AsArray() []any })
	if !ok {
		return fmt.Sprintf("%s: not a sequence of any: %T", path, obj)
	}
	arr := seq.AsArray()
	if len(arr) != len(want.Items) {
		return fmt.Sprintf("%s: expected %d items %v, got %d: %v", path, len(want.Items), want, len(arr), got)
	}
	for i, x := range want.Items {
		if d := Matches(x, arr[i], fmt.Sprintf("%s[%d]", path, i+1)); d != "" {
			return d
		}
	}
	return ""
}
