// Package cdcngen derives sentences of the CDCN grammar (Syntax.cdsn) together
// with their denotation, computed on the generator's side with standard Go
// semantics (strconv on the literal the generator wrote).
package cdcngen

import (
	"fmt"
	"math"
	"strconv"
	"strings"

	"verifharness/core"
	"verifharness/model"
)

type Opts struct {
	Small    bool // enumeration mode: one representative literal per alternative, tiny sizes
	Level    int  // enumeration level: 1 = two top-level items only as literals, 2 = also nested
	noNest   bool
	MaxDepth int
	MaxItems int
	Classes  model.Classes
	tokens   int
	budget   int // remaining items in the whole document
}

func (o *Opts) class(s string) {
	if o.Classes != nil {
		o.Classes[s] = true
	}
}

type Doc struct {
	Text   string    `json:"text"`
	Den    model.Val `json:"denotation"`
	Tokens int       `json:"tokens"`
}

// GenDocument derives AST: Collection EOL* EOF.
func GenDocument(s core.Source, o *Opts) Doc {
	o.tokens = 0
	if o.budget == 0 {
		o.budget = 60
	}
	text, den := genCollection(s, o, 0)
	neol := 0
	if !o.Small {
		neol = s.Choose(4, "trailing-eol")
	} else {
		neol = 1
	}
	text += strings.Repeat("\n", neol)
	o.tokens += neol + 1
	switch {
	case o.tokens < 16:
		o.class("tokens<16")
	case o.tokens == 16:
		o.class("tokens=16")
	default:
		o.class("tokens>16")
	}
	return Doc{Text: text, Den: den, Tokens: o.tokens}
}

func sp(s core.Source, o *Opts) string {
	if o.Small {
		return ""
	}
	return []string{"", "", " ", "  "}[s.Choose(4, "space")]
}

func colonSpace(s core.Source, o *Opts) string {
	if o.Small {
		return " "
	}
	return []string{" ", "", " "}[s.Choose(3, "sep-space")]
}

func indent(s core.Source, o *Opts, depth int) string {
	if o.Small {
		return strings.Repeat("    ", depth+1)
	}
	switch s.Choose(3, "indent") {
	case 0:
		return strings.Repeat("    ", depth+1)
	case 1:
		return ""
	}
	return strings.Repeat(" ", s.Choose(4, "indent-n"))
}

func genCollection(s core.Source, o *Opts, depth int) (string, model.Val) {
	ck := model.CollKinds[s.Choose(len(model.CollKinds), "context")]
	o.class("context-" + ck)
	assoc := model.Associative(ck)
	den := model.Val{K: model.Coll, CK: ck}
	// number of items by class
	maxItems := o.MaxItems
	var n int
	if o.Small {
		n = s.Choose(maxItems+1, "nitems")
		if depth > 0 && n > 1 {
			n = 1
		}
		if depth == 0 {
			o.noNest = n >= 2 && o.Level < 2
		}
	} else {
		switch s.Choose(8, "sizeclass") {
		case 0:
			n = 0
		case 1:
			n = 1
		case 2:
			n = 17 + s.Choose(8, "nitems") // more than the scanner queue holds
		default:
			n = 2 + s.Choose(5, "nitems")
		}
		if n > maxItems {
			n = maxItems
		}
	}
	if n > o.budget {
		n = o.budget
	}
	o.budget -= n
	var items []string
	for i := 0; i < n; i++ {
		if assoc {
			kt, kd := genKeyLiteral(s, o, depth)
			o.tokens++ // ":"
			vt, vd := genValue(s, o, depth+1)
			items = append(items, kt+sp(s, o)+":"+colonSpace(s, o)+vt)
			den.Pairs = append(den.Pairs, model.Pair{Key: kd, Value: vd})
		} else {
			vt, vd := genValue(s, o, depth+1)
			items = append(items, vt)
			den.Items = append(den.Items, vd)
		}
	}
	var body string
	switch {
	case n == 0 && assoc:
		body = ":"
		o.tokens++
		o.class("items-empty-associations")
	case n == 0:
		body = " "
		o.class("items-empty-values")
	case s.Choose(2, "layout") == 0:
		o.class("layout-inline")
		sep := "," + colonSpace(s, o)
		body = sp(s, o) + strings.Join(items, sep) + sp(s, o)
		o.tokens += n - 1
	default:
		o.class("layout-multiline")
		ind := indent(s, o, depth)
		for _, it := range items {
			body += "\n" + ind + it
		}
		body += "\n"
		if !o.Small && s.Choose(2, "close-indent") == 0 {
			body += strings.Repeat("    ", depth)
		}
		o.tokens += n + 1
	}
	o.tokens += 5 // [ ] ( type )
	if depth > 0 {
		o.class("nested")
	}
	return "[" + body + "]" + sp(s, o) + "(" + ck + ")", den
}

func genValue(s core.Source, o *Opts, depth int) (string, model.Val) {
	if o.Small {
		if depth <= o.MaxDepth && !o.noNest && s.Choose(2, "value-kind") == 1 {
			return genCollection(s, o, depth)
		}
		o.tokens++
		reps := smallLiterals[:6]
		if depth > 1 {
			reps = smallLiterals[:3]
		}
		e := reps[s.Choose(len(reps), "literal")]
		return e.text, e.den
	}
	if depth <= o.MaxDepth && s.Choose(4, "value-kind") == 0 && o.budget > 0 {
		return genCollection(s, o, depth)
	}
	return genLiteral(s, o)
}

func genKeyLiteral(s core.Source, o *Opts, depth int) (string, model.Val) {
	if o.Small {
		o.tokens++
		reps := smallLiterals[6:8]
		if depth > 0 {
			reps = smallLiterals[7:10]
		}
		e := reps[s.Choose(len(reps), "key")]
		return e.text, e.den
	}
	return genLiteral(s, o)
}

var smallLiterals = []struct {
	text string
	den  model.Val
}{
	{"true", model.VBool(true)}, {"nil", model.VNil()}, {"-7", model.VInt(-7)}, {"0x1f", model.VUint(31)}, {"1.5E+3", model.VFloat(1500)},
	{"(1.0-2.0i)", model.VComplex(complex(1, -2))}, {"'a'", model.VRune('a')}, {`"s\n"`, model.VStr("s\n")}, {"0", model.VInt(0)}, {`""`, model.VStr("")},
}

// genLiteral derives one Intrinsic with every literal form of its alternative.
func genLiteral(s core.Source, o *Opts) (string, model.Val) {
	o.tokens++
	if o.Small {
		e := smallLiterals[s.Choose(len(smallLiterals), "literal")]
		return e.text, e.den
	}
	switch s.Choose(9, "intrinsic") {
	case 0:
		o.class("lit-boolean")
		if s.Choose(2, "bool") == 0 {
			return "false", model.VBool(false)
		}
		return "true", model.VBool(true)
	case 1:
		o.class("lit-nil")
		return "nil", model.VNil()
	case 2:
		return genInteger(s, o)
	case 3:
		return genHex(s, o)
	case 4:
		t, f := genFloatLit(s, o)
		return t, model.VFloat(f)
	case 5:
		o.class("lit-complex")
		rt, re := genFloatLit(s, o)
		it, im := genFloatLit(s, o)
		sign := core.Pick(s, []string{"+", "-"}, "csign")
		if strings.HasPrefix(it, "+") || strings.HasPrefix(it, "-") {
			o.class("complex-double-sign")
		}
		if sign == "-" {
			im = -im
		}
		return "(" + rt + sign + it + "i)", model.VComplex(complex(re, im))
	case 6:
		return genRuneLit(s, o)
	default:
		return genStringLit(s, o)
	}
}

func genInteger(s core.Source, o *Opts) (string, model.Val) {
	var v int64
	switch s.Choose(4, "intclass") {
	case 0:
		o.class("int-zero")
		return "0", model.VInt(0)
	case 1:
		o.class("int-boundary")
		v = model.IntPool[s.Choose(len(model.IntPool), "int")]
	case 2:
		o.class("int-small")
		v = s.Int(-99, 99, "int")
	default:
		o.class("int-random")
		v = int64(core.Mix(s.Bits("int"))) >> uint(s.Choose(64, "shift"))
	}
	if v == 0 {
		return "0", model.VInt(0)
	}
	text := strconv.FormatInt(v, 10)
	if v > 0 && s.Choose(3, "plus") == 0 {
		text = "+" + text
		o.class("int-plus-sign")
	}
	return text, model.VInt(v)
}

func genHex(s core.Source, o *Opts) (string, model.Val) {
	var v uint64
	switch s.Choose(3, "hexclass") {
	case 0:
		v = model.UintPool[s.Choose(len(model.UintPool), "uint")]
		o.class("hex-boundary")
	case 1:
		v = uint64(s.Choose(256, "hex"))
		o.class("hex-small")
	default:
		v = core.Mix(s.Bits("hex")) >> uint(s.Choose(64, "shift"))
		o.class("hex-random")
	}
	text := strconv.FormatUint(v, 16)
	if len(text) < 16 && s.Choose(4, "leading-zero") == 0 {
		text = strings.Repeat("0", 1+s.Choose(16-len(text), "zeros")) + text
		o.class("hex-leading-zeros")
	}
	if len(text) == 16 {
		o.class("hex-16-digits")
	}
	return "0x" + text, model.VUint(v)
}

// genFloatLit writes sign? (0|ordinal) fraction exponent? and evaluates it with strconv.
func genFloatLit(s core.Source, o *Opts) (string, float64) {
	for {
		text := ""
		switch s.Choose(3, "fsign") {
		case 1:
			text = "-"
		case 2:
			text = "+"
			o.class("float-plus-sign")
		}
		if s.Choose(3, "int-part") == 0 {
			text += "0"
		} else {
			text += strconv.Itoa(1 + s.Choose(9, "d"))
			for k := s.Choose(4, "int-digits"); k > 0; k-- {
				text += strconv.Itoa(s.Choose(10, "d"))
			}
		}
		text += "."
		for k := 1 + s.Choose(4, "frac-digits"); k > 0; k-- {
			text += strconv.Itoa(s.Choose(10, "d"))
		}
		if s.Choose(2, "exponent") == 0 {
			e := core.Pick(s, []string{"e", "E"}, "e")
			sign := core.Pick(s, []string{"+", "-"}, "esign")
			var digits string
			switch s.Choose(3, "exp-digits") {
			case 0:
				digits = strconv.Itoa(1 + s.Choose(9, "x"))
				o.class("exponent-1-digit")
			case 1:
				digits = strconv.Itoa(10 + s.Choose(90, "x"))
				o.class("exponent-2-digits")
			default:
				digits = strconv.Itoa(100 + s.Choose(200, "x"))
				o.class("exponent-3-digits")
			}
			text += e + sign + digits
		} else {
			o.class("float-no-exponent")
		}
		f, err := strconv.ParseFloat(text, 64)
		if err != nil || math.IsInf(f, 0) {
			continue // out of range: belongs to the unrepresentable generator
		}
		return text, f
	}
}

var runeEscapes = []struct {
	text string
	r    rune
}{{`\a`, '\a'}, {`\b`, '\b'}, {`\f`, '\f'}, {`\n`, '\n'}, {`\r`, '\r'}, {`\t`, '\t'}, {`\v`, '\v'}, {`\\`, '\\'}}

var plainRunes = []rune{'a', 'Z', '0', ' ', '~', '"', '[', ']', '(', ')', ':', ',', 'é', 'ÿ', 'α', '世', '😀', 0x10ffff, 0xfffd, 0xad, 0x200b, '#', '+', '-', '.', 'x', 'e', 'i'}

func genRuneLit(s core.Source, o *Opts) (string, model.Val) {
	switch s.Choose(6, "runeclass") {
	case 0:
		e := runeEscapes[s.Choose(len(runeEscapes), "esc")]
		o.class("rune-escape")
		return "'" + e.text + "'", model.VRune(e.r)
	case 1:
		o.class("rune-escape-quote")
		return `'\''`, model.VRune('\'')
	case 2:
		b := s.Choose(256, "byte")
		o.class("rune-\\x")
		if b >= 0x80 {
			o.class("rune-\\x>=80")
		}
		return fmt.Sprintf(`'\x%02x'`, b), model.VRune(rune(b))
	case 3:
		r := rune(s.Choose(0x10000, "u"))
		if r >= 0xd800 && r <= 0xdfff {
			r = 0xe9
		}
		o.class("rune-\\u")
		return fmt.Sprintf(`'\u%04x'`, r), model.VRune(r)
	case 4:
		r := rune(s.Int(0, 0x10ffff, "U"))
		if r >= 0xd800 && r <= 0xdfff {
			r = 0x1f600
		}
		o.class("rune-\\U")
		return fmt.Sprintf(`'\U%08x'`, r), model.VRune(r)
	default:
		r := plainRunes[s.Choose(len(plainRunes), "plain")]
		o.class("rune-plain")
		return "'" + string(r) + "'", model.VRune(r)
	}
}

func genStringLit(s core.Source, o *Opts) (string, model.Val) {
	n := s.Choose(8, "strlen")
	if s.Choose(12, "long") == 0 {
		n = 40 + s.Choose(20, "strlen") // longer than the diagnostic truncation limit
		o.class("string-long")
	}
	var text strings.Builder
	var val []byte
	text.WriteByte('"')
	for i := 0; i < n; i++ {
		switch s.Choose(8, "strpart") {
		case 0:
			e := runeEscapes[s.Choose(len(runeEscapes), "esc")]
			text.WriteString(e.text)
			val = append(val, string(e.r)...)
			o.class("string-escape")
		case 1:
			text.WriteString(`\"`)
			val = append(val, '"')
			o.class("string-escape-quote")
		case 2:
			b := byte(s.Choose(256, "byte"))
			fmt.Fprintf(&text, `\x%02x`, b)
			val = append(val, b)
			o.class("string-\\x")
		case 3:
			r := rune(s.Choose(0x10000, "u"))
			if r >= 0xd800 && r <= 0xdfff {
				r = 0x3b1
			}
			fmt.Fprintf(&text, `\u%04x`, r)
			val = append(val, string(r)...)
			o.class("string-\\u")
		case 4:
			r := rune(s.Int(0, 0x10ffff, "U"))
			if r >= 0xd800 && r <= 0xdfff {
				r = 0x1f600
			}
			fmt.Fprintf(&text, `\U%08x`, r)
			val = append(val, string(r)...)
			o.class("string-\\U")
		default:
			r := plainRunes[s.Choose(len(plainRunes), "plain")]
			if r == '"' {
				r = '\''
			}
			text.WriteRune(r)
			val = append(val, string(r)...)
		}
	}
	text.WriteByte('"')
	if n == 0 {
		o.class("string-empty")
	}
	return text.String(), model.VStr(string(val))
}

// ---------------------------------------------------------------- literals that cannot be represented

type BadLiteral struct {
	Text    string
	Natural *model.Val // the one meaning that would also be acceptable (nil: must be rejected)
	Class   string
}

var BadLiterals = []BadLiteral{
	{"9223372036854775808", nil, "int-overflow"}, {"-9223372036854775809", nil, "int-overflow"}, {"99999999999999999999", nil, "int-overflow"},
	{"+18446744073709551616", nil, "int-overflow"}, {"123456789012345678901234567890", nil, "int-overflow"},
	{"0x10000000000000000", nil, "hex-overflow"}, {"0xfffffffffffffffff", nil, "hex-overflow"}, {"0x123456789abcdef0123", nil, "hex-overflow"},
	{"1.0E+309", nil, "float-overflow"}, {"1.0e+999", nil, "float-overflow"}, {"-2.5E+400", nil, "float-overflow"}, {"1.8E+308", nil, "float-overflow"},
	{"(1.0E+999+1.0i)", nil, "float-overflow"}, {"(1.0+1.0e+310i)", nil, "float-overflow"},
	{`"\ud800"`, nil, "bad-escape"}, {`"a\udfffb"`, nil, "bad-escape"}, {`"\U00110000"`, nil, "bad-escape"}, {`"\Uffffffff"`, nil, "bad-escape"},
	{`'\ud800'`, nil, "bad-escape"}, {`'\U00110000'`, nil, "bad-escape"}, {`'\Udeadbeef'`, nil, "bad-escape"},
	{`"\'"`, valp(model.VStr("'")), "foreign-quote-escape"}, {`"it\'s"`, valp(model.VStr("it's")), "foreign-quote-escape"}, {`'\"'`, valp(model.VRune('"')), "foreign-quote-escape"},
}

func valp(v model.Val) *model.Val { return &v }
