package stress

import (
	"fmt"
	"sync"

	col "github.com/craterdog/go-collection-framework/v4/collection"
	"verifharness/core"
	"verifharness/lib"
)

// ---------------------------------------------------------------- C19: collections made from one another across kinds

// An Array, a List made from it, a Stack made from the List, a Queue made from the Array, a Set made from the
// List, a second List made from the Set, a Catalog and a Map made from one another, a second Catalog, the two merged
// and an extract of the merged one: each is an instance of its
// own.  One goroutine per instance reorders, rewrites and reads its instance; every transcript must equal the
// transcript of the same work done alone, and the race detector must stay silent.
type convertedCase struct {
	Seed   int `json:"seed"`
	Size   int `json:"size"`
	Rounds int `json:"rounds"`
}

type worker struct {
	name string
	work func() string
}

func convertedWorkers(c convertedCase) []worker {
	n := lib.Notation()
	vals := intsFor(c.Seed, c.Size)
	array := col.Array[int](n).MakeFromArray(vals)
	list := col.List[int](n).MakeFromSequence(array)
	stack := col.Stack[int](n).MakeFromSequence(list)
	queue := col.Queue[int](n).MakeFromSequence(array)
	set := col.Set[int](n).MakeFromSequence(list)
	list2 := col.List[int](n).MakeFromSequence(set)
	array2 := col.Array[int](n).MakeFromSequence(list2)
	catalog := col.Catalog[int, int](n).Make()
	for i, v := range vals {
		catalog.SetValue(i, v)
	}
	map_ := col.Map[int, int](n).MakeFromSequence(catalog)
	catalog2 := col.Catalog[int, int](n).MakeFromSequence(map_)
	// a second catalog with keys of its own, the two merged, and an extract of the merged one
	other := col.Catalog[int, int](n).Make()
	for i, v := range vals {
		other.SetValue(500+i, v)
	}
	other.SetValue(777, 7)
	merged := col.Catalog[int, int](n).Merge(catalog, other)
	extract := col.Catalog[int, int](n).Extract(merged, col.List[int](n).MakeFromArray([]int{777, 0}))
	rewrite := func(x col.CatalogLike[int, int], step int) func() string {
		return func() string {
			out := ""
			for r := 0; r < c.Rounds; r++ {
				for _, k := range x.GetKeys().AsArray() {
					x.SetValue(k, x.GetValue(k)+step)
				}
				out = fmt.Sprint(x)
			}
			return out
		}
	}
	inPlace := func(x interface {
		col.Sequential[int]
		col.Sortable[int]
		col.Updatable[int]
	}) func() string {
		return func() string {
			out := ""
			for r := 0; r < c.Rounds; r++ {
				x.SortValues()
				x.ReverseValues()
				if x.GetSize() > 0 {
					x.SetValue(1, r)
					x.SetValue(-1, -r)
				}
				out = fmt.Sprint(x.AsArray(), x)
			}
			return out
		}
	}
	return []worker{
		{"the Array", inPlace(array)},
		{"the List made from the Array", inPlace(list)},
		{"the Stack made from that List", func() string {
			out := ""
			for r := 0; r < c.Rounds; r++ {
				if stack.GetSize() > 0 {
					stack.RemoveTop()
				}
				stack.AddValue(r)
				out = fmt.Sprint(stack.AsArray(), stack)
			}
			return out
		}},
		{"the Queue made from the Array", func() string {
			out := ""
			for r := 0; r < c.Rounds; r++ {
				if queue.GetSize() > 0 {
					queue.RemoveHead()
				}
				queue.AddValue(r)
				out = fmt.Sprint(queue.AsArray(), queue)
			}
			return out
		}},
		{"the Set made from the List", func() string {
			out := ""
			for r := 0; r < c.Rounds; r++ {
				set.AddValue(1000 + r)
				if set.GetSize() > 1 {
					set.RemoveValue(set.GetValue(1))
				}
				out = fmt.Sprint(set.AsArray(), set)
			}
			return out
		}},
		{"the List made from the Set", inPlace(list2)},
		{"the Array made from that List", inPlace(array2)},
		{"the Catalog", func() string {
			out := ""
			for r := 0; r < c.Rounds; r++ {
				catalog.SetValue(r%3, r)
				catalog.ReverseValues()
				out = fmt.Sprint(catalog.GetKeys().AsArray(), catalog)
			}
			return out
		}},
		{"the Map made from the Catalog", func() string {
			out := ""
			for r := 0; r < c.Rounds; r++ {
				map_.SetValue(r%3, -r)
				map_.RemoveValue(r%5 + 1)
				out = fmt.Sprint(map_.GetSize(), map_.GetValue(0), map_.GetValue(2))
			}
			return out
		}},
		{"a second Catalog, merged with the first", rewrite(other, 1)},
		{"the merged Catalog", rewrite(merged, 100)},
		{"the Catalog extracted from the merged one", rewrite(extract, 10000)},
		{"the Catalog made from the Map", func() string {
			out := ""
			for r := 0; r < c.Rounds; r++ {
				catalog2.SortValues()
				catalog2.SetValue(r%4, 7*r)
				for _, a := range catalog2.AsArray() {
					a.SetValue(a.GetValue() + 1)
				}
				out = fmt.Sprint(catalog2)
			}
			return out
		}},
	}
}

func execConverted(c convertedCase, _ core.Source) (res core.Result) {
	solo := []string{}
	for _, w := range convertedWorkers(c) {
		// alone: the others are never touched
		solo = append(solo, w.work())
	}
	workers := convertedWorkers(c)
	got := make([]string, len(workers))
	panics := make([]any, len(workers))
	var wg sync.WaitGroup
	start := make(chan struct{})
	for k, w := range workers {
		k, w := k, w
		wg.Add(1)
		go func() {
			defer wg.Done()
			defer func() {
				if e := recover(); e != nil {
					panics[k] = e
				}
			}()
			<-start
			got[k] = w.work()
		}()
	}
	close(start)
	wg.Wait()
	for k, w := range workers {
		if panics[k] != nil {
			res.Violation = core.Violate("C19/converted/panicked", "working on %s while other goroutines work on the collections it was made from (or that were made from it) panicked: %s", w.name, lib.Short(panics[k]))
			return
		}
		if got[k] != solo[k] {
			res.Violation = core.Violate("C19/converted/result-differs", "working on %s concurrently with the related collections observed %s, alone %s", w.name, lib.Short(got[k]), lib.Short(solo[k]))
			return
		}
	}
	res.NonTrivial = c.Size > 0
	return
}
