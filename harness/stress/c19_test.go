package stress

import (
	"fmt"
	"reflect"
	"runtime"
	"sort"
	"strings"
	"sync"
	"testing"
	"time"

	mod "github.com/craterdog/go-collection-framework/v4"
	age "github.com/craterdog/go-collection-framework/v4/agent"
	cdc "github.com/craterdog/go-collection-framework/v4/cdcn"
	col "github.com/craterdog/go-collection-framework/v4/collection"
	"verifharness/core"
	"verifharness/lib"
)

// ---------------------------------------------------------------- C19: distinct instances are independent across goroutines

// A script works on instances it creates itself (or that were handed to it alone) and returns a
// transcript of everything it observed.  Scripts are deterministic: no Shuffle, no unordered Map views.
type script func(id int) string

func intsFor(id, n int) []int {
	out := make([]int, n)
	for i := range out {
		out[i] = int(core.Mix(uint64(id)*131+uint64(i)) % 50)
	}
	return out
}

func slicesFor(id, n int) [][]int {
	out := make([][]int, n)
	for i := range out {
		k := int(core.Mix(uint64(id)*17+uint64(i)) % 4)
		out[i] = intsFor(id*7+i, k)
	}
	return out
}

var families = map[string]script{
	"build-mutate": func(id int) string {
		l := col.List[int](lib.Notation()).MakeFromArray(intsFor(id, 12))
		l.InsertValue(3, id)
		l.RemoveValue(-1)
		l.AppendValues(col.List[int](lib.Notation()).MakeFromArray(intsFor(id+1, 3)))
		l.ReverseValues()
		c := col.Catalog[string, int](lib.Notation()).Make()
		for i, v := range l.AsArray() {
			c.SetValue(fmt.Sprintf("k%d", i%5), v)
		}
		c.RemoveValue("k2")
		return fmt.Sprint(l.AsArray(), c.GetKeys().AsArray(), c.GetValue("k1"))
	},
	"search-composite": func(id int) string {
		l := col.List[[]int](lib.Notation()).MakeFromArray(slicesFor(id, 10))
		var b strings.Builder
		for _, probe := range slicesFor(id, 10) {
			fmt.Fprint(&b, l.GetIndex(probe), l.ContainsValue(append(probe, 99)), " ")
		}
		s := col.Set[[]int](lib.Notation()).MakeFromArray(slicesFor(id+3, 8))
		fmt.Fprint(&b, s.AsArray(), s.ContainsValue([]int{1}))
		return b.String()
	},
	"sort-int": func(id int) string {
		l := col.List[int](lib.Notation()).MakeFromArray(intsFor(id, 40))
		l.SortValues()
		a := intsFor(id+9, 33)
		age.Sorter[int]().Make().SortValues(a)
		return fmt.Sprint(l.AsArray(), a)
	},
	"sort-composite": func(id int) string {
		a := slicesFor(id, 24)
		age.Sorter[[]int]().Make().SortValues(a) // the default ranker of the sorter class
		l := col.List[[]int](lib.Notation()).MakeFromArray(slicesFor(id+5, 16))
		l.SortValues()
		return fmt.Sprint(a, l.AsArray())
	},
	"compare-rank": func(id int) string {
		c := age.Collator[any]().Make()
		n := lib.Notation()
		mk := func(k int) any {
			inner := col.List[any](n).MakeFromArray([]any{int64(k), fmt.Sprint("s", k%3)})
			return col.List[any](n).MakeFromArray([]any{inner, float64(k) / 2, nil})
		}
		var b strings.Builder
		for i := 0; i < 12; i++ {
			x, y := mk(id+i), mk(id+(i*7)%5)
			fmt.Fprint(&b, c.RankValues(x, y), c.CompareValues(x, y), " ")
		}
		return b.String()
	},
	"format-string": func(id int) string {
		l := col.List[int](lib.Notation()).MakeFromArray(intsFor(id, 9))
		s := col.Set[int](lib.Notation()).MakeFromArray(intsFor(id+2, 6))
		var b strings.Builder
		for i := 0; i < 6; i++ {
			b.WriteString(fmt.Sprint(l))
			b.WriteString(fmt.Sprint(s))
		}
		return b.String()
	},
	"format-notation": func(id int) string {
		n := cdc.Notation().Make()
		l := col.List[any](n).MakeFromArray([]any{int64(id), "x", col.List[any](n).MakeFromArray([]any{1.5, nil})})
		var b strings.Builder
		for i := 0; i < 6; i++ {
			b.WriteString(n.FormatValue(l))
			b.WriteString(mod.FormatValue(l))
		}
		return b.String()
	},
	"parse": func(id int) string {
		n := cdc.Notation().Make()
		src := fmt.Sprintf("[\n    %d\n    \"s%d\"\n    [1.5, nil, 0x%x](Set)\n    [\"k\": [true](Stack)](Catalog)\n](List)\n", id, id, id)
		var b strings.Builder
		for i := 0; i < 4; i++ {
			v := n.ParseSource(src)
			b.WriteString(cdc.Notation().Make().FormatValue(v))
		}
		return b.String()
	},
	// agents with a past: a call on the instance panicked part-way (a value the formatter cannot print, a text
	// the parser refuses, a self-containing value the collator gives up on) and the instance is used again
	"format-after-panic": func(id int) string {
		f := cdc.Formatter().Make()
		n := cdc.Notation().Make()
		l := col.List[any](lib.Notation()).MakeFromArray([]any{int64(id), "x", col.List[any](lib.Notation()).MakeFromArray([]any{1.5, nil, int64(id % 7)})})
		var b strings.Builder
		for i := 0; i < 5; i++ {
			lib.Call(func() { f.FormatValue([]any{int64(1), struct{ X chan int }{}}) })
			lib.Call(func() { n.FormatValue([]any{"a", struct{ X chan int }{}}) })
			b.WriteString(f.FormatValue(l))
			b.WriteString(n.FormatValue(l))
		}
		return b.String()
	},
	"parse-after-reject": func(id int) string {
		parser := cdc.Parser().Make()
		n := cdc.Notation().Make()
		src := fmt.Sprintf("[\n    %d\n    \"s%d\"\n    [1.5, nil](Set)\n](List)\n", id, id)
		var b strings.Builder
		for i := 0; i < 4; i++ {
			lib.Call(func() { parser.ParseSource("[1 2](Array)") })
			lib.Call(func() { n.ParseSource("[1, 2, 3(List)") })
			b.WriteString(fmt.Sprint(parser.ParseSource(src)))
			b.WriteString(fmt.Sprint(n.ParseSource(src)))
		}
		return b.String()
	},
	"rank-after-cycle": func(id int) string {
		c := age.Collator[any]().Make()
		n := lib.Notation()
		cyclic := col.List[any](n).Make()
		cyclic.AppendValue(cyclic)
		mk := func(k int) any { return col.List[any](n).MakeFromArray([]any{int64(k % 5), fmt.Sprint("s", k%3), nil}) }
		var b strings.Builder
		for i := 0; i < 6; i++ {
			lib.Call(func() { c.RankValues(cyclic, cyclic) })
			lib.Call(func() { c.CompareValues(cyclic, cyclic) })
			x, y := mk(id+i), mk(id+(i*7)%5)
			fmt.Fprint(&b, c.RankValues(x, y), c.CompareValues(x, y), " ")
		}
		return b.String()
	},
	"shuffle": func(id int) string {
		// the outcome of a shuffle is random; what it holds is not
		l := col.List[int](lib.Notation()).MakeFromArray(intsFor(id, 60))
		a := col.Array[int](lib.Notation()).MakeFromArray(intsFor(id+1, 60))
		c := col.Catalog[int, int](lib.Notation()).Make()
		for i, v := range intsFor(id+2, 20) {
			c.SetValue(i, v)
		}
		g := intsFor(id+3, 80)
		for r := 0; r < 6; r++ {
			l.ShuffleValues()
			a.ShuffleValues()
			c.ShuffleValues()
			age.Sorter[int]().Make().ShuffleValues(g)
		}
		l.SortValues()
		a.SortValues()
		c.SortValues()
		sort.Ints(g)
		return fmt.Sprint(l.AsArray(), a.AsArray(), c.GetKeys().AsArray(), g)
	},
	"iterate": func(id int) string {
		l := col.List[int](lib.Notation()).MakeFromArray(intsFor(id, 15))
		it := l.GetIterator()
		var b strings.Builder
		for it.HasNext() {
			fmt.Fprint(&b, it.GetNext(), ",")
		}
		it.ToSlot(-3)
		for it.HasPrevious() {
			fmt.Fprint(&b, it.GetPrevious(), ";")
		}
		q := col.Queue[int](lib.Notation()).MakeFromArray(intsFor(id, 5))
		st := col.Stack[int](lib.Notation()).MakeFromArray(intsFor(id, 5))
		v, _ := q.RemoveHead()
		fmt.Fprint(&b, v, st.RemoveTop(), q.AsArray(), st.AsArray())
		return b.String()
	},
	// collections that hold nothing: whatever stands for "no values" (an empty array, an iterator over
	// nothing, the empty text) must not be one object handed to every instance
	"empties": func(id int) string {
		n := lib.Notation()
		var b strings.Builder
		walk := func(name string, it age.IteratorLike[int]) {
			it.ToEnd()
			it.ToSlot(id % 3)
			it.ToSlot(-1 - id%2)
			fmt.Fprint(&b, name, it.GetSlot(), it.HasNext(), it.HasPrevious(), it.GetSize(), it.IsEmpty())
			it.ToStart()
			fmt.Fprint(&b, it.GetSlot(), it.HasNext(), it.HasPrevious(), ";")
		}
		l := col.List[int](n).Make()
		walk("List", l.GetIterator())
		a := col.Array[int](n).Make(0)
		walk("Array", a.GetIterator())
		st := col.Set[int](n).Make()
		walk("Set", st.GetIterator())
		sk := col.Stack[int](n).Make()
		walk("Stack", sk.GetIterator())
		q := col.Queue[int](n).Make()
		walk("Queue", q.GetIterator())
		l2 := col.List[int](n).MakeFromArray(intsFor(id, 3))
		l2.RemoveAll()
		walk("emptied", l2.GetIterator())
		c := col.Catalog[int, int](n).Make()
		m := col.Map[int, int](n).Make()
		ci, mi := c.GetIterator(), m.GetIterator()
		ci.ToEnd()
		mi.ToEnd()
		ci.ToSlot(id % 2)
		mi.ToSlot(-1)
		fmt.Fprint(&b, ci.GetSlot(), ci.HasNext(), mi.GetSlot(), mi.HasPrevious(), c.GetKeys().AsArray(), m.GetKeys().AsArray())
		l.SortValues()
		a.ReverseValues()
		st.RemoveAll()
		fmt.Fprint(&b, l.AsArray(), a.AsArray(), st.AsArray(), sk.AsArray(), q.AsArray(), n.FormatValue(l), n.FormatValue(c), l.GetIndex(id), st.ContainsValue(id))
		l.AppendValue(id)
		st.AddValue(id)
		fmt.Fprint(&b, l.AsArray(), st.AsArray())
		return b.String()
	},
	// every instance and every view knows its class: asking for it (also for views that were made without
	// going through a class, and for element types nobody has used before) is a read of the class registries
	"classes": func(id int) string {
		n := lib.Notation()
		type private struct{ X int } // a key type of this script's own
		m := col.Map[private, int](n).Make()
		m.SetValue(private{id}, id) // one key: the order of a Map's views is not defined
		keys := m.GetKeys()
		vals := m.GetValues(keys)
		var b strings.Builder
		fmt.Fprint(&b, classOf(keys), classOf(vals), classOf(m), keys.GetSize(), vals.AsArray())
		l := col.List[private](n).MakeFromArray(keys.AsArray())
		part := l.GetValues(1, 1)
		fmt.Fprint(&b, classOf(part), classOf(l), classOf(l.GetIterator()), part.AsArray())
		sibling := l.GetClass().Make()
		sibling.AppendValue(private{id})
		fmt.Fprint(&b, sibling.AsArray(), l.GetSize())
		c := col.Catalog[private, int](n).Make()
		c.SetValue(private{id}, 1)
		fmt.Fprint(&b, classOf(c), classOf(c.GetKeys()), classOf(c.AsArray()[0]))
		q := col.Queue[private](n).MakeFromArray(keys.AsArray())
		st := col.Stack[private](n).MakeFromSequence(keys)
		s := col.Set[int](n).MakeFromArray(intsFor(id, 4))
		fmt.Fprint(&b, classOf(q), classOf(st), classOf(s), classOf(s.GetCollator()), q.GetSize(), st.GetSize())
		return b.String()
	},
	// formatters with a wider nesting limit than the default, each used by one goroutine for a document of its own
	// that nests deeper than the default limit allows
	"format-deep": func(id int) string {
		depth := 10 + id%7
		var doc any = int64(id)
		for level := 0; level < depth; level++ {
			doc = col.List[any](lib.Notation()).MakeFromArray([]any{int64(level), doc})
		}
		text := cdc.Formatter().MakeWithMaximum(24).FormatValue(doc)
		lines := strings.Split(text, "\n")
		// the innermost line is indented by four characters per level
		deepest := 0
		for _, l := range lines {
			if n := len(l) - len(strings.TrimLeft(l, " ")); n > deepest {
				deepest = n
			}
		}
		return fmt.Sprint(len(lines), deepest, len(text), strings.Count(text, "](List)"))
	},
	"set-algebra-composite": func(id int) string {
		S := col.Set[[]int](lib.Notation())
		a, b := S.MakeFromArray(slicesFor(id, 7)), S.MakeFromArray(slicesFor(id+1, 7))
		// the derived sets are instances of their own; they are used further below
		u, x := S.Or(a, b), S.Xor(a, b)
		u.AddValue([]int{id})
		x.RemoveValue([]int{})
		return fmt.Sprint(S.And(a, b).AsArray(), u.AsArray(), x.AsArray(), S.Sans(a, b).AsArray())
	},
}

// classOf asks an instance or a view for its class (views come back as plain sequences)
func classOf(x any) bool {
	m := reflect.ValueOf(x).MethodByName("GetClass")
	if !m.IsValid() {
		return false
	}
	out := m.Call(nil)
	return len(out) == 1 && !out[0].IsNil()
}

var familyNames = func() []string {
	var out []string
	for k := range families {
		out = append(out, k)
	}
	sort.Strings(out)
	return out
}()

// pairs of families that are candidates for hidden shared state
var sharingCandidates = map[string]bool{"format-string": true, "format-notation": true, "sort-composite": true, "sort-int": true, "parse": true, "search-composite": true,
	"set-algebra-composite": true, "compare-rank": true, "format-after-panic": true, "parse-after-reject": true, "rank-after-cycle": true, "shuffle": true, "empties": true, "classes": true, "format-deep": true}

type indepCase struct {
	Goroutines []string `json:"goroutines"` // family per goroutine
	Repeat     int      `json:"repeat"`
	Yield      bool     `json:"yield"`
}

func genIndep(s core.Source) indepCase {
	c := indepCase{Repeat: 2 + s.Choose(4, "repeat"), Yield: s.Choose(2, "yield") == 0}
	n := 2 + s.Choose(15, "goroutines")
	switch s.Choose(3, "mix") {
	case 0: // all the same family: same element types, same classes
		f := core.Pick(s, familyNames, "family")
		for i := 0; i < n; i++ {
			c.Goroutines = append(c.Goroutines, f)
		}
	case 1: // a pair of families
		f, g := core.Pick(s, familyNames, "family"), core.Pick(s, familyNames, "family2")
		for i := 0; i < n; i++ {
			c.Goroutines = append(c.Goroutines, []string{f, g}[i%2])
		}
	default:
		for i := 0; i < n; i++ {
			c.Goroutines = append(c.Goroutines, core.Pick(s, familyNames, "family"))
		}
	}
	return c
}

func execIndep(c indepCase, _ core.Source) (res core.Result) {
	n := len(c.Goroutines)
	// what each script yields when it runs alone
	solo := make([]string, n)
	for i, f := range c.Goroutines {
		if p, payload := lib.Call(func() { solo[i] = families[f](i) }); p {
			res.Violation = core.Violate("C19/script-panicked-alone/"+f, "script %s panicked when run alone: %s", f, lib.Short(payload))
			return
		}
	}
	var wg sync.WaitGroup
	got := make([][]string, n)
	panics := make([]any, n)
	start := make(chan struct{})
	for i, f := range c.Goroutines {
		i, f := i, f
		wg.Add(1)
		go func() {
			defer wg.Done()
			defer func() {
				if e := recover(); e != nil {
					panics[i] = e
				}
			}()
			<-start
			for k := 0; k < c.Repeat; k++ {
				got[i] = append(got[i], families[f](i))
				if c.Yield {
					runtime.Gosched()
				}
			}
		}()
	}
	close(start)
	if !withTimeout(120*time.Second, &wg) {
		res.Violation = core.Violate("C19/stuck", "the goroutines did not finish within 120 s: %v", c.Goroutines)
		return
	}
	for i, f := range c.Goroutines {
		if panics[i] != nil {
			res.Violation = core.Violate("C19/panicked/"+f, "script %s (goroutine %d of %v) panicked when run next to the others: %s", f, i, c.Goroutines, lib.Short(panics[i]))
			return
		}
		for k, g := range got[i] {
			if g != solo[i] {
				a, b := g, solo[i]
				if len(a) > 300 {
					a = a[:300] + "..."
				}
				if len(b) > 300 {
					b = b[:300] + "..."
				}
				res.Violation = core.Violate("C19/result-differs/"+f, "script %s (goroutine %d of %v, repetition %d) observed\n%s\nalone it observes\n%s", f, i, c.Goroutines, k, a, b)
				return
			}
		}
	}
	cand := 0
	for _, f := range c.Goroutines {
		if sharingCandidates[f] {
			cand++
		}
	}
	res.NonTrivial = cand >= 2
	seen := map[string]bool{}
	for _, f := range c.Goroutines {
		if !seen[f] {
			seen[f] = true
			res.Classes = append(res.Classes, "family-"+f)
		}
	}
	return
}

// ---------------------------------------------------------------- derived instances: a set returned by a class function is an instance of its own

type derivedCase struct {
	Elem   string `json:"elem"` // int | ints
	Seed   int    `json:"seed"`
	Rounds int    `json:"rounds"`
}

func derivedScript[E any](vals func(id, n int) []E, probe func(k int) E, c derivedCase) (setup func() []col.SetLike[E], work func(s col.SetLike[E], k int) string) {
	S := col.Set[E](lib.Notation())
	setup = func() []col.SetLike[E] {
		var a, b col.SetLike[E]
		if c.Elem != "part-deep" {
			a, b = S.MakeFromArray(vals(c.Seed, 9)), S.MakeFromArray(vals(c.Seed+1, 9))
		} else {
			// the operands carry collators of the caller's own with a wider traversal limit: the members nest
			// deeper than the default limit allows
			a, b = S.MakeWithCollator(age.Collator[E]().MakeWithMaximum(40)), S.MakeWithCollator(age.Collator[E]().MakeWithMaximum(40))
			for _, v := range vals(c.Seed, 9) {
				a.AddValue(v)
			}
			for _, v := range vals(c.Seed+1, 9) {
				b.AddValue(v)
			}
		}
		return []col.SetLike[E]{a, b, S.Or(a, b), S.And(a, b), S.Sans(a, b), S.Xor(a, b)}
	}
	work = func(s col.SetLike[E], k int) string {
		var b strings.Builder
		for r := 0; r < c.Rounds; r++ {
			s.AddValue(probe(k*100 + r))
			fmt.Fprint(&b, s.ContainsValue(probe(r)), s.GetIndex(probe(k*100+r)), s.GetSize(), " ")
			s.RemoveValue(probe(k*100 + r))
		}
		for _, x := range s.AsArray() {
			fmt.Fprint(&b, showElem(x), " ")
		}
		return b.String()
	}
	return
}

// showElem prints an element without its addresses
func showElem(x any) string {
	if p, ok := x.(*part); ok {
		return p.String()
	}
	return fmt.Sprint(x)
}

// part is a class-like element: a pointer whose attributes are reachable through its getters only.  Its sub-parts
// nest, so ranking two parts walks down through getters and Go arrays and drives the collator's depth counter
// close to (but never beyond) the default maximum.
type part struct {
	name  string
	parts []*part
}

func (v *part) GetName() string   { return v.name }
func (v *part) GetParts() []*part { return v.parts }
func (v *part) String() string {
	if len(v.parts) == 0 {
		return v.name
	}
	return v.name + "<" + v.parts[0].String() + ">"
}

// chain makes a part nested depth levels deep; two chains differ at the very bottom only
func chain(depth int, leaf string) *part {
	result := &part{name: leaf}
	for level := 0; level < depth; level++ {
		result = &part{name: "a", parts: []*part{result}}
	}
	return result
}

const partDepth = 12 // well inside the default maximum of 16 for one traversal, beyond it as soon as two traversals add up

func partsFor(id, n int) []*part {
	out := make([]*part, n)
	for i := range out {
		out[i] = chain(partDepth, fmt.Sprintf("leaf-%02d", core.Mix(uint64(id)*131+uint64(i))%50))
	}
	return out
}

func runDerived[E any](vals func(id, n int) []E, probe func(k int) E, c derivedCase) *core.Violation {
	setup, work := derivedScript(vals, probe, c)
	soloSets := setup()
	solo := make([]string, len(soloSets))
	for k, s := range soloSets {
		solo[k] = work(s, k)
	}
	sets := setup()
	got := make([]string, len(sets))
	panics := make([]any, len(sets))
	var wg sync.WaitGroup
	start := make(chan struct{})
	for k, s := range sets {
		k, s := k, s
		wg.Add(1)
		go func() {
			defer wg.Done()
			defer func() {
				if e := recover(); e != nil {
					panics[k] = e
				}
			}()
			<-start
			got[k] = work(s, k)
		}()
	}
	close(start)
	wg.Wait()
	names := []string{"A", "B", "Or(A,B)", "And(A,B)", "Sans(A,B)", "Xor(A,B)"}
	for k := range sets {
		if panics[k] != nil {
			return core.Violate("C19/derived/panicked", "working on %s while other goroutines work on the other sets panicked: %s", names[k], lib.Short(panics[k]))
		}
		if got[k] != solo[k] {
			return core.Violate("C19/derived/result-differs", "working on %s concurrently with the other sets observed %s, alone %s", names[k], got[k], solo[k])
		}
	}
	return nil
}

// rec is a struct element held by value that contains a slice (ranked field by field)
type rec struct {
	Tags []int
	N    int
}

func recsFor(id, n int) []rec {
	out := make([]rec, n)
	for i, s := range slicesFor(id, n) {
		out[i] = rec{Tags: s, N: i % 3}
	}
	return out
}

func execDerived(c derivedCase, _ core.Source) (res core.Result) {
	if c.Elem == "int" {
		res.Violation = runDerived(intsFor, func(k int) int { return 1000 + k }, c)
	} else if c.Elem == "part" {
		c.Rounds = 8 + c.Rounds/4
		res.Violation = runDerived(partsFor, func(k int) *part { return chain(partDepth, fmt.Sprintf("probe-%04d", k)) }, c)
	} else if c.Elem == "part-deep" {
		c.Rounds = 4 + c.Rounds/10 // ranking parts that nest 20 deep is slow
		deep := func(id, n int) []*part {
			out := make([]*part, n)
			for i := range out {
				out[i] = chain(20, fmt.Sprintf("leaf-%02d", core.Mix(uint64(id)*131+uint64(i))%50))
			}
			return out
		}
		res.Violation = runDerived(deep, func(k int) *part { return chain(20, fmt.Sprintf("probe-%04d", k)) }, c)
	} else if c.Elem == "rec" {
		res.Violation = runDerived(recsFor, func(k int) rec { return rec{Tags: []int{1000, k}, N: k} }, c)
	} else {
		res.Violation = runDerived(slicesFor, func(k int) []int { return []int{1000, k} }, c)
	}
	res.NonTrivial = true
	res.Classes = append(res.Classes, "elem-"+c.Elem)
	return
}

// ---------------------------------------------------------------- first-use races on the class registries

type T0 struct{ A int }
type T1 struct{ A int }
type T2 struct{ A int }
type T3 struct{ A int }
type T4 struct{ A int }
type T5 struct{ A int }
type T6 struct{ A int }
type T7 struct{ A int }

type registryCase struct {
	Type       int `json:"type"`
	Goroutines int `json:"goroutines"`
}

func classesOf[V any]() []any {
	n := lib.Notation()
	return []any{col.List[V](n), col.Set[V](n), col.Array[V](n), col.Stack[V](n), col.Queue[V](n), age.Collator[V](), age.Sorter[V](), age.Iterator[V](),
		col.Catalog[string, V](n), col.Map[string, V](n), col.Association[string, V](n)}
}

var usedTypes [8]bool

func execRegistry(c registryCase, _ core.Source) (res core.Result) {
	if usedTypes[c.Type] {
		// a class registry is first used once per process and type
		res.Classes = append(res.Classes, "type-already-registered")
	}
	usedTypes[c.Type] = true
	var f func() []any
	switch c.Type {
	case 0:
		f = classesOf[T0]
	case 1:
		f = classesOf[T1]
	case 2:
		f = classesOf[T2]
	case 3:
		f = classesOf[T3]
	case 4:
		f = classesOf[T4]
	case 5:
		f = classesOf[T5]
	case 6:
		f = classesOf[T6]
	default:
		f = classesOf[T7]
	}
	results := make([][]any, c.Goroutines)
	var wg sync.WaitGroup
	start := make(chan struct{})
	for i := 0; i < c.Goroutines; i++ {
		i := i
		wg.Add(1)
		go func() {
			defer wg.Done()
			<-start
			results[i] = f()
		}()
	}
	close(start)
	wg.Wait()
	for i := 1; i < c.Goroutines; i++ {
		for k := range results[0] {
			if results[i][k] != results[0][k] {
				res.Violation = core.Violate("C19/registry/two-classes-for-one-type", "class accessor #%d returned different classes to two goroutines that called it concurrently for the same type", k)
				return
			}
		}
	}
	again := f()
	for k := range again {
		if again[k] != results[0][k] {
			res.Violation = core.Violate("C19/registry/class-changed", "class accessor #%d returns a different class on a later call", k)
			return
		}
	}
	res.NonTrivial = true
	return
}

// ---------------------------------------------------------------- first formatting of a collection type from several goroutines at once

type firstFormatCase struct {
	Type       int `json:"type"`
	Goroutines int `json:"goroutines"`
}

var firstFormatTypes = []string{"List[int8]", "Set[int8]", "Stack[int8]", "Queue[int8]", "Array[int8]", "List[int16]", "Set[int16]", "Stack[int16]", "Queue[int16]", "Array[int16]",
	"List[float32]", "Catalog[int16,int8]"}

func buildFresh(typ int, id int) (fmt.Stringer, string) {
	n := lib.Notation()
	a, b, c := 1+id%5, 10+id%7, 20+id%3
	body := fmt.Sprintf("[\n    %d\n    %d\n    %d\n]", a, b, c)
	switch typ {
	case 0:
		return col.List[int8](n).MakeFromArray([]int8{int8(a), int8(b), int8(c)}).(fmt.Stringer), body + "(List)\n"
	case 1:
		return col.Set[int8](n).MakeFromArray([]int8{int8(c), int8(a), int8(b)}).(fmt.Stringer), body + "(Set)\n"
	case 2:
		return col.Stack[int8](n).MakeFromArray([]int8{int8(a), int8(b), int8(c)}).(fmt.Stringer), body + "(Stack)\n"
	case 3:
		return col.Queue[int8](n).MakeFromArray([]int8{int8(a), int8(b), int8(c)}).(fmt.Stringer), body + "(Queue)\n"
	case 4:
		return col.Array[int8](n).MakeFromArray([]int8{int8(a), int8(b), int8(c)}).(fmt.Stringer), body + "(Array)\n"
	case 5:
		return col.List[int16](n).MakeFromArray([]int16{int16(a), int16(b), int16(c)}).(fmt.Stringer), body + "(List)\n"
	case 6:
		return col.Set[int16](n).MakeFromArray([]int16{int16(c), int16(a), int16(b)}).(fmt.Stringer), body + "(Set)\n"
	case 7:
		return col.Stack[int16](n).MakeFromArray([]int16{int16(a), int16(b), int16(c)}).(fmt.Stringer), body + "(Stack)\n"
	case 8:
		return col.Queue[int16](n).MakeFromArray([]int16{int16(a), int16(b), int16(c)}).(fmt.Stringer), body + "(Queue)\n"
	case 9:
		return col.Array[int16](n).MakeFromArray([]int16{int16(a), int16(b), int16(c)}).(fmt.Stringer), body + "(Array)\n"
	case 10:
		return col.List[float32](n).MakeFromArray([]float32{float32(a) + 0.5, float32(b) + 0.5}).(fmt.Stringer), fmt.Sprintf("[\n    %d.5\n    %d.5\n](List)\n", a, b)
	default:
		cat := col.Catalog[int16, int8](n).Make()
		cat.SetValue(int16(a), int8(b))
		cat.SetValue(int16(b), int8(c))
		return cat.(fmt.Stringer), fmt.Sprintf("[\n    %d: %d\n    %d: %d\n](Catalog)\n", a, b, b, c)
	}
}

var formattedTypes [12]bool

func execFirstFormat(c firstFormatCase, _ core.Source) (res core.Result) {
	first := !formattedTypes[c.Type]
	formattedTypes[c.Type] = true
	objs := make([]fmt.Stringer, c.Goroutines)
	want := make([]string, c.Goroutines)
	for i := range objs {
		objs[i], want[i] = buildFresh(c.Type, i)
	}
	got := make([]string, c.Goroutines)
	panics := make([]any, c.Goroutines)
	var wg sync.WaitGroup
	start := make(chan struct{})
	for i := range objs {
		i := i
		wg.Add(1)
		go func() {
			defer wg.Done()
			defer func() {
				if e := recover(); e != nil {
					panics[i] = e
				}
			}()
			<-start
			got[i] = objs[i].String()
		}()
	}
	close(start)
	wg.Wait()
	for i := range objs {
		if panics[i] != nil {
			res.Violation = core.Violate("C19/first-format/panicked", "formatting a %s for the first time from %d goroutines at once panicked: %s", firstFormatTypes[c.Type], c.Goroutines, lib.Short(panics[i]))
			return
		}
		if got[i] != want[i] {
			res.Violation = core.Violate("C19/first-format/result-differs", "formatting distinct %s instances from %d goroutines at once: goroutine %d printed %q, expected %q", firstFormatTypes[c.Type], c.Goroutines, i, got[i], want[i])
			return
		}
	}
	res.NonTrivial = first
	res.Classes = append(res.Classes, "type-"+firstFormatTypes[c.Type])
	return
}

func TestC19(t *testing.T) {
	r := core.Begin(t, "C19")
	defer r.End()
	core.Stress(r, core.Check[indepCase]{Name: "independent-instances", Gen: genIndep, Exec: execIndep, HangLimit: 300 * time.Second}, r.N(150, 2000))
	core.Stress(r, core.Check[derivedCase]{Name: "derived-instances", Gen: func(s core.Source) derivedCase {
		return derivedCase{Elem: core.Pick(s, []string{"int", "ints", "rec", "part", "part-deep"}, "elem"), Seed: s.Choose(1000, "seed"), Rounds: 20 + s.Choose(60, "rounds")}
	}, Exec: execDerived}, r.N(40, 600))
	core.Stress(r, core.Check[convertedCase]{Name: "converted-instances", Gen: func(s core.Source) convertedCase {
		return convertedCase{Seed: s.Choose(1000, "seed"), Size: s.Choose(12, "size"), Rounds: 10 + s.Choose(40, "rounds")}
	}, Exec: execConverted}, r.N(30, 400))
	nextType := 0
	core.Stress(r, core.Check[firstFormatCase]{Name: "first-format", Gen: func(s core.Source) firstFormatCase {
		c := firstFormatCase{Type: nextType % len(firstFormatTypes), Goroutines: 4 + s.Choose(13, "goroutines")}
		nextType++
		return c
	}, Exec: execFirstFormat}, len(firstFormatTypes))
	core.Stress(r, core.Check[firstRankCase]{Name: "first-rank", Gen: genFirstRank, Exec: execFirstRank}, r.N(24, 40))
	core.Stress(r, core.Check[registryCase]{Name: "class-registries", Gen: func(s core.Source) registryCase {
		return registryCase{Type: s.Choose(8, "type"), Goroutines: 2 + s.Choose(15, "goroutines")}
	}, Exec: execRegistry}, r.N(8, 8))
	coldKinds := []string{"format-deep", "format", "parse", "rank", "collections"}
	nextCold := 0
	core.Stress(r, core.Check[coldCase]{Name: "cold-start", Gen: func(s core.Source) coldCase {
		c := coldCase{Kind: coldKinds[nextCold%len(coldKinds)], Children: r.N(6, 30)}
		nextCold++
		return c
	}, Exec: execCold, HangLimit: 1800 * time.Second}, len(coldKinds))
}
