package stress

import (
	"fmt"
	"strings"
	"sync"
	"testing"

	mod "github.com/craterdog/go-collection-framework/v4"
	age "github.com/craterdog/go-collection-framework/v4/agent"
	cdc "github.com/craterdog/go-collection-framework/v4/cdcn"
	col "github.com/craterdog/go-collection-framework/v4/collection"
	"verifharness/core"
	"verifharness/lib"
)

// ---------------------------------------------------------------- C19: the first use in a process, by several goroutines at once

// deepDocument is a List nested depth levels deep, every level holding a number and the next level, and the text
// the formatter gives for it (four more spaces per level)
func deepDocument(depth, id int) (any, string) {
	var doc any = int64(id)
	for level := 0; level < depth; level++ {
		doc = col.List[any](lib.Notation()).MakeFromArray([]any{int64(level), doc})
	}
	var lines []string
	for k := 0; k < depth; k++ {
		lines = append(lines, strings.Repeat("    ", k)+"[", strings.Repeat("    ", k+1)+fmt.Sprint(depth-1-k))
	}
	lines = append(lines, strings.Repeat("    ", depth)+fmt.Sprint(id))
	for k := depth - 1; k >= 0; k-- {
		lines = append(lines, strings.Repeat("    ", k)+"](List)")
	}
	return doc, strings.Join(lines, "\n")
}

type coldT0 struct{ A int }

func TestColdChild(t *testing.T) {
	kind := lib.ColdKind()
	if kind == "" {
		return
	}
	const workers = 16
	problems := make([]string, workers)
	var wg sync.WaitGroup
	start := make(chan struct{})
	for w := 0; w < workers; w++ {
		w := w
		wg.Add(1)
		go func() {
			defer wg.Done()
			defer func() {
				if e := recover(); e != nil {
					problems[w] = "panicked: " + lib.Short(e)
				}
			}()
			<-start
			switch kind {
			case "format-deep":
				doc, want := deepDocument(10+w%9, w)
				if got := strings.TrimRight(cdc.Formatter().MakeWithMaximum(24).FormatValue(doc), "\n"); got != want {
					problems[w] = fmt.Sprintf("a document nested %d deep was formatted as\n%s\nexpected\n%s", 10+w%9, got, want)
				}
			case "format":
				doc, want := deepDocument(2+w%5, w)
				if got := strings.TrimRight(mod.FormatValue(doc), "\n"); got != want {
					problems[w] = fmt.Sprintf("a document nested %d deep was formatted as\n%s\nexpected\n%s", 2+w%5, got, want)
				}
			case "parse":
				obj := mod.ParseSource(fmt.Sprintf("[%d, \"s\", [true, 'r'](Set), [\"k\": 1.5](Catalog)](List)\n", w))
				l, ok := obj.(col.ListLike[any])
				if !ok || l.GetSize() != 4 || l.GetValue(1) != int64(w) || l.GetValue(2) != "s" {
					problems[w] = fmt.Sprintf("a valid document parsed to %v", obj)
				}
			case "rank":
				c := age.Collator[any]().Make()
				a, b := []any{int64(w), "x", 1.5, coldT0{w}}, []any{int64(w), "x", 2.5, coldT0{w}}
				work := []int{5, 3, w, 1}
				age.Sorter[int]().Make().SortValues(work)
				if c.RankValues(a, b) != age.LesserRank || c.CompareValues(a, b) || !c.CompareValues(a, a) || work[0] > work[1] || work[2] > work[3] {
					problems[w] = "the first ranking in the process gave a wrong answer"
				}
			default: // collections of a type that is new to the process
				n := lib.Notation()
				l := col.List[coldT0](n).MakeFromArray([]coldT0{{w}, {1}})
				s := col.Set[coldT0](n).MakeFromArray([]coldT0{{w + 2}, {1}, {w + 2}})
				m := col.Map[coldT0, int](n).Make()
				m.SetValue(coldT0{w}, w)
				c := col.Catalog[coldT0, int](n).Make()
				c.SetValue(coldT0{w}, w)
				q := col.Queue[coldT0](n).MakeFromArray([]coldT0{{w}})
				st := col.Stack[coldT0](n).MakeFromSequence(l)
				head, _ := q.RemoveHead()
				if l.GetSize() != 2 || s.GetSize() != 2 || m.GetValue(coldT0{w}) != w || c.GetKeys().GetSize() != 1 || head != (coldT0{w}) || st.GetSize() != 2 || st.GetCapacity() != 16 {
					problems[w] = "collections of a type that is new to the process do not hold what they were given"
				}
			}
		}()
	}
	close(start)
	wg.Wait()
	for w, p := range problems {
		if p != "" {
			lib.ColdReport(fmt.Sprintf("goroutine %d of %d doing the first %s of the process: %s", w, workers, kind, p))
			t.Fail()
			return
		}
	}
	lib.ColdReport("")
}

type coldCase struct {
	Kind     string `json:"kind"`
	Children int    `json:"children"`
}

func execCold(c coldCase, _ core.Source) (res core.Result) {
	// the expectation for formatted documents is checked here, in a process that is warm
	if doc, want := deepDocument(5, 7); strings.TrimRight(mod.FormatValue(doc), "\n") != want {
		panic(core.HarnessError{Msg: "the expected text of a nested document is not what the formatter gives:\n" + mod.FormatValue(doc) + "\nvs\n" + want})
	}
	if failures := lib.ColdChildren("TestColdChild", c.Kind, c.Children); len(failures) > 0 {
		sig := "C19/cold-start/" + c.Kind
		if strings.Contains(failures[0], "DATA RACE") {
			sig = "data-race"
		}
		res.Violation = core.Violate(sig, "%d of %d fresh processes in which 16 goroutines did the first %s at the same time, each on values of its own, failed; the first one:\n%s", len(failures), c.Children, c.Kind, failures[0])
	}
	res.NonTrivial = true
	res.Classes = append(res.Classes, "kind-"+c.Kind)
	return
}
