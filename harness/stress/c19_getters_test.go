package stress

import (
	"fmt"
	"sync"

	age "github.com/craterdog/go-collection-framework/v4/agent"
	col "github.com/craterdog/go-collection-framework/v4/collection"
	"verifharness/core"
	"verifharness/lib"
)

// ---------------------------------------------------------------- C19: values ranked through their getter methods

// Pointers to structures with methods are ranked through their Get... methods.  Whatever a collator
// remembers about a type the first time it sees it (method tables, getter lists) must not be shared
// unguarded between collator instances.  A process sees a type for the first time only once, so this
// sub-check owns a family of types nobody else uses and hands a few fresh ones to every case.

type getA[T any] struct {
	v T
	n int
}

func (g *getA[T]) GetNumber() int { return g.n }
func (g *getA[T]) GetValue() T    { return g.v }

type getB[T any] struct {
	v T
	n int
}

func (g *getB[T]) GetNumber() int { return g.n }
func (g *getB[T]) GetValue() T    { return g.v }
func (g *getB[T]) Other() int     { return 7 }

type getC[T any] struct {
	v T
	n int
}

func (g getC[T]) GetNumber() int { return g.n } // value receivers: ranked field by field and then by getters
func (g getC[T]) GetValue() T    { return g.v }

type number interface {
	~int | ~int8 | ~int16 | ~int32 | ~int64 | ~uint | ~uint8 | ~uint16 | ~uint32 | ~uint64 | ~float32 | ~float64
}

// a getter family member: makes the k-th value of its type
type getterType struct {
	name string
	make func(k int) any
}

func numTypes[T number](name string) []getterType {
	return []getterType{
		{"*getA[" + name + "]", func(k int) any { return &getA[T]{T(k % 5), k % 3} }},
		{"*getB[" + name + "]", func(k int) any { return &getB[T]{T(k % 5), k % 3} }},
		{"*getC[" + name + "]", func(k int) any { return &getC[T]{T(k % 5), k % 3} }},
	}
}

type myInt int
type myFloat float64
type myByte uint8

var getterTypes = func() []getterType {
	var out []getterType
	out = append(out, numTypes[int]("int")...)
	out = append(out, numTypes[int8]("int8")...)
	out = append(out, numTypes[int16]("int16")...)
	out = append(out, numTypes[int64]("int64")...)
	out = append(out, numTypes[uint]("uint")...)
	out = append(out, numTypes[uint16]("uint16")...)
	out = append(out, numTypes[uint32]("uint32")...)
	out = append(out, numTypes[uint64]("uint64")...)
	out = append(out, numTypes[float32]("float32")...)
	out = append(out, numTypes[float64]("float64")...)
	out = append(out, numTypes[myInt]("myInt")...)
	out = append(out, numTypes[myFloat]("myFloat")...)
	out = append(out, numTypes[myByte]("myByte")...)
	out = append(out,
		getterType{"*getA[string]", func(k int) any { return &getA[string]{fmt.Sprint(k % 5), k % 3} }},
		getterType{"*getB[string]", func(k int) any { return &getB[string]{fmt.Sprint(k % 5), k % 3} }},
		getterType{"*getC[string]", func(k int) any { return &getC[string]{fmt.Sprint(k % 5), k % 3} }},
		getterType{"*getA[bool]", func(k int) any { return &getA[bool]{k%2 == 0, k % 3} }},
		getterType{"*getB[bool]", func(k int) any { return &getB[bool]{k%2 == 0, k % 3} }},
		getterType{"*getA[[]int]", func(k int) any { return &getA[[]int]{[]int{k % 5}, k % 3} }},
		getterType{"*getB[[]int]", func(k int) any { return &getB[[]int]{[]int{k % 5}, k % 3} }},
		getterType{"*getA[*getA[int]]", func(k int) any { return &getA[*getA[int]]{&getA[int]{k % 5, 0}, k % 3} }},
	)
	return out
}()

type firstRankCase struct {
	First      int `json:"first"` // index of the first fresh type of this case
	Fresh      int `json:"fresh"` // number of fresh types (one goroutine each)
	Goroutines int `json:"goroutines"`
}

var nextGetterType = 0

func genFirstRank(s core.Source) firstRankCase {
	c := firstRankCase{First: nextGetterType, Fresh: 2 + s.Choose(2, "fresh"), Goroutines: 4 + s.Choose(5, "goroutines")}
	nextGetterType += c.Fresh
	return c
}

// rankScript ranks, compares and sorts values of one getter type with collators and collections of its own
func rankScript(t getterType, id int) string {
	rank := age.Collator[any]().Make()
	out := ""
	for k := 0; k < 12; k++ {
		a, b := t.make(k+id), t.make(2*k+1)
		out += fmt.Sprint(rank.RankValues(a, b), rank.CompareValues(a, b), " ")
	}
	set := col.Set[any](lib.Notation()).Make()
	for k := 0; k < 10; k++ {
		set.AddValue(t.make(k * 7 % 11))
	}
	out += fmt.Sprint(set.GetSize())
	return out
}

func execFirstRank(c firstRankCase, _ core.Source) (res core.Result) {
	// the first Fresh goroutines each meet a type nobody has ranked yet, the next Fresh goroutines meet the same
	// types at the same time, the others rank types that earlier cases have used (pure readers of whatever
	// a collator remembers about a type)
	types := make([]getterType, c.Goroutines)
	fresh := 0
	for i := range types {
		k := c.First + i%c.Fresh
		switch {
		case i < 2*c.Fresh && k < len(getterTypes):
			fresh++
		case c.First > 0:
			k = (i * 5) % min(c.First, len(getterTypes))
		default:
			k = k % len(getterTypes)
		}
		types[i] = getterTypes[k]
	}
	got := make([]string, c.Goroutines)
	panics := make([]any, c.Goroutines)
	var wg sync.WaitGroup
	start := make(chan struct{})
	for i := range types {
		i := i
		wg.Add(1)
		go func() {
			defer wg.Done()
			defer func() {
				if e := recover(); e != nil {
					panics[i] = e
				}
			}()
			<-start
			got[i] = rankScript(types[i], i)
		}()
	}
	close(start)
	wg.Wait()
	for i := range types {
		if panics[i] != nil {
			res.Violation = core.Violate("C19/first-rank/panicked", "ranking values of type %s with a collator of its own while other goroutines rank other types panicked: %s", types[i].name, lib.Short(panics[i]))
			return
		}
		if solo := rankScript(types[i], i); got[i] != solo {
			res.Violation = core.Violate("C19/first-rank/result-differs", "ranking values of type %s concurrently with other collators gave %s, alone %s", types[i].name, got[i], solo)
			return
		}
	}
	res.NonTrivial = fresh > 0
	if fresh > 0 {
		res.Classes = append(res.Classes, "types-seen-for-the-first-time")
	} else {
		res.Classes = append(res.Classes, "all-types-seen-before")
	}
	return
}
