package stress

import (
	"fmt"
	"runtime"
	"sync"
	"sync/atomic"
	"testing"
	"time"

	col "github.com/craterdog/go-collection-framework/v4/collection"
	"verifharness/core"
	"verifharness/lib"
)

// ---------------------------------------------------------------- C04 (b): many-goroutine stress on one Queue under the race detector

type stressCase struct {
	Cap       uint `json:"cap"`
	Producers int  `json:"producers"`
	Consumers int  `json:"consumers"`
	PerProd   int  `json:"values_per_producer"`
	Observers int  `json:"observers"`
	RemoveAll bool `json:"remove_all"`
	Yield     int  `json:"yield_every"`
	Lag       bool `json:"lagging_consumers,omitempty"` // the consumers start late: the queue fills up to its capacity first
}

// capacities: small ones, the neighbours of the default (16), and large ones (a backlog of dozens of values
// is where code that handles long lists differently comes into play)
func genCapacity(s core.Source, small int) uint {
	switch s.Choose(4, "capclass") {
	case 0:
		return uint(15 + s.Choose(3, "cap"))
	case 1:
		return uint(31 + s.Choose(100, "cap"))
	}
	return uint(1 + s.Choose(small, "cap"))
}

func genStress(s core.Source) stressCase {
	return stressCase{Cap: genCapacity(s, 8), Producers: 1 + s.Choose(8, "producers"), Consumers: 1 + s.Choose(8, "consumers"),
		PerProd: 20 + s.Choose(200, "values"), Observers: s.Choose(3, "observers"), RemoveAll: s.Choose(4, "removeall") == 0, Yield: 1 + s.Choose(7, "yield"), Lag: s.Choose(3, "lag") == 0}
}

func withTimeout(d time.Duration, wg *sync.WaitGroup) bool {
	done := make(chan struct{})
	go func() { wg.Wait(); close(done) }()
	select {
	case <-done:
		return true
	case <-time.After(d):
		return false
	}
}

// freshQueueClasses first-uses the queue class (and with it the list and array classes) of element types that are
// new to the process, a few per call, while the queues under test are busy: the class registries are
// process-wide, and a queue's calls go through them.
var freshQueueUsers = []func(){
	func() {
		q := col.Queue[[1]int8](lib.Notation()).MakeWithCapacity(2)
		q.AddValue([1]int8{})
		q.RemoveHead()
		q.CloseQueue()
	},
	func() {
		q := col.Queue[[2]int8](lib.Notation()).MakeWithCapacity(2)
		q.AddValue([2]int8{})
		q.RemoveHead()
		q.CloseQueue()
	},
	func() {
		q := col.Queue[[3]int8](lib.Notation()).MakeWithCapacity(2)
		q.AddValue([3]int8{})
		q.RemoveHead()
		q.CloseQueue()
	},
	func() {
		q := col.Queue[[4]int8](lib.Notation()).MakeWithCapacity(2)
		q.AddValue([4]int8{})
		q.RemoveHead()
		q.CloseQueue()
	},
	func() {
		q := col.Queue[[5]int8](lib.Notation()).MakeWithCapacity(2)
		q.AddValue([5]int8{})
		q.RemoveHead()
		q.CloseQueue()
	},
	func() {
		q := col.Queue[[6]int8](lib.Notation()).MakeWithCapacity(2)
		q.AddValue([6]int8{})
		q.RemoveHead()
		q.CloseQueue()
	},
	func() {
		q := col.Queue[[7]int8](lib.Notation()).MakeWithCapacity(2)
		q.AddValue([7]int8{})
		q.RemoveHead()
		q.CloseQueue()
	},
	func() {
		q := col.Queue[[8]int8](lib.Notation()).MakeWithCapacity(2)
		q.AddValue([8]int8{})
		q.RemoveHead()
		q.CloseQueue()
	},
	func() {
		q := col.Queue[[9]int8](lib.Notation()).MakeWithCapacity(2)
		q.AddValue([9]int8{})
		q.RemoveHead()
		q.CloseQueue()
	},
	func() {
		q := col.Queue[[10]int8](lib.Notation()).MakeWithCapacity(2)
		q.AddValue([10]int8{})
		q.RemoveHead()
		q.CloseQueue()
	},
	func() {
		q := col.Queue[[11]int8](lib.Notation()).MakeWithCapacity(2)
		q.AddValue([11]int8{})
		q.RemoveHead()
		q.CloseQueue()
	},
	func() {
		q := col.Queue[[12]int8](lib.Notation()).MakeWithCapacity(2)
		q.AddValue([12]int8{})
		q.RemoveHead()
		q.CloseQueue()
	},
	func() {
		q := col.Queue[[13]int8](lib.Notation()).MakeWithCapacity(2)
		q.AddValue([13]int8{})
		q.RemoveHead()
		q.CloseQueue()
	},
	func() {
		q := col.Queue[[14]int8](lib.Notation()).MakeWithCapacity(2)
		q.AddValue([14]int8{})
		q.RemoveHead()
		q.CloseQueue()
	},
	func() {
		q := col.Queue[[15]int8](lib.Notation()).MakeWithCapacity(2)
		q.AddValue([15]int8{})
		q.RemoveHead()
		q.CloseQueue()
	},
	func() {
		q := col.Queue[[16]int8](lib.Notation()).MakeWithCapacity(2)
		q.AddValue([16]int8{})
		q.RemoveHead()
		q.CloseQueue()
	},
	func() {
		q := col.Queue[[17]int8](lib.Notation()).MakeWithCapacity(2)
		q.AddValue([17]int8{})
		q.RemoveHead()
		q.CloseQueue()
	},
	func() {
		q := col.Queue[[18]int8](lib.Notation()).MakeWithCapacity(2)
		q.AddValue([18]int8{})
		q.RemoveHead()
		q.CloseQueue()
	},
	func() {
		q := col.Queue[[19]int8](lib.Notation()).MakeWithCapacity(2)
		q.AddValue([19]int8{})
		q.RemoveHead()
		q.CloseQueue()
	},
	func() {
		q := col.Queue[[20]int8](lib.Notation()).MakeWithCapacity(2)
		q.AddValue([20]int8{})
		q.RemoveHead()
		q.CloseQueue()
	},
	func() {
		q := col.Queue[[21]int8](lib.Notation()).MakeWithCapacity(2)
		q.AddValue([21]int8{})
		q.RemoveHead()
		q.CloseQueue()
	},
	func() {
		q := col.Queue[[22]int8](lib.Notation()).MakeWithCapacity(2)
		q.AddValue([22]int8{})
		q.RemoveHead()
		q.CloseQueue()
	},
	func() {
		q := col.Queue[[23]int8](lib.Notation()).MakeWithCapacity(2)
		q.AddValue([23]int8{})
		q.RemoveHead()
		q.CloseQueue()
	},
	func() {
		q := col.Queue[[24]int8](lib.Notation()).MakeWithCapacity(2)
		q.AddValue([24]int8{})
		q.RemoveHead()
		q.CloseQueue()
	},
	func() {
		q := col.Queue[[25]int8](lib.Notation()).MakeWithCapacity(2)
		q.AddValue([25]int8{})
		q.RemoveHead()
		q.CloseQueue()
	},
	func() {
		q := col.Queue[[26]int8](lib.Notation()).MakeWithCapacity(2)
		q.AddValue([26]int8{})
		q.RemoveHead()
		q.CloseQueue()
	},
	func() {
		q := col.Queue[[27]int8](lib.Notation()).MakeWithCapacity(2)
		q.AddValue([27]int8{})
		q.RemoveHead()
		q.CloseQueue()
	},
	func() {
		q := col.Queue[[28]int8](lib.Notation()).MakeWithCapacity(2)
		q.AddValue([28]int8{})
		q.RemoveHead()
		q.CloseQueue()
	},
	func() {
		q := col.Queue[[29]int8](lib.Notation()).MakeWithCapacity(2)
		q.AddValue([29]int8{})
		q.RemoveHead()
		q.CloseQueue()
	},
	func() {
		q := col.Queue[[30]int8](lib.Notation()).MakeWithCapacity(2)
		q.AddValue([30]int8{})
		q.RemoveHead()
		q.CloseQueue()
	},
	func() {
		q := col.Queue[[31]int8](lib.Notation()).MakeWithCapacity(2)
		q.AddValue([31]int8{})
		q.RemoveHead()
		q.CloseQueue()
	},
	func() {
		q := col.Queue[[32]int8](lib.Notation()).MakeWithCapacity(2)
		q.AddValue([32]int8{})
		q.RemoveHead()
		q.CloseQueue()
	},
	func() {
		q := col.Queue[[33]int8](lib.Notation()).MakeWithCapacity(2)
		q.AddValue([33]int8{})
		q.RemoveHead()
		q.CloseQueue()
	},
	func() {
		q := col.Queue[[34]int8](lib.Notation()).MakeWithCapacity(2)
		q.AddValue([34]int8{})
		q.RemoveHead()
		q.CloseQueue()
	},
	func() {
		q := col.Queue[[35]int8](lib.Notation()).MakeWithCapacity(2)
		q.AddValue([35]int8{})
		q.RemoveHead()
		q.CloseQueue()
	},
	func() {
		q := col.Queue[[36]int8](lib.Notation()).MakeWithCapacity(2)
		q.AddValue([36]int8{})
		q.RemoveHead()
		q.CloseQueue()
	},
	func() {
		q := col.Queue[[37]int8](lib.Notation()).MakeWithCapacity(2)
		q.AddValue([37]int8{})
		q.RemoveHead()
		q.CloseQueue()
	},
	func() {
		q := col.Queue[[38]int8](lib.Notation()).MakeWithCapacity(2)
		q.AddValue([38]int8{})
		q.RemoveHead()
		q.CloseQueue()
	},
	func() {
		q := col.Queue[[39]int8](lib.Notation()).MakeWithCapacity(2)
		q.AddValue([39]int8{})
		q.RemoveHead()
		q.CloseQueue()
	},
	func() {
		q := col.Queue[[40]int8](lib.Notation()).MakeWithCapacity(2)
		q.AddValue([40]int8{})
		q.RemoveHead()
		q.CloseQueue()
	},
	func() {
		q := col.Queue[[41]int8](lib.Notation()).MakeWithCapacity(2)
		q.AddValue([41]int8{})
		q.RemoveHead()
		q.CloseQueue()
	},
	func() {
		q := col.Queue[[42]int8](lib.Notation()).MakeWithCapacity(2)
		q.AddValue([42]int8{})
		q.RemoveHead()
		q.CloseQueue()
	},
	func() {
		q := col.Queue[[43]int8](lib.Notation()).MakeWithCapacity(2)
		q.AddValue([43]int8{})
		q.RemoveHead()
		q.CloseQueue()
	},
	func() {
		q := col.Queue[[44]int8](lib.Notation()).MakeWithCapacity(2)
		q.AddValue([44]int8{})
		q.RemoveHead()
		q.CloseQueue()
	},
	func() {
		q := col.Queue[[45]int8](lib.Notation()).MakeWithCapacity(2)
		q.AddValue([45]int8{})
		q.RemoveHead()
		q.CloseQueue()
	},
	func() {
		q := col.Queue[[46]int8](lib.Notation()).MakeWithCapacity(2)
		q.AddValue([46]int8{})
		q.RemoveHead()
		q.CloseQueue()
	},
	func() {
		q := col.Queue[[47]int8](lib.Notation()).MakeWithCapacity(2)
		q.AddValue([47]int8{})
		q.RemoveHead()
		q.CloseQueue()
	},
	func() {
		q := col.Queue[[48]int8](lib.Notation()).MakeWithCapacity(2)
		q.AddValue([48]int8{})
		q.RemoveHead()
		q.CloseQueue()
	},
}

var nextFreshQueueUser atomic.Int64

func freshQueueClasses(n int) {
	for i := 0; i < n; i++ {
		k := int(nextFreshQueueUser.Add(1)) - 1
		if k >= len(freshQueueUsers) {
			return
		}
		freshQueueUsers[k]()
		runtime.Gosched()
	}
}

func execStress(c stressCase, _ core.Source) (res core.Result) {
	q := col.Queue[int](lib.Notation()).MakeWithCapacity(c.Cap)
	var producers, all sync.WaitGroup
	var closed atomic.Bool
	var discarding atomic.Bool
	var failure atomic.Value
	fail := func(sig, format string, args ...any) {
		failure.CompareAndSwap(nil, core.Violate(sig, format, args...))
	}
	guard := func(name string, f func()) {
		defer all.Done()
		defer func() {
			if e := recover(); e != nil {
				fail("C04/stress/panicked", "%s panicked: %s", name, lib.Short(e))
			}
		}()
		f()
	}
	consumed := make([][]int, c.Consumers)
	all.Add(1)
	go guard("a goroutine using queues of element types that are new to the process", func() { freshQueueClasses(3) })
	all.Add(1)
	go guard("a goroutine making short-lived queues of the element type under test", func() {
		for i := 0; i < 300; i++ {
			short := col.Queue[int](lib.Notation()).MakeWithCapacity(1)
			short.AddValue(i)
			if v, ok := short.RemoveHead(); !ok || v != i {
				fail("C04/stress/short-lived-queue", "a queue of capacity 1 made while other queues are busy handed out %d, %v for %d", v, ok, i)
			}
		}
	})
	for p := 0; p < c.Producers; p++ {
		p := p
		producers.Add(1)
		all.Add(1)
		go guard(fmt.Sprintf("producer %d", p), func() {
			defer producers.Done()
			for k := 0; k < c.PerProd; k++ {
				q.AddValue(p*1000000 + k)
				if k%c.Yield == 0 {
					runtime.Gosched()
				}
			}
		})
	}
	for i := 0; i < c.Consumers; i++ {
		i := i
		all.Add(1)
		go guard(fmt.Sprintf("consumer %d", i), func() {
			if c.Lag {
				time.Sleep(time.Millisecond)
			}
			for k := 0; ; k++ {
				v, ok := q.RemoveHead()
				if !ok {
					if !closed.Load() {
						fail("C04/stress/not-ok-before-close", "RemoveHead reported ok=false before CloseQueue was called")
					}
					return
				}
				consumed[i] = append(consumed[i], v)
				if k%c.Yield == 1 {
					runtime.Gosched()
				}
			}
		})
	}
	stop := make(chan struct{})
	var observers sync.WaitGroup
	for o := 0; o < c.Observers; o++ {
		observers.Add(1)
		go func() {
			defer observers.Done()
			defer func() {
				if e := recover(); e != nil {
					fail("C04/stress/panicked", "an observer panicked: %s", lib.Short(e))
				}
			}()
			for {
				select {
				case <-stop:
					return
				default:
				}
				if n := q.GetSize(); n < 0 || n > int(c.Cap) {
					fail("C04/stress/size-exceeds-capacity", "GetSize reported %d with capacity %d", n, c.Cap)
				}
				arr := q.AsArray()
				seen := map[int]bool{}
				last := map[int]int{}
				for _, v := range arr {
					if seen[v] {
						fail("C04/stress/observer-duplicate", "AsArray shows %d twice", v)
					}
					seen[v] = true
					if prev, ok := last[v/1000000]; ok && prev > v {
						fail("C04/stress/observer-order", "AsArray shows %d before %d from the same producer", prev, v)
					}
					last[v/1000000] = v
				}
				q.IsEmpty()
				it := q.GetIterator()
				for it.HasNext() {
					it.GetNext()
				}
				runtime.Gosched()
			}
		}()
	}
	if c.RemoveAll {
		observers.Add(1)
		go func() {
			defer observers.Done()
			defer func() {
				if e := recover(); e != nil {
					fail("C04/stress/panicked", "RemoveAll panicked: %s", lib.Short(e))
				}
			}()
			discarding.Store(true)
			for k := 0; k < 5; k++ {
				q.RemoveAll()
				runtime.Gosched()
			}
		}()
	}
	// the closer: closes once every producer has returned
	all.Add(1)
	go guard("closer", func() {
		producers.Wait()
		closed.Store(true)
		q.CloseQueue()
	})
	if !withTimeout(120*time.Second, &all) {
		close(stop)
		res.Violation = core.Violate("C04/stress/stuck", "the program (%+v) did not terminate within 120 s: a producer, consumer or the closer is stuck", c)
		return
	}
	close(stop)
	observers.Wait()
	if v := failure.Load(); v != nil {
		res.Violation = v.(*core.Violation)
		return
	}
	// conservation and order
	seen := map[int]bool{}
	total := 0
	for i, got := range consumed {
		last := map[int]int{}
		for _, v := range got {
			if seen[v] {
				res.Violation = core.Violate("C04/stress/delivered-twice", "value %d was delivered twice", v)
				return
			}
			seen[v] = true
			p, k := v/1000000, v%1000000
			if p < 0 || p >= c.Producers || k >= c.PerProd {
				res.Violation = core.Violate("C04/stress/invented-value", "consumer %d received %d, which nobody added", i, v)
				return
			}
			if prev, ok := last[p]; ok && prev > v {
				res.Violation = core.Violate("C04/stress/fifo-order", "consumer %d received %d after %d from the same producer", i, v, prev)
				return
			}
			last[p] = v
			total++
		}
	}
	if !c.RemoveAll && total != c.Producers*c.PerProd {
		res.Violation = core.Violate("C04/stress/values-lost", "%d of %d values were delivered", total, c.Producers*c.PerProd)
		return
	}
	res.NonTrivial = true
	if c.RemoveAll {
		res.Classes = append(res.Classes, "with-RemoveAll")
	}
	res.Counts = map[string]int{"values": total}
	return
}

func TestC04Stress(t *testing.T) {
	r := core.Begin(t, "C04")
	defer r.End()
	core.Stress(r, core.Check[stressCase]{Name: "stress", Gen: genStress, Exec: execStress, HangLimit: 300 * time.Second}, r.N(40, 600))
}

// ---------------------------------------------------------------- C06 (b): pipelines with long streams under the race detector

type pipeStressCase struct {
	Topology  string `json:"topology"`
	Length    int    `json:"length"`
	FanOut    int    `json:"fan_out"`
	Cap       uint   `json:"cap"`
	Slow      int    `json:"slow_reader"` // index of a reader that lags (or -1)
	Burst     int    `json:"burst"`
	FeedFirst bool   `json:"feed_first,omitempty"`
	Lag       bool   `json:"lagging_readers,omitempty"`
}

// countingGroup is a sync.WaitGroup that also counts the registrations
type countingGroup struct {
	sync.WaitGroup
	added atomic.Int64
}

func (g *countingGroup) Add(delta int) {
	g.added.Add(int64(delta))
	g.WaitGroup.Add(delta)
}

// fan-outs: 2..8, and now and then a wide one on both sides of 64 and 128
func genFanOut(s core.Source) int {
	if s.Choose(6, "fanclass") == 0 {
		return []int{63, 64, 65, 70, 129}[s.Choose(5, "fanout")]
	}
	return 2 + s.Choose(7, "fanout")
}

func genPipeStress(s core.Source) pipeStressCase {
	c := pipeStressCase{Topology: core.Pick(s, []string{"Fork", "Split", "SplitJoin"}, "topology"), FanOut: genFanOut(s), Cap: genCapacity(s, 4),
		Burst: 1 + s.Choose(16, "burst"), Lag: s.Choose(3, "lag") == 0}
	switch s.Choose(4, "lenclass") {
	case 0:
		c.Length = s.Choose(3, "len")
	case 1:
		c.Length = c.FanOut*(1+s.Choose(4, "mult")) + s.Choose(2, "off")
	default:
		c.Length = 50 + s.Choose(3000, "len")
	}
	c.Slow = s.Choose(c.FanOut+1, "slow") - 1
	c.FeedFirst = uint(c.Length) <= c.Cap && s.Choose(2, "feed-first") == 0
	return c
}

func execPipeStress(c pipeStressCase, _ core.Source) (res core.Result) {
	Q := col.Queue[int](lib.Notation())
	input := Q.MakeWithCapacity(c.Cap)
	if c.FeedFirst {
		for v := 1; v <= c.Length; v++ {
			input.AddValue(v)
		}
		input.CloseQueue()
	}
	group := &countingGroup{}
	defer func() {
		if e := recover(); e != nil {
			if _, ok := e.(core.HarnessError); ok {
				panic(e)
			}
			res.Violation = core.Violate("C06/stress/panicked", "%+v: building the pipeline panicked: %s", c, lib.Short(e))
		}
	}()
	var outputs []col.QueueLike[int]
	helpers := 1
	switch c.Topology {
	case "Fork":
		outputs = Q.Fork(group, input, uint(c.FanOut)).AsArray()
	case "Split":
		outputs = Q.Split(group, input, uint(c.FanOut)).AsArray()
	default:
		outputs = []col.QueueLike[int]{Q.Join(group, Q.Split(group, input, uint(c.FanOut)))}
		helpers = 2
	}
	if n := group.added.Load(); int(n) != helpers {
		res.Violation = core.Violate("C06/stress/wait-group-not-registered", "%+v: when the function returned %d helper(s) were registered with the caller's wait group, expected %d", c, n, helpers)
		return
	}
	received := make([][]int, len(outputs))
	after := make([]bool, len(outputs))
	var readers sync.WaitGroup
	var failure atomic.Value
	for i, out := range outputs {
		i, out := i, out
		readers.Add(1)
		go func() {
			defer readers.Done()
			defer func() {
				if e := recover(); e != nil {
					failure.CompareAndSwap(nil, core.Violate("C06/stress/panicked", "reader %d panicked: %s", i, lib.Short(e)))
				}
			}()
			if c.Lag {
				// lagging readers: the outputs fill up to their capacity before anybody reads
				time.Sleep(2 * time.Millisecond)
			}
			for k := 0; ; k++ {
				if i == c.Slow && k%c.Burst == 0 {
					time.Sleep(50 * time.Microsecond)
				} else if k%c.Burst == 0 {
					runtime.Gosched()
				}
				v, ok := out.RemoveHead()
				if !ok {
					break
				}
				received[i] = append(received[i], v)
			}
			if _, ok := out.RemoveHead(); ok {
				after[i] = true
			}
		}()
	}
	if !c.FeedFirst {
		readers.Add(1)
		go func() {
			defer readers.Done()
			for v := 1; v <= c.Length; v++ {
				input.AddValue(v)
			}
			input.CloseQueue()
		}()
	}
	if !withTimeout(120*time.Second, &readers) {
		res.Violation = core.Violate("C06/stress/stuck", "%+v: feeder or readers did not finish within 120 s", c)
		return
	}
	if !withTimeout(30*time.Second, &group.WaitGroup) {
		res.Violation = core.Violate("C06/stress/wait-group", "%+v: the caller's wait group did not return to zero after every output was closed and drained", c)
		return
	}
	if v := failure.Load(); v != nil {
		res.Violation = v.(*core.Violation)
		return
	}
	for i := range outputs {
		var want []int
		for v := 1; v <= c.Length; v++ {
			if c.Topology != "Split" || (v-1)%c.FanOut == i {
				want = append(want, v)
			}
		}
		if !lib.EqInts(received[i], append([]int{}, want...)) && !(len(want) == 0 && len(received[i]) == 0) {
			n := len(received[i])
			if n > 12 {
				n = 12
			}
			res.Violation = core.Violate("C06/stress/wrong-stream/"+c.Topology, "%+v: output %d delivered %d values (starting %v), expected %d", c, i, len(received[i]), received[i][:n], len(want))
			return
		}
		if after[i] {
			res.Violation = core.Violate("C06/stress/delivered-after-closure", "%+v: output %d delivered a value after reporting closure", c, i)
			return
		}
	}
	res.NonTrivial = true
	res.Classes = append(res.Classes, "topology-"+c.Topology)
	res.Counts = map[string]int{"values": c.Length}
	return
}

func TestC06Stress(t *testing.T) {
	r := core.Begin(t, "C06")
	defer r.End()
	core.Stress(r, core.Check[pipeStressCase]{Name: "stress", Gen: genPipeStress, Exec: execPipeStress, HangLimit: 300 * time.Second}, r.N(40, 600))
}
