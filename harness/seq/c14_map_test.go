package seq

import (
	"testing"
	"time"

	"verifharness/core"
)

// ---------------------------------------------------------------- C14: Map behaves like a Go map (shares the associative executor with C03)

func TestC14(t *testing.T) {
	r := core.Begin(t, "C14")
	defer r.End()
	core.DFS(r, core.Check[largeCase]{Name: "large-sizes", Gen: genLarge([]string{"Map"}), Exec: execLarge("C14"), NoJournal: true}, 0)
	keyTypes := []string{"string", "int", "rune", "any", "nan", "ptr"}
	core.Rapid(r, core.Check[assocCase]{Name: "history", Gen: genAssocCase("map", keyTypes, 40, 8), Exec: execAssocCase}, r.N(3000, 30000))
	core.DFS(r, core.Check[assocCase]{Name: "small-histories", Gen: genSmallAssoc("map", r.N(3, 4)), Exec: execAssocCase, NoJournal: true}, 0)
	core.DFS(r, core.Check[longLivedCase]{Name: "long-lived-instance", Gen: genLongLived([]string{"Map"}, r.N(150000, 1200000)), Exec: execLongLived("C14"), NoJournal: true, HangLimit: 300 * time.Second}, 0)
	core.DFS(r, core.Check[lookupCase]{Name: "class-lookups", Gen: genLookups([]string{"Map"}), Exec: execLookups("C14"), NoJournal: true}, 0)
	core.DFS(r, core.Check[keysInUseCase]{Name: "key-sequence-in-use", Gen: func(s core.Source) keysInUseCase {
		return keysInUseCase{Fn: core.Pick(s, []string{"Map.RemoveValues", "Map.GetValues"}, "fn"), Rounds: r.N(3000, 30000)}
	}, Exec: execKeysInUse("C14"), NoJournal: true, HangLimit: 300 * time.Second}, 0)
	core.DFS(r, core.Check[hugeCase]{Name: "huge-sizes", Gen: genHuge([]string{"Map"}, []int{16389, 65541, 70001}), Exec: execHuge("C14"), NoJournal: true, HangLimit: 300 * time.Second}, 0)
}
