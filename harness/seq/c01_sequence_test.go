package seq

import (
	"fmt"
	"math"
	"testing"
	"time"

	age "github.com/craterdog/go-collection-framework/v4/agent"
	col "github.com/craterdog/go-collection-framework/v4/collection"
	"verifharness/core"
	"verifharness/lib"
)

// ---------------------------------------------------------------- C01: List and Array as an ordinal-indexed sequence

// An index argument is drawn by class and resolved against the current size of
// the model when the operation executes, so every boundary class stays
// frequent at every size and the case is a pure function of the choice list.
type idxArg struct {
	C string `json:"c"` // f(ront) b(ack) z(ero) o(ver) u(nder) | slots: f e(nd) o
	K int    `json:"k,omitempty"`
}

func (a idxArg) index(size int) int {
	switch a.C {
	case "f":
		if size == 0 {
			return 1
		}
		return 1 + a.K%size
	case "b":
		if size == 0 {
			return -1
		}
		return -(1 + a.K%size)
	case "z":
		return 0
	case "o":
		switch a.K {
		case 3:
			return math.MaxInt
		case 4:
			return math.MaxInt - size
		}
		return size + 1 + a.K
	default: // "u"
		switch a.K {
		case 3:
			return math.MinInt
		case 4:
			return math.MinInt + 1
		}
		return -(size + 1 + a.K)
	}
}

func (a idxArg) slot(size int) uint {
	switch a.C {
	case "f":
		return uint(a.K % (size + 1))
	case "e":
		return uint(size)
	default: // "o": beyond the end -- just beyond, or at the far ends of the unsigned range (where a conversion to int wraps)
		switch a.K {
		case 3:
			return math.MaxUint
		case 4:
			return 1 << 63
		case 5:
			return 1<<63 + 7
		case 6:
			return math.MaxInt
		}
		return uint(size + 1 + a.K)
	}
}

type seqOp struct {
	Op      string  `json:"op"`
	I       *idxArg `json:"i,omitempty"`
	J       *idxArg `json:"j,omitempty"`
	V       int     `json:"v,omitempty"`  // alphabet index
	Vs      []int   `json:"vs,omitempty"` // fresh operand (alphabet indices)
	Operand string  `json:"operand,omitempty"`
	Ranker  string  `json:"ranker,omitempty"`
	Q       bool    `json:"q,omitempty"` // quiet: the views are not looked at after this operation
}

type seqCase struct {
	Elem  string  `json:"elem"`
	Coll  string  `json:"coll"`
	Ctor  string  `json:"ctor"`
	Init  []int   `json:"init,omitempty"`
	Init2 []int   `json:"init2,omitempty"`
	Ops   []seqOp `json:"ops"`
}

var listOps = []string{
	"GetValue", "GetValues", "SetValue", "SetValues", "InsertValue", "InsertValues", "AppendValue", "AppendValues",
	"RemoveValue", "RemoveValues", "RemoveAll", "GetIndex", "ContainsValue", "ContainsAny", "ContainsAll",
	"SortValues", "SortValuesWithRanker", "ReverseValues", "ShuffleValues",
	// repeats raise the share of the structural operations
	"InsertValue", "InsertValues", "AppendValue", "RemoveValue", "RemoveValues", "SetValues", "GetValues",
}

var listOpsUnique = []string{
	"GetValue", "GetValues", "SetValue", "SetValues", "InsertValue", "InsertValues", "AppendValue", "AppendValues",
	"RemoveValue", "RemoveValues", "RemoveAll", "GetIndex", "ContainsValue", "ContainsAny", "ContainsAll",
	"SortValues", "SortValuesWithRanker", "ReverseValues", "ShuffleValues",
}

var arrayOpsUnique = []string{
	"GetValue", "GetValues", "SetValue", "SetValues", "SortValues", "SortValuesWithRanker", "ReverseValues", "ShuffleValues",
}

var arrayOps = []string{
	"GetValue", "GetValues", "SetValue", "SetValues", "SortValues", "SortValuesWithRanker", "ReverseValues", "ShuffleValues",
	"GetValues", "SetValues", "SetValue",
}

func genIdx(s core.Source, small bool, label string) *idxArg {
	if small {
		a := &idxArg{C: core.Pick(s, []string{"f", "b", "z", "o", "u"}, label)}
		if a.C == "f" || a.C == "b" {
			a.K = s.Choose(3, label+"k")
		}
		return a
	}
	a := &idxArg{C: core.Pick(s, []string{"f", "b", "f", "b", "z", "o", "u"}, label)}
	switch a.C {
	case "f", "b":
		a.K = s.Choose(8, label+"k")
	case "o", "u":
		a.K = s.Choose(5, label+"k")
	}
	return a
}

func genSlot(s core.Source, small bool) *idxArg {
	a := &idxArg{C: core.Pick(s, []string{"f", "f", "e", "o"}[pickInt(small, 1, 0):], "slot")}
	if a.C == "f" {
		a.K = s.Choose(pickInt(small, 3, 8), "slotk")
	}
	if a.C == "o" && !small {
		a.K = s.Choose(7, "slotk")
	}
	return a
}

func pickInt(c bool, a, b int) int {
	if c {
		return a
	}
	return b
}

// tiny narrows the enumerated space further when histories of two operations are enumerated.
var tiny bool

func genOperand(s core.Source, op *seqOp, small bool, nalpha int) {
	if small {
		op.Operand = core.Pick(s, []string{"fresh", "self", "set", "array", "range"}[:pickInt(tiny, 4, 5)], "operand")
	} else {
		op.Operand = core.Pick(s, []string{"fresh", "fresh", "fresh", "self", "range", "set", "array"}, "operand")
	}
	switch op.Operand {
	case "fresh":
		n := s.Choose(pickInt(small, 3, 6), "nvals")
		op.Vs = []int{}
		for i := 0; i < n; i++ {
			op.Vs = append(op.Vs, s.Choose(nalpha, "val"))
		}
	case "range":
		op.I = genIdxValid(s, small, "ra")
		op.J = genIdxValid(s, small, "rb")
	}
}

func genIdxValid(s core.Source, small bool, label string) *idxArg {
	return &idxArg{C: core.Pick(s, []string{"f", "b"}, label), K: s.Choose(pickInt(small, 3, 8), label+"k")}
}

func genSeqOp(s core.Source, coll string, small bool, nalpha int) seqOp {
	ops := listOps
	if coll == "array" {
		ops = arrayOps
	}
	if small {
		ops = listOpsUnique
		if coll == "array" {
			ops = arrayOpsUnique
		}
	}
	op := seqOp{Op: core.Pick(s, ops, "op")}
	switch op.Op {
	case "GetValue", "RemoveValue":
		op.I = genIdx(s, small, "i")
	case "GetValues", "RemoveValues":
		op.I = genIdx(s, small, "i")
		op.J = genIdx(s, small, "j")
	case "SetValue":
		op.I = genIdx(s, small, "i")
		op.V = s.Choose(nalpha, "val")
	case "SetValues":
		genOperand(s, &op, small, nalpha)
		if op.Operand == "range" {
			// the range arguments occupy I/J; the target index goes to V via K
			op.V = s.Choose(7, "target")
		} else {
			op.I = genIdx(s, small, "i")
		}
	case "InsertValue":
		op.I = genSlot(s, small)
		op.V = s.Choose(nalpha, "val")
	case "InsertValues":
		genOperand(s, &op, small, nalpha)
		op.V = s.Choose(pickInt(small, 3, 4), "slotclass")
	case "AppendValue", "GetIndex", "ContainsValue":
		op.V = s.Choose(nalpha, "val")
	case "AppendValues", "ContainsAny", "ContainsAll":
		genOperand(s, &op, small, nalpha)
	case "SortValuesWithRanker":
		op.Ranker = core.Pick(s, []string{"reversed", "coarse"}, "ranker")
	}
	return op
}

func genSeqCase(small bool, maxOps int) func(core.Source) seqCase {
	return func(s core.Source) seqCase {
		var c seqCase
		if small {
			c.Elem = "int"
			tiny = maxOps > 1
		} else {
			c.Elem = core.Pick(s, []string{"int", "string", "float64", "ints", "any", "int-far"}, "elem")
		}
		nalpha := pickInt(small, 2, 5)
		c.Coll = core.Pick(s, []string{"list", "list", "array"}, "coll")
		if small && tiny {
			c.Ctor = core.Pick(s, []string{"Make", "MakeFromArray"}, "ctor")
		} else if c.Coll == "list" {
			c.Ctor = core.Pick(s, []string{"Make", "MakeFromArray", "MakeFromSequence/array", "MakeFromSequence/list", "MakeFromSequence/set", "Concatenate", "Concatenate/alias"}, "ctor")
		} else {
			c.Ctor = core.Pick(s, []string{"Make", "MakeFromArray", "MakeFromSequence/list", "MakeFromSequence/set"}, "ctor")
		}
		ninit := 0
		if c.Ctor != "Make" || c.Coll == "array" {
			ninit = s.Choose(pickInt(small, pickInt(tiny, 3, 4), 8), "ninit")
		}
		c.Init = []int{}
		for i := 0; i < ninit; i++ {
			c.Init = append(c.Init, s.Choose(nalpha, "init"))
		}
		if c.Ctor == "Concatenate" {
			n2 := s.Choose(pickInt(small, 3, 5), "ninit2")
			c.Init2 = []int{}
			for i := 0; i < n2; i++ {
				c.Init2 = append(c.Init2, s.Choose(nalpha, "init2"))
			}
		}
		nops := 1 + s.Choose(maxOps, "nops")
		// sparse: the views are looked at after some operations only (a cached view that some mutator
		// forgets to invalidate survives only changes nobody looked at)
		sparse := !small && s.Choose(2, "sparse") == 0
		lookLast := small && nops > 1 && s.Choose(2, "look-at-the-end-only") == 1
		for i := 0; i < nops; i++ {
			op := genSeqOp(s, c.Coll, small, nalpha)
			if sparse {
				op.Q = s.Choose(3, "quiet") != 0
			}
			if lookLast {
				op.Q = true
			}
			c.Ops = append(c.Ops, op)
		}
		return c
	}
}

// elemType describes one element type of the quantifier.
type elemType[E any] struct {
	alphabet []E
	same     func(a, b E) bool // identity of stored values (state comparison)
	eq       func(a, b E) bool // equality used by searching (GetIndex, Contains*)
	less     func(a, b E) bool // natural order; nil when the order is implementation defined
}

func lessInts(a, b []int) bool {
	for i := 0; i < len(a) && i < len(b); i++ {
		if a[i] != b[i] {
			return a[i] < b[i]
		}
	}
	return len(a) < len(b)
}

func sameInts(a, b []int) bool {
	return (a == nil) == (b == nil) && lib.EqInts(a, b)
}

var (
	etInt = elemType[int]{[]int{0, 1, 2, 3, -7}, func(a, b int) bool { return a == b }, func(a, b int) bool { return a == b }, func(a, b int) bool { return a < b }}
	// both ends of the int64 range next to small values: pairs that are 2^63 or more apart
	etIntFar = elemType[int]{[]int{math.MinInt64, -1, 0, 1, math.MaxInt64}, func(a, b int) bool { return a == b }, func(a, b int) bool { return a == b }, func(a, b int) bool { return a < b }}
	etString = elemType[string]{[]string{"", "a", "b", "ab", "c"}, func(a, b string) bool { return a == b }, func(a, b string) bool { return a == b }, func(a, b string) bool { return a < b }}
	etFloat  = elemType[float64]{[]float64{0, math.Copysign(0, -1), 1.5, -2, 1e300},
		func(a, b float64) bool { return math.Float64bits(a) == math.Float64bits(b) }, func(a, b float64) bool { return a == b }, func(a, b float64) bool { return a < b }}
	etInts = elemType[[]int]{[][]int{{}, {1}, {1, 2}, {2}, {1, 2, 3}}, sameInts, lib.EqInts, lessInts}
	etAny  = elemType[any]{[]any{nil, int64(1), "a", 1.0, true}, func(a, b any) bool { return a == b }, func(a, b any) bool { return a == b }, nil}
)

func execSeqCase(c seqCase, s core.Source) core.Result {
	switch c.Elem {
	case "int":
		return execSeq(c, etInt)
	case "int-far":
		return execSeq(c, etIntFar)
	case "string":
		return execSeq(c, etString)
	case "float64":
		return execSeq(c, etFloat)
	case "ints":
		return execSeq(c, etInts)
	default:
		return execSeq(c, etAny)
	}
}

type seqRun[E any] struct {
	et    elemType[E]
	model []E
	coll  interface {
		col.Accessible[E]
		col.Sequential[E]
		col.Sortable[E]
		col.Updatable[E]
	}
	list col.ListLike[E]
	res  core.Result
	// sequences returned by earlier range reads/removals, with what they contained then:
	// a returned sequence is a value of its own and must not change when the source does
	kept []keptSeq[E]
	// the collection the constructor was given (MakeFromSequence forms) and what it held then: it stays a
	// collection of its own, whatever kind it is
	source        col.Sequential[E]
	sourceContent []E
}

type keptSeq[E any] struct {
	seq  col.Sequential[E]
	want []E
	what string
}

func (r *seqRun[E]) keep(seq col.Sequential[E], want []E, what string) {
	if seq != nil && len(r.kept) < 6 {
		r.kept = append(r.kept, keptSeq[E]{seq, append([]E(nil), want...), what})
	}
}

func (r *seqRun[E]) checkKept(step int, what string) *core.Violation {
	for _, k := range r.kept {
		if got := k.seq.AsArray(); !r.sameSlice(got, k.want) {
			return core.Violate("C01/returned-sequence-changed/"+opName(k.what), "step %d after %s: the sequence returned earlier by %s was %v and is now %v", step, what, k.what, k.want, got)
		}
	}
	return nil
}

func (r *seqRun[E]) vals(ix []int) []E {
	out := make([]E, len(ix))
	for i, k := range ix {
		out[i] = r.et.alphabet[k%len(r.et.alphabet)]
	}
	return out
}

func (r *seqRun[E]) sameSlice(a, b []E) bool {
	if len(a) != len(b) {
		return false
	}
	for i := range a {
		if !r.et.same(a[i], b[i]) {
			return false
		}
	}
	return true
}

func (r *seqRun[E]) isPermutation(a, b []E) bool {
	if len(a) != len(b) {
		return false
	}
	used := make([]bool, len(b))
outer:
	for _, x := range a {
		for j, y := range b {
			if !used[j] && r.et.same(x, y) {
				used[j] = true
				continue outer
			}
		}
		return false
	}
	return true
}

func (r *seqRun[E]) alphaIndex(v E) int {
	for i, a := range r.et.alphabet {
		if r.et.same(a, v) {
			return i
		}
	}
	return -1
}

func (r *seqRun[E]) valid(index int) bool {
	n := len(r.model)
	return (index >= 1 && index <= n) || (index <= -1 && index >= -n)
}

func (r *seqRun[E]) norm(index int) int {
	if index > 0 {
		return index - 1
	}
	return len(r.model) + index
}

// checkState compares every view of the collection with the model.
func (r *seqRun[E]) checkState(step int, what string) *core.Violation {
	var arr []E
	var size int
	var empty bool
	var walked []E
	p, payload := lib.Call(func() {
		arr = r.coll.AsArray()
		size = r.coll.GetSize()
		empty = r.coll.IsEmpty()
		walked = walk(r.coll.GetIterator())
	})
	if p {
		return core.Violate("C01/view-panicked", "step %d after %s: a view (AsArray/GetSize/IsEmpty/GetIterator) panicked: %s", step, what, lib.Short(payload))
	}
	if !r.sameSlice(arr, r.model) {
		return core.Violate("C01/state/"+opName(what), "step %d after %s: AsArray = %v, abstract sequence = %v", step, what, arr, r.model)
	}
	if size != len(r.model) || empty != (len(r.model) == 0) {
		return core.Violate("C01/size/"+opName(what), "step %d after %s: GetSize %d IsEmpty %v, abstract size %d", step, what, size, empty, len(r.model))
	}
	if !r.sameSlice(walked, r.model) {
		return core.Violate("C01/iteration/"+opName(what), "step %d after %s: iteration = %v, abstract sequence = %v", step, what, walked, r.model)
	}
	return nil
}

func opName(what string) string {
	for i, ch := range what {
		if ch == '(' || ch == ' ' {
			return what[:i]
		}
	}
	return what
}

// operand builds the operand sequence of a bulk operation and its abstract
// content (a snapshot of what it contains before the call).
func (r *seqRun[E]) operand(op seqOp) (seq col.Sequential[E], content []E, ok bool) {
	n := lib.Notation()
	switch op.Operand {
	case "fresh":
		content = r.vals(op.Vs)
		return col.List[E](n).MakeFromArray(content), content, true
	case "self":
		r.res.Classes = append(r.res.Classes, "aliased-operand")
		return r.coll, append([]E(nil), r.model...), true
	case "range":
		if len(r.model) == 0 {
			content = []E{}
			return col.List[E](n).Make(), content, true
		}
		a, b := op.I.index(len(r.model)), op.J.index(len(r.model))
		na, nb := r.norm(a), r.norm(b)
		if na > nb {
			a, b, na, nb = b, a, nb, na
		}
		r.res.Classes = append(r.res.Classes, "aliased-operand")
		content = append([]E(nil), r.model[na:nb+1]...)
		var view col.Sequential[E]
		p, _ := lib.Call(func() { view = r.coll.GetValues(a, b) })
		if p || view == nil {
			return nil, nil, false
		}
		return view, content, true
	case "set":
		r.res.Classes = append(r.res.Classes, "aliased-operand")
		var view col.SetLike[E]
		p, _ := lib.Call(func() { view = col.Set[E](n).MakeFromSequence(r.coll) })
		if p || view == nil {
			return nil, nil, false
		}
		return view, view.AsArray(), true
	default: // array
		r.res.Classes = append(r.res.Classes, "aliased-operand")
		view := col.Array[E](n).MakeFromSequence(r.coll)
		return view, append([]E(nil), r.model...), true
	}
}

func (r *seqRun[E]) ranker(name string) age.RankingFunction[E] {
	cmp := func(a, b int) age.Rank {
		switch {
		case a < b:
			return age.LesserRank
		case a > b:
			return age.GreaterRank
		}
		return age.EqualRank
	}
	natural := func(a, b E) age.Rank {
		if r.et.less != nil {
			switch {
			case r.et.less(a, b):
				return age.LesserRank
			case r.et.less(b, a):
				return age.GreaterRank
			}
			return age.EqualRank
		}
		return cmp(r.alphaIndex(a), r.alphaIndex(b))
	}
	switch name {
	case "reversed":
		return func(a, b E) age.Rank { return natural(b, a) }
	case "coarse":
		return func(a, b E) age.Rank { return cmp((r.alphaIndex(a)+1)/2, (r.alphaIndex(b)+1)/2) }
	}
	return natural
}

func execSeq[E any](c seqCase, et elemType[E]) core.Result {
	r := &seqRun[E]{et: et}
	n := lib.Notation()
	L := col.List[E](n)
	A := col.Array[E](n)
	S := col.Set[E](n)
	init := r.vals(c.Init)
	if len(init) == 0 && len(c.Ops)%2 == 0 {
		init = nil // an empty Go array comes as an allocated empty one or as nil, in turn
	}
	r.model = append([]E{}, init...)
	p, payload := lib.Call(func() {
		if c.Coll == "list" {
			switch c.Ctor {
			case "Make":
				r.list = L.Make()
			case "MakeFromArray":
				r.list = L.MakeFromArray(init)
			case "MakeFromSequence/array":
				r.source = A.MakeFromArray(init)
				r.list = L.MakeFromSequence(r.source)
			case "MakeFromSequence/list":
				r.source = L.MakeFromArray(init)
				r.list = L.MakeFromSequence(r.source)
			case "MakeFromSequence/set":
				set := S.MakeFromArray(init)
				r.model = set.AsArray()
				r.source = set
				r.list = L.MakeFromSequence(set)
			case "Concatenate":
				second := r.vals(c.Init2)
				r.model = append(r.model, second...)
				r.list = L.Concatenate(L.MakeFromArray(init), L.MakeFromArray(second))
			case "Concatenate/alias":
				first := L.MakeFromArray(init)
				r.model = append(r.model, init...)
				r.list = L.Concatenate(first, first)
			}
			r.coll = r.list
		} else {
			switch c.Ctor {
			case "Make":
				var zero E
				r.model = make([]E, len(init))
				for i := range r.model {
					r.model[i] = zero
				}
				r.coll = A.Make(uint(len(init)))
			case "MakeFromArray":
				r.coll = A.MakeFromArray(init)
			case "MakeFromSequence/list":
				r.source = L.MakeFromArray(init)
				r.coll = A.MakeFromSequence(r.source)
			case "MakeFromSequence/set":
				set := S.MakeFromArray(init)
				r.model = set.AsArray()
				r.source = set
				r.coll = A.MakeFromSequence(set)
			}
		}
	})
	if p {
		r.res.Violation = core.Violate("C01/ctor-panicked", "constructor %s/%s panicked: %s", c.Coll, c.Ctor, lib.Short(payload))
		return r.res
	}
	if v := r.checkState(-1, c.Ctor); v != nil {
		r.res.Violation = v
		return r.res
	}
	if r.source != nil {
		r.sourceContent = r.source.AsArray()
	}
	mutated, boundary := false, false
	for step, op := range c.Ops {
		size := len(r.model)
		before := append([]E(nil), r.model...)
		what := op.Op
		var v *core.Violation
		// expectPanic: the abstract sequence says the call must panic and change nothing.
		// mayPanic: either outcome is allowed (documented interpretations), state unchanged if it panics.
		switch op.Op {
		case "GetValue":
			i := op.I.index(size)
			what = fmt.Sprintf("GetValue(%d)", i)
			var got E
			p, _ := lib.Call(func() { got = r.coll.GetValue(i) })
			if !r.valid(i) {
				boundary = true
				if !p {
					v = core.Violate("C01/GetValue/out-of-range-returned", "step %d: %s on size %d returned %v", step, what, size, got)
				}
			} else if p {
				v = core.Violate("C01/GetValue/panicked", "step %d: %s on size %d panicked", step, what, size)
			} else if !r.et.same(got, r.model[r.norm(i)]) {
				v = core.Violate("C01/GetValue/wrong", "step %d: %s = %v, abstract %v", step, what, got, r.model[r.norm(i)])
			}
		case "GetValues", "RemoveValues":
			i, j := op.I.index(size), op.J.index(size)
			what = fmt.Sprintf("%s(%d, %d)", op.Op, i, j)
			var got col.Sequential[E]
			p, _ := lib.Call(func() {
				if op.Op == "GetValues" {
					got = r.coll.GetValues(i, j)
				} else {
					got = r.list.RemoveValues(i, j)
				}
			})
			switch {
			case !r.valid(i) || !r.valid(j):
				boundary = true
				if !p {
					v = core.Violate("C01/"+op.Op+"/out-of-range-returned", "step %d: %s on size %d returned", step, what, size)
				}
			case r.norm(i) > r.norm(j):
				// inverted range, both ends inside: empty result or panic, nothing changes
				boundary = true
				r.res.Classes = append(r.res.Classes, "inverted-range")
				if !p && (got == nil || got.GetSize() != 0) {
					v = core.Violate("C01/"+op.Op+"/inverted-range-nonempty", "step %d: %s on size %d returned a non-empty sequence", step, what, size)
				}
			case p:
				v = core.Violate("C01/"+op.Op+"/panicked", "step %d: %s on size %d panicked", step, what, size)
			default:
				want := append([]E(nil), r.model[r.norm(i):r.norm(j)+1]...)
				if got == nil || !r.sameSlice(got.AsArray(), want) {
					v = core.Violate("C01/"+op.Op+"/wrong", "step %d: %s returned %v, abstract %v", step, what, seqString(got), want)
				} else {
					r.keep(got, want, what)
				}
				if op.Op == "RemoveValues" {
					r.model = append(append([]E{}, r.model[:r.norm(i)]...), r.model[r.norm(j)+1:]...)
					mutated = true
				}
			}
		case "SetValue":
			i := op.I.index(size)
			val := r.vals([]int{op.V})[0]
			what = fmt.Sprintf("SetValue(%d, %v)", i, val)
			p, _ := lib.Call(func() { r.coll.SetValue(i, val) })
			if !r.valid(i) {
				boundary = true
				if !p {
					v = core.Violate("C01/SetValue/out-of-range-returned", "step %d: %s on size %d returned", step, what, size)
				}
			} else if p {
				v = core.Violate("C01/SetValue/panicked", "step %d: %s on size %d panicked", step, what, size)
			} else {
				r.model[r.norm(i)] = val
				mutated = true
			}
		case "SetValues":
			operand, content, ok := r.operand(op)
			if !ok {
				v = core.Violate("C01/operand-view-failed", "step %d: building the %s operand failed", step, op.Operand)
				break
			}
			var i int
			if op.Operand == "range" {
				i = (&idxArg{C: []string{"f", "b", "f", "b", "z", "o", "u"}[op.V%7], K: op.V}).index(size)
			} else {
				i = op.I.index(size)
			}
			what = fmt.Sprintf("SetValues(%d, %s%v)", i, op.Operand, content)
			p, _ := lib.Call(func() { r.coll.SetValues(i, operand) })
			switch {
			case !r.valid(i):
				boundary = true
				if !p {
					v = core.Violate("C01/SetValues/out-of-range-returned", "step %d: %s on size %d returned", step, what, size)
				}
			case len(content) == 0:
				// no position is addressed: no-op or panic, nothing changes
				boundary = true
				r.res.Classes = append(r.res.Classes, "empty-operand")
			case r.norm(i)+len(content) > size:
				boundary = true
				r.res.Classes = append(r.res.Classes, "range-past-end")
				if !p {
					v = core.Violate("C01/SetValues/range-past-end-returned", "step %d: %s on size %d returned although positions %d..%d do not all exist", step, what, size, r.norm(i)+1, r.norm(i)+len(content))
				}
			case p:
				v = core.Violate("C01/SetValues/panicked", "step %d: %s on size %d panicked", step, what, size)
			default:
				copy(r.model[r.norm(i):], content)
				mutated = true
			}
		case "InsertValue":
			slot := op.I.slot(size)
			val := r.vals([]int{op.V})[0]
			what = fmt.Sprintf("InsertValue(%d, %v)", slot, val)
			p, _ := lib.Call(func() { r.list.InsertValue(slot, val) })
			if slot > uint(size) {
				boundary = true
				if !p {
					v = core.Violate("C01/InsertValue/slot-past-end-returned", "step %d: %s on size %d returned", step, what, size)
				}
			} else if p {
				v = core.Violate("C01/InsertValue/panicked", "step %d: %s on size %d panicked", step, what, size)
			} else {
				r.model = append(append(append([]E{}, r.model[:slot]...), val), r.model[slot:]...)
				mutated = true
			}
		case "InsertValues":
			operand, content, ok := r.operand(op)
			if !ok {
				v = core.Violate("C01/operand-view-failed", "step %d: building the %s operand failed", step, op.Operand)
				break
			}
			slot := (&idxArg{C: []string{"f", "e", "o", "f"}[op.V%4], K: len(content) + op.V}).slot(size)
			what = fmt.Sprintf("InsertValues(%d, %s%v)", slot, op.Operand, content)
			if len(content) == 0 {
				boundary = true
				r.res.Classes = append(r.res.Classes, "empty-operand")
			}
			p, _ := lib.Call(func() { r.list.InsertValues(slot, operand) })
			if slot > uint(size) {
				boundary = true
				if !p {
					v = core.Violate("C01/InsertValues/slot-past-end-returned", "step %d: %s on size %d returned", step, what, size)
				}
			} else if p {
				v = core.Violate("C01/InsertValues/panicked", "step %d: %s on size %d panicked", step, what, size)
			} else {
				r.model = append(append(append([]E{}, r.model[:slot]...), content...), r.model[slot:]...)
				mutated = true
			}
		case "AppendValue":
			val := r.vals([]int{op.V})[0]
			what = fmt.Sprintf("AppendValue(%v)", val)
			r.list.AppendValue(val)
			r.model = append(r.model, val)
			mutated = true
		case "AppendValues":
			operand, content, ok := r.operand(op)
			if !ok {
				v = core.Violate("C01/operand-view-failed", "step %d: building the %s operand failed", step, op.Operand)
				break
			}
			what = fmt.Sprintf("AppendValues(%s%v)", op.Operand, content)
			if len(content) == 0 {
				boundary = true
				r.res.Classes = append(r.res.Classes, "empty-operand")
			}
			r.list.AppendValues(operand)
			r.model = append(r.model, content...)
			mutated = true
		case "RemoveValue":
			i := op.I.index(size)
			what = fmt.Sprintf("RemoveValue(%d)", i)
			var got E
			p, _ := lib.Call(func() { got = r.list.RemoveValue(i) })
			if !r.valid(i) {
				boundary = true
				if !p {
					v = core.Violate("C01/RemoveValue/out-of-range-returned", "step %d: %s on size %d returned %v", step, what, size, got)
				}
			} else if p {
				v = core.Violate("C01/RemoveValue/panicked", "step %d: %s on size %d panicked", step, what, size)
			} else {
				k := r.norm(i)
				if !r.et.same(got, r.model[k]) {
					v = core.Violate("C01/RemoveValue/wrong", "step %d: %s returned %v, abstract %v", step, what, got, r.model[k])
				}
				r.model = append(append([]E{}, r.model[:k]...), r.model[k+1:]...)
				mutated = true
			}
		case "RemoveAll":
			r.list.RemoveAll()
			r.model = []E{}
			mutated = true
		case "GetIndex", "ContainsValue":
			val := r.vals([]int{op.V})[0]
			what = fmt.Sprintf("%s(%v)", op.Op, val)
			want := 0
			for k, m := range r.model {
				if r.et.eq(m, val) {
					want = k + 1
					break
				}
			}
			if op.Op == "GetIndex" {
				if got := r.list.GetIndex(val); got != want {
					v = core.Violate("C01/GetIndex/wrong", "step %d: %s = %d, abstract %d in %v", step, what, got, want, r.model)
				}
			} else if got := r.list.ContainsValue(val); got != (want > 0) {
				v = core.Violate("C01/ContainsValue/wrong", "step %d: %s = %v in %v", step, what, got, r.model)
			}
		case "ContainsAny", "ContainsAll":
			operand, content, ok := r.operand(op)
			if !ok {
				v = core.Violate("C01/operand-view-failed", "step %d: building the %s operand failed", step, op.Operand)
				break
			}
			what = fmt.Sprintf("%s(%s%v)", op.Op, op.Operand, content)
			anyIn, allIn := false, true
			for _, x := range content {
				in := false
				for _, m := range r.model {
					if r.et.eq(m, x) {
						in = true
						break
					}
				}
				anyIn = anyIn || in
				allIn = allIn && in
			}
			if len(content) == 0 {
				boundary = true
				r.res.Classes = append(r.res.Classes, "empty-operand")
			}
			if op.Op == "ContainsAny" {
				if got := r.list.ContainsAny(operand); got != anyIn {
					v = core.Violate("C01/ContainsAny/wrong", "step %d: %s = %v in %v", step, what, got, r.model)
				}
			} else if got := r.list.ContainsAll(operand); got != allIn {
				v = core.Violate("C01/ContainsAll/wrong", "step %d: %s = %v in %v", step, what, got, r.model)
			}
		case "SortValues", "SortValuesWithRanker":
			var rank age.RankingFunction[E]
			if op.Op == "SortValues" {
				r.coll.SortValues()
				if r.et.less != nil {
					rank = r.ranker("natural")
				} else {
					rank = age.Collator[E]().Make().RankValues
				}
			} else {
				what = "SortValuesWithRanker(" + op.Ranker + ")"
				rank = r.ranker(op.Ranker)
				r.coll.SortValuesWithRanker(rank)
			}
			got := r.coll.AsArray()
			if !r.isPermutation(got, r.model) {
				v = core.Violate("C01/"+op.Op+"/not-a-permutation", "step %d: %s turned %v into %v", step, what, r.model, got)
				break
			}
			for k := 0; k+1 < len(got); k++ {
				if rank(got[k], got[k+1]) == age.GreaterRank {
					v = core.Violate("C01/"+op.Op+"/not-ascending", "step %d: %s left %v before %v in %v", step, what, got[k], got[k+1], got)
				}
			}
			r.model = got
			mutated = mutated || size > 1
		case "ReverseValues":
			r.coll.ReverseValues()
			for a, b := 0, len(r.model)-1; a < b; a, b = a+1, b-1 {
				r.model[a], r.model[b] = r.model[b], r.model[a]
			}
			mutated = mutated || size > 1
		case "ShuffleValues":
			r.coll.ShuffleValues()
			got := r.coll.AsArray()
			if !r.isPermutation(got, r.model) {
				v = core.Violate("C01/ShuffleValues/not-a-permutation", "step %d: ShuffleValues turned %v into %v", step, r.model, got)
				break
			}
			r.model = got
		}
		if v == nil {
			v = r.checkKept(step, what)
		}
		if v == nil && !(op.Q && step+1 < len(c.Ops)) {
			v = r.checkState(step, what)
			if v != nil && r.sameSlice(before, r.model) {
				// the abstract sequence did not change (a panic was required, or the call is a pure query)
				v.Signature += "/abstract-unchanged"
			}
		}
		if v != nil {
			r.res.Violation = v
			return r.res
		}
	}
	if r.source != nil {
		if now := r.source.AsArray(); !r.sameSlice(now, r.sourceContent) {
			r.res.Violation = core.Violate("C01/ctor/shares-source", "the history on a %s made by %s changed the collection it was made from: %v -> %v", c.Coll, c.Ctor, r.sourceContent, now)
			return r.res
		}
		// changing the source in place now does not reach the collection
		before := r.coll.AsArray()
		if src, ok := r.source.(interface {
			col.Sortable[E]
			col.Updatable[E]
		}); ok && r.source.GetSize() > 0 {
			src.ReverseValues()
			src.SetValue(1, r.vals([]int{0})[0])
			src.SetValue(-1, r.vals([]int{1})[0])
		}
		if now := r.coll.AsArray(); !r.sameSlice(now, before) {
			r.res.Violation = core.Violate("C01/ctor/shares-source", "changing the collection given to %s in place changed the %s made from it: %v -> %v", c.Ctor, c.Coll, before, now)
			return r.res
		}
	}
	r.res.NonTrivial = mutated && boundary
	r.res.Classes = append(r.res.Classes, "elem-"+c.Elem, "coll-"+c.Coll)
	return r.res
}

func seqString[E any](s col.Sequential[E]) string {
	if s == nil {
		return "<nil>"
	}
	return fmt.Sprint(s.AsArray())
}

func TestC01(t *testing.T) {
	r := core.Begin(t, "C01")
	defer r.End()
	core.DFS(r, core.Check[largeCase]{Name: "large-sizes", Gen: genLarge([]string{"List", "Array"}), Exec: execLarge("C01"), NoJournal: true}, 0)
	core.Rapid(r, core.Check[seqCase]{Name: "history", Gen: genSeqCase(false, 40), Exec: execSeqCase, HangLimit: 0}, r.N(4000, 40000))
	core.DFS(r, core.Check[reentrantCase]{Name: "reentrant-elements", Gen: genReentrant([]string{"List", "Array"}), Exec: execReentrant("C01"), NoJournal: true}, 0)
	core.DFS(r, core.Check[hugeCase]{Name: "huge-sizes", Gen: genHuge([]string{"Array", "List"}, []int{16389, 20003}), Exec: execHuge("C01"), NoJournal: true, HangLimit: 300 * time.Second}, 0)
	core.DFS(r, core.Check[longLivedCase]{Name: "long-lived-instance", Gen: genLongLived([]string{"List"}, r.N(150000, 1200000)), Exec: execLongLived("C01"), NoJournal: true, HangLimit: 300 * time.Second}, 0)
	// every history of up to 2 (quick) / 3 (thorough) operations over a 2-value alphabet, sizes 0..3
	core.DFS(r, core.Check[seqCase]{Name: "small-histories", Gen: genSeqCase(true, r.N(1, 2)), Exec: execSeqCase, NoJournal: true}, r.N(400000, 0))
}
