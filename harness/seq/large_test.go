package seq

import (
	"fmt"
	"sort"

	col "github.com/craterdog/go-collection-framework/v4/collection"
	"verifharness/core"
	"verifharness/lib"
)

// ---------------------------------------------------------------- sizes beyond a few dozen (C01 C02 C03 C13 C14)

// The generated histories of these properties work on collections of a few values, which is where indices,
// boundaries and orders go wrong.  What they cannot reach is code that switches strategy with the size -- a
// threshold at 16, 64 or 128 values, a cache that is only worth it for long arrays.  This sub-check runs one
// fixed script of bulk operations per kind on sizes on both sides of the powers of two up to 600 and compares
// every stage with a reference model.

type largeCase struct {
	Kind string `json:"kind"`
	N    int    `json:"n"`
	Salt int    `json:"salt"`
}

var largeSizes = []int{15, 16, 17, 31, 32, 33, 63, 64, 65, 127, 128, 129, 200, 255, 256, 257, 600}

func genLarge(kinds []string) func(core.Source) largeCase {
	return func(s core.Source) largeCase {
		return largeCase{Kind: core.Pick(s, kinds, "kind"), N: largeSizes[s.Choose(len(largeSizes), "n")], Salt: s.Choose(3, "salt")}
	}
}

// perm is a fixed pseudo-random permutation of 0..n-1
func perm(n, salt int) []int {
	out := make([]int, n)
	for i := range out {
		out[i] = i
	}
	sort.Slice(out, func(a, b int) bool {
		return core.Mix(uint64(out[a])*7919+uint64(salt)) < core.Mix(uint64(out[b])*7919+uint64(salt))
	})
	return out
}

func execLarge(prop string) func(largeCase, core.Source) core.Result {
	return func(c largeCase, _ core.Source) (res core.Result) {
		n := lib.Notation()
		stage := ""
		fail := func(format string, args ...any) {
			if res.Violation == nil {
				res.Violation = core.Violate(prop+"/large/"+c.Kind, "%s of %d values, after %s: %s", c.Kind, c.N, stage, fmt.Sprintf(format, args...))
			}
		}
		if p, payload := lib.Call(func() {
			switch c.Kind {
			case "List", "Array":
				vals := perm(c.N, c.Salt)
				model := append([]int{}, vals...)
				var l col.ListLike[int]
				var a col.ArrayLike[int]
				view := func() []int {
					if c.Kind == "List" {
						return l.AsArray()
					}
					return a.AsArray()
				}
				same := func() {
					got := view()
					if !lib.EqInts(got, model) {
						fail("the array view has %d values, expected %d; first difference at %d", len(got), len(model), firstDiff(got, model))
					}
				}
				if c.Kind == "Array" {
					a = col.Array[int](n).MakeFromArray(vals)
					stage = "MakeFromArray"
					same()
					a.SortValues()
					sort.Ints(model)
					stage = "SortValues"
					same()
					a.ReverseValues()
					reverseInts(model)
					stage = "ReverseValues"
					same()
					mid := a.GetValues(c.N/3+1, 2*c.N/3).AsArray()
					if !lib.EqInts(mid, append([]int{}, model[c.N/3:2*c.N/3]...)) {
						fail("GetValues(middle third) returned %d values", len(mid))
					}
					a.SetValues(1, col.Array[int](n).MakeFromArray(model[c.N/2:]))
					copy(model, model[c.N/2:])
					stage = "SetValues(1, second half)"
					same()
					break
				}
				l = col.List[int](n).MakeFromArray(vals)
				stage = "MakeFromArray"
				same()
				l.InsertValue(uint(c.N/2), -1)
				model = append(append(append([]int{}, model[:c.N/2]...), -1), model[c.N/2:]...)
				stage = "InsertValue(middle)"
				same()
				if got := l.RemoveValue(1); got != model[0] {
					fail("RemoveValue(1) returned %d", got)
				}
				model = model[1:]
				if got := l.RemoveValue(-1); got != model[len(model)-1] {
					fail("RemoveValue(-1) returned %d", got)
				}
				model = model[:len(model)-1]
				stage = "RemoveValue(first and last)"
				same()
				lo, hi := len(model)/3, 2*len(model)/3
				removed := l.RemoveValues(lo+1, hi).AsArray()
				if !lib.EqInts(removed, append([]int{}, model[lo:hi]...)) {
					fail("RemoveValues(middle third) returned %d values", len(removed))
				}
				model = append(append([]int{}, model[:lo]...), model[hi:]...)
				stage = "RemoveValues(middle third)"
				same()
				extra := perm(c.N/2+1, c.Salt+1)
				l.AppendValues(col.List[int](n).MakeFromArray(extra))
				model = append(model, extra...)
				stage = "AppendValues"
				same()
				l.SortValues()
				sort.Ints(model)
				stage = "SortValues"
				same()
				l.AppendValue(-7) // a sorted list that got one more value
				model = append(model, -7)
				// searching a long list: the value that stands at the very end only, next to absent ones (asked several
				// times: an answer must not depend on anything but the list and the operand)
				stage = "AppendValue at the end of a sorted list"
				L := col.List[int](n)
				for round := 0; round < 8; round++ {
					switch {
					case !l.ContainsAny(L.MakeFromArray([]int{-1000, -7})):
						fail("ContainsAny([-1000 -7]) = false although -7 is the last value")
					case !l.ContainsAll(L.MakeFromArray([]int{model[0], -7})):
						fail("ContainsAll([%d -7]) = false although both are in the list", model[0])
					case l.ContainsAny(L.MakeFromArray([]int{-1000, -1001})):
						fail("ContainsAny([-1000 -1001]) = true")
					case l.ContainsAll(L.MakeFromArray([]int{-7, -1000})):
						fail("ContainsAll([-7 -1000]) = true")
					case !l.ContainsValue(-7) || l.GetIndex(-7) != len(model):
						fail("ContainsValue(-7) = %v, GetIndex(-7) = %d, expected true and %d", l.ContainsValue(-7), l.GetIndex(-7), len(model))
					}
				}
				l.SortValues()
				sort.Ints(model)
				stage = "AppendValue and SortValues again"
				same()
				l.ReverseValues()
				reverseInts(model)
				stage = "ReverseValues"
				same()
				if idx := l.GetIndex(model[len(model)-1]); idx != firstIndexOf(model, model[len(model)-1])+1 {
					fail("GetIndex(last value) = %d", idx)
				}
				l.InsertValues(0, col.List[int](n).MakeFromArray(extra))
				model = append(append([]int{}, extra...), model...)
				stage = "InsertValues(0, ...)"
				same()
				l.RemoveAll()
				model = nil
				stage = "RemoveAll"
				if l.GetSize() != 0 || !l.IsEmpty() {
					fail("GetSize() = %d", l.GetSize())
				}
				l.AppendValue(5)
				model = []int{5}
				stage = "RemoveAll and AppendValue"
				same()
			case "Set":
				vals := perm(c.N, c.Salt)
				s := col.Set[int](n).Make()
				model := map[int]bool{}
				sorted := func() []int {
					out := []int{}
					for k := range model {
						out = append(out, k)
					}
					sort.Ints(out)
					return out
				}
				same := func() {
					if got := s.AsArray(); !lib.EqInts(got, sorted()) || s.GetSize() != len(model) {
						fail("the set holds %d values (GetSize %d), expected %d; first difference at %d", len(got), s.GetSize(), len(model), firstDiff(got, sorted()))
					}
				}
				for _, v := range vals {
					s.AddValue(v % (c.N - c.N/4)) // a quarter of the additions repeat a member
					model[v%(c.N-c.N/4)] = true
				}
				stage = "AddValue of every value"
				same()
				for v := 0; v < c.N; v += 3 {
					s.RemoveValue(v)
					delete(model, v)
				}
				stage = "RemoveValue of every third"
				same()
				for _, v := range []int{0, 1, 2, c.N / 2, c.N - 1, c.N + 5} {
					if s.ContainsValue(v) != model[v] {
						fail("ContainsValue(%d) = %v", v, s.ContainsValue(v))
					}
					want := 0
					if model[v] {
						want = firstIndexOf(sorted(), v) + 1
					}
					if got := s.GetIndex(v); got != want {
						fail("GetIndex(%d) = %d, expected %d", v, got, want)
					}
				}
				more := perm(c.N/2+2, c.Salt+1)
				s.AddValues(col.List[int](n).MakeFromArray(more))
				for _, v := range more {
					model[v] = true
				}
				stage = "AddValues"
				same()
				other := col.Set[int](n).MakeFromArray(more[:len(more)/2])
				s.RemoveValues(other)
				for _, v := range more[:len(more)/2] {
					delete(model, v)
				}
				stage = "RemoveValues(another set)"
				same()
				copyOf := col.Set[int](n).MakeFromSequence(s)
				stage = "MakeFromSequence(set)"
				if !lib.EqInts(copyOf.AsArray(), sorted()) {
					fail("the copy holds %d values", copyOf.GetSize())
				}
				s.RemoveAll()
				model = map[int]bool{}
				stage = "RemoveAll"
				same()
				s.AddValue(3)
				model[3] = true
				stage = "RemoveAll and AddValue"
				same()
			case "Stack":
				st := col.Stack[int](n).MakeWithCapacity(uint(c.N))
				var model []int // top first
				same := func() {
					if got := st.AsArray(); !lib.EqInts(got, model) || st.GetSize() != len(model) {
						fail("the stack holds %d values (GetSize %d), expected %d", len(got), st.GetSize(), len(model))
					}
				}
				for _, v := range perm(c.N, c.Salt) {
					st.AddValue(v)
					model = append([]int{v}, model...)
				}
				stage = "AddValue up to the capacity"
				same()
				if p, _ := lib.Call(func() { st.AddValue(-1) }); !p {
					fail("AddValue on the full stack returned")
				}
				same()
				for k := 0; k < c.N/2; k++ {
					if got := st.RemoveTop(); got != model[0] {
						fail("RemoveTop returned %d, expected %d", got, model[0])
					}
					model = model[1:]
				}
				stage = "RemoveTop of half"
				same()
				st.AddValue(-2)
				model = append([]int{-2}, model...)
				stage = "AddValue"
				same()
				fromArray := col.Stack[int](n).MakeFromArray(model[:min(len(model), int(col.Stack[int](n).DefaultCapacity()))])
				if !lib.EqInts(fromArray.AsArray(), append([]int{}, model[:fromArray.GetSize()]...)) {
					fail("MakeFromArray gives another order")
				}
				st.RemoveAll()
				model = nil
				stage = "RemoveAll"
				same()
			default: // Catalog, Map
				keys := perm(c.N, c.Salt)
				var a assocLike[int, int]
				ordered := c.Kind == "Catalog"
				if ordered {
					a = col.Catalog[int, int](n).Make()
				} else {
					a = col.Map[int, int](n).Make()
				}
				model := map[int]int{}
				var order []int
				same := func() {
					if a.GetSize() != len(model) || a.IsEmpty() != (len(model) == 0) {
						fail("GetSize() = %d, expected %d", a.GetSize(), len(model))
						return
					}
					arr := a.AsArray()
					gotKeys := a.GetKeys().AsArray()
					if len(arr) != len(model) || len(gotKeys) != len(model) {
						fail("AsArray lists %d, GetKeys %d associations, expected %d", len(arr), len(gotKeys), len(model))
						return
					}
					seen := map[int]bool{}
					for i, x := range arr {
						if v, ok := model[x.GetKey()]; !ok || v != x.GetValue() || seen[x.GetKey()] {
							fail("AsArray lists %d:%d", x.GetKey(), x.GetValue())
							return
						}
						seen[x.GetKey()] = true
						if ordered && (x.GetKey() != order[i] || gotKeys[i] != order[i]) {
							fail("position %d holds key %d (GetKeys: %d), expected %d", i+1, x.GetKey(), gotKeys[i], order[i])
							return
						}
					}
					for _, k := range []int{0, 1, c.N / 2, c.N - 1, c.N + 3} {
						if a.GetValue(k) != model[k] {
							fail("GetValue(%d) = %d, expected %d", k, a.GetValue(k), model[k])
						}
					}
				}
				remove := func(k int) {
					if _, ok := model[k]; ok {
						delete(model, k)
						order = append(order[:firstIndexOf(order, k):firstIndexOf(order, k)], order[firstIndexOf(order, k)+1:]...)
					}
				}
				for _, k := range keys {
					a.SetValue(k, k+1000)
					model[k] = k + 1000
					order = append(order, k)
				}
				stage = "SetValue of every key"
				same()
				for k := 0; k < c.N; k += 3 {
					a.SetValue(k, -k)
					model[k] = -k
				}
				stage = "overwriting every third key"
				same()
				for k := 1; k < c.N; k += 3 {
					if got := a.RemoveValue(k); got != model[k] {
						fail("RemoveValue(%d) returned %d", k, got)
					}
					remove(k)
				}
				stage = "RemoveValue of every third key"
				same()
				probe := []int{0, 2, c.N + 1, c.N / 2, 2}
				var want []int
				for _, k := range probe {
					want = append(want, model[k])
				}
				if got := a.GetValues(col.List[int](n).MakeFromArray(probe)).AsArray(); !lib.EqInts(got, want) {
					fail("GetValues(%v) = %v, expected %v", probe, got, want)
				}
				half := append([]int{}, order[:len(order)/2]...)
				sort.Ints(half)
				a.RemoveValues(col.List[int](n).MakeFromArray(half))
				for _, k := range half {
					remove(k)
				}
				stage = "RemoveValues(half of the keys)"
				same()
				if cat, ok := a.(col.CatalogLike[int, int]); ok {
					cat.SortValues()
					sort.Ints(order)
					stage = "SortValues"
					same()
					cat.ReverseValues()
					reverseInts(order)
					stage = "ReverseValues"
					same()
				}
				a.RemoveAll()
				model, order = map[int]int{}, nil
				stage = "RemoveAll"
				same()
				a.SetValue(4, 44)
				model[4], order = 44, []int{4}
				stage = "RemoveAll and SetValue"
				same()
			}
		}); p && res.Violation == nil {
			res.Violation = core.Violate(prop+"/large/"+c.Kind+"/panicked", "%s of %d values, after %s: a valid call panicked: %s", c.Kind, c.N, stage, lib.Short(payload))
		}
		res.NonTrivial = true
		res.Classes = append(res.Classes, "kind-"+c.Kind)
		return
	}
}

func firstDiff(a, b []int) int {
	for i := 0; i < len(a) && i < len(b); i++ {
		if a[i] != b[i] {
			return i + 1
		}
	}
	return min(len(a), len(b)) + 1
}

func firstIndexOf(xs []int, v int) int {
	for i, x := range xs {
		if x == v {
			return i
		}
	}
	return -1
}

func reverseInts(xs []int) {
	for a, b := 0, len(xs)-1; a < b; a, b = a+1, b-1 {
		xs[a], xs[b] = xs[b], xs[a]
	}
}
