package seq

import (
	"fmt"
	"sort"
	"strings"
	"sync"
	"testing"
	"time"

	age "github.com/craterdog/go-collection-framework/v4/agent"
	col "github.com/craterdog/go-collection-framework/v4/collection"
	"verifharness/core"
	"verifharness/lib"
)

// ---------------------------------------------------------------- realistic use that single-instance histories do not reach

// within runs f and reports whether it came back in time (a call that never returns leaves its goroutine behind)
func within(d time.Duration, f func()) (ok bool, panicked any) {
	done := make(chan any, 1)
	go func() {
		defer func() { done <- recover() }()
		f()
	}()
	select {
	case p := <-done:
		return true, p
	case <-time.After(d):
		return false, nil
	}
}

// ---- elements whose getters use the library themselves

// A value is ranked through its Get... methods.  A getter is the element's own code and is free to use
// collections of its own -- to return a sorted copy of a list, a set built from a Go array -- also collections
// of the very element type that is being sorted or searched.  Whatever the outer operation holds while it
// ranks (a collator, a lock) must not be what the inner one needs.
type shelf struct {
	name   string
	titles []any
}

func (s *shelf) GetName() string { return s.name }

// GetContents comes before GetName in the method table: it is asked first (the shelves hold the same titles, so
// the names decide)
func (s *shelf) GetContents() col.ListLike[any] {
	l := col.List[any](lib.Notation()).MakeFromArray(s.titles)
	l.SortValues()
	return l
}

type task struct {
	id       int
	requires []*task
}

func (t *task) GetId() int { return t.id }
func (t *task) GetDependencies() col.SetLike[*task] {
	return col.Set[*task](lib.Notation()).MakeFromArray(t.requires)
}

type reentrantCase struct {
	Kind string `json:"kind"` // List Array Sorter Set SetAlgebra Catalog
	N    int    `json:"n"`
	Salt int    `json:"salt"`
}

func execReentrant(prop string) func(reentrantCase, core.Source) core.Result {
	return func(c reentrantCase, _ core.Source) (res core.Result) {
		n := lib.Notation()
		order := perm(c.N, c.Salt)
		fail := func(format string, args ...any) {
			res.Violation = core.Violate(prop+"/reentrant-elements/"+c.Kind, "%s of %d elements whose getters use collections of their own: %s", c.Kind, c.N, fmt.Sprintf(format, args...))
		}
		var got []int
		var ok bool
		var p any
		switch c.Kind {
		case "List", "Array", "Sorter", "Catalog":
			shelves := make([]any, c.N)
			for i, k := range order {
				shelves[i] = &shelf{name: fmt.Sprintf("shelf-%03d", k), titles: []any{"b", "a", "c"}}
			}
			name := func(x any) int {
				var k int
				fmt.Sscanf(x.(*shelf).name, "shelf-%d", &k)
				return k
			}
			ok, p = within(30*time.Second, func() {
				switch c.Kind {
				case "List":
					l := col.List[any](n).MakeFromArray(shelves)
					l.SortValues()
					for _, x := range l.AsArray() {
						got = append(got, name(x))
					}
					if c.N > 0 && (l.GetIndex(shelves[0]) == 0 || !l.ContainsValue(shelves[c.N-1])) {
						got = append(got, -1)
					}
				case "Array":
					a := col.Array[any](n).MakeFromArray(shelves)
					a.SortValues()
					for _, x := range a.AsArray() {
						got = append(got, name(x))
					}
				case "Sorter":
					work := append([]any{}, shelves...)
					age.Sorter[any]().Make().SortValues(work)
					for _, x := range work {
						got = append(got, name(x))
					}
				default:
					cat := col.Catalog[int, any](n).Make()
					for i, x := range shelves {
						cat.SetValue(order[i], x)
					}
					cat.SortValues()
					for _, a := range cat.AsArray() {
						got = append(got, name(a.GetValue()))
					}
				}
			})
		default:
			tasks := make([]*task, c.N)
			for k := range tasks {
				tasks[k] = &task{id: k}
				for j := 0; j < k && j < 3; j++ {
					tasks[k].requires = append(tasks[k].requires, tasks[j])
				}
			}
			S := col.Set[*task](n)
			ok, p = within(30*time.Second, func() {
				s := S.Make()
				for _, k := range order {
					s.AddValue(tasks[k])
				}
				if c.Kind == "SetAlgebra" {
					half := S.Make()
					for _, k := range order[:c.N/2] {
						half.AddValue(tasks[k])
					}
					s = S.Or(S.Sans(s, half), S.And(s, half))
				}
				for _, x := range s.AsArray() {
					got = append(got, x.id)
				}
				if c.N > 0 && (!s.ContainsValue(tasks[order[0]]) || s.GetIndex(tasks[c.N-1]) != c.N) {
					got = append(got, -1)
				}
			})
		}
		switch {
		case !ok:
			fail("the call did not return within 30 s")
		case p != nil:
			fail("panicked: %s", lib.Short(p))
		default:
			want := make([]int, c.N)
			for i := range want {
				want[i] = i
			}
			if !lib.EqInts(got, want) && !(len(got) == 0 && c.N == 0) {
				fail("the elements came out as %v, expected them in the order of their first getter", got)
			}
		}
		res.NonTrivial = c.N >= 2
		res.Classes = append(res.Classes, "kind-"+c.Kind)
		return
	}
}

func genReentrant(kinds []string) func(core.Source) reentrantCase {
	return func(s core.Source) reentrantCase {
		return reentrantCase{Kind: core.Pick(s, kinds, "kind"), N: []int{0, 1, 2, 3, 5, 9, 17}[s.Choose(7, "n")], Salt: s.Choose(3, "salt")}
	}
}

// ---- one instance that lives long

// An instance that is used for a long time: hundreds of thousands of small operations on one collection that
// never grows beyond a handful of values.  Bookkeeping that is reorganised every so often (after so many
// removals, so many additions) is reached by nothing else.  Every view is compared with the model at powers
// of two of the operation count (and their neighbours) and at the end.
type longLivedCase struct {
	Kind string `json:"kind"` // Catalog Map List Set Stack Queue
	Ops  int    `json:"ops"`
}

func execLongLived(prop string) func(longLivedCase, core.Source) core.Result {
	return func(c longLivedCase, _ core.Source) (res core.Result) {
		n := lib.Notation()
		fail := func(at int, format string, args ...any) {
			if res.Violation == nil {
				res.Violation = core.Violate(prop+"/long-lived/"+c.Kind, "one %s, operation %d of %d: %s", c.Kind, at, c.Ops, fmt.Sprintf(format, args...))
			}
		}
		due := func(i int) bool {
			if i == c.Ops-1 || i%8192 == 0 {
				return true
			}
			for _, d := range []int{-1, 0, 1, 2} {
				k := i + d
				if k >= 1024 && k&(k-1) == 0 {
					return true
				}
			}
			return false
		}
		ok, p := within(120*time.Second, func() {
			switch c.Kind {
			case "Catalog", "Map":
				var m assocLike[string, int]
				if c.Kind == "Catalog" {
					cat := col.Catalog[string, int](n).Make()
					m = cat
				} else {
					m = col.Map[string, int](n).Make()
				}
				model := map[string]int{"alpha": 1, "beta": 2, "gamma": 3}
				for k, v := range model {
					m.SetValue(k, v)
				}
				for i := 0; i < c.Ops && res.Violation == nil; i++ {
					job := fmt.Sprintf("job-%d", i%7)
					m.SetValue(job, i)
					model[job] = i
					if i%3 != 0 {
						if got := m.RemoveValue(job); got != i {
							fail(i, "RemoveValue(%q) returned %d, expected %d", job, got, i)
						}
						delete(model, job)
					}
					if due(i) {
						if m.GetSize() != len(model) || len(m.AsArray()) != len(model) || m.GetKeys().GetSize() != len(model) {
							fail(i, "GetSize() = %d, the array view has %d associations, GetKeys() %d keys, expected %d", m.GetSize(), len(m.AsArray()), m.GetKeys().GetSize(), len(model))
						}
						seen := map[string]bool{}
						for _, a := range m.AsArray() {
							if v, in := model[a.GetKey()]; !in || v != a.GetValue() || seen[a.GetKey()] {
								fail(i, "the array view lists %q: %d (expected %v)", a.GetKey(), a.GetValue(), model)
							}
							seen[a.GetKey()] = true
						}
						for k, v := range model {
							if got := m.GetValue(k); got != v {
								fail(i, "GetValue(%q) = %d, expected %d", k, got, v)
							}
						}
					}
				}
			case "List":
				l := col.List[int](n).MakeFromArray([]int{-1, -2, -3})
				model := []int{-1, -2, -3}
				for i := 0; i < c.Ops && res.Violation == nil; i++ {
					switch i % 4 {
					case 0:
						l.AppendValue(i)
						model = append(model, i)
					case 1:
						l.InsertValue(0, i)
						model = append([]int{i}, model...)
					case 2:
						if got := l.RemoveValue(-1); got != model[len(model)-1] {
							fail(i, "RemoveValue(-1) returned %d", got)
						}
						model = model[:len(model)-1]
					default:
						if got := l.RemoveValue(1); got != model[0] {
							fail(i, "RemoveValue(1) returned %d", got)
						}
						model = model[1:]
					}
					if due(i) && (!lib.EqInts(l.AsArray(), model) || l.GetSize() != len(model) || l.GetIndex(-2) != indexOf(model, -2)+1) {
						fail(i, "the list holds %v (size %d, GetIndex(-2) = %d), expected %v", l.AsArray(), l.GetSize(), l.GetIndex(-2), model)
					}
				}
			case "Set":
				s := col.Set[int](n).MakeFromArray([]int{-1, -2, -3})
				for i := 0; i < c.Ops && res.Violation == nil; i++ {
					s.AddValue(i % 5)
					if i%2 == 1 {
						s.RemoveValue(i % 5)
						s.RemoveValue((i - 1) % 5)
					}
					if due(i) {
						want := []int{-3, -2, -1}
						if i%2 == 0 {
							want = append(want, i%5)
						}
						if !lib.EqInts(s.AsArray(), want) || s.GetSize() != len(want) || !s.ContainsValue(-3) || s.GetIndex(-1) != 3 {
							fail(i, "the set holds %v, expected %v", s.AsArray(), want)
						}
					}
				}
			case "Stack":
				st := col.Stack[int](n).MakeWithCapacity(4)
				st.AddValue(-1)
				for i := 0; i < c.Ops && res.Violation == nil; i++ {
					st.AddValue(i)
					st.AddValue(i + 1)
					if got := st.RemoveTop(); got != i+1 {
						fail(i, "RemoveTop() = %d, expected %d", got, i+1)
					}
					if i%5 == 0 {
						// a push on the full stack is refused and leaves it as it was
						st.AddValue(7)
						st.AddValue(8)
						if full, _ := lib.Call(func() { st.AddValue(9) }); !full {
							fail(i, "a fifth value was accepted by a stack of capacity 4")
						}
						st.RemoveTop()
						st.RemoveTop()
					}
					if got := st.RemoveTop(); got != i {
						fail(i, "RemoveTop() = %d, expected %d", got, i)
					}
					if due(i) && (!lib.EqInts(st.AsArray(), []int{-1}) || st.GetSize() != 1 || st.GetCapacity() != 4) {
						fail(i, "the stack holds %v with capacity %d, expected [-1] and 4", st.AsArray(), st.GetCapacity())
					}
				}
			default: // Queue, one goroutine
				q := col.Queue[int](n).MakeWithCapacity(3)
				q.AddValue(-1)
				for i := 0; i < c.Ops && res.Violation == nil; i++ {
					q.AddValue(i)
					if got, ok := q.RemoveHead(); !ok || (i == 0 && got != -1) || (i > 0 && got != i-1) {
						fail(i, "RemoveHead() = %d, %v", got, ok)
					}
					if i%1000 == 999 {
						q.RemoveAll()
						q.AddValue(i)
					}
					if due(i) && (!lib.EqInts(q.AsArray(), []int{i}) || q.GetSize() != 1 || q.GetCapacity() != 3) {
						fail(i, "the queue holds %v with capacity %d, expected [%d] and 3", q.AsArray(), q.GetCapacity(), i)
					}
				}
			}
		})
		switch {
		case !ok:
			fail(-1, "the history did not finish within 120 s")
		case p != nil:
			fail(-1, "panicked: %s", lib.Short(p))
		}
		res.NonTrivial = true
		res.Classes = append(res.Classes, "kind-"+c.Kind)
		return
	}
}

func indexOf(xs []int, v int) int {
	for i, x := range xs {
		if x == v {
			return i
		}
	}
	return -1
}

func genLongLived(kinds []string, ops int) func(core.Source) longLivedCase {
	return func(s core.Source) longLivedCase {
		return longLivedCase{Kind: core.Pick(s, kinds, "kind"), Ops: ops}
	}
}

var _ = sort.Ints

// ---- class lookups in every order

// A class is looked up through its generic function with a notation -- or with nil, which is how the library
// itself asks for the class of an existing instance -- and a process may use more than one notation
// (Package.go expects others than CDCN).  In whatever order a type's class was first asked for, every later
// lookup returns promptly and the class makes working instances with the documented defaults.
type otherNotation struct{ col.NotationLike }

func (n otherNotation) GetClass() col.NotationClassLike { return otherNotationClass{} }

type otherNotationClass struct{}

func (otherNotationClass) Make() col.NotationLike { return otherNotation{lib.Notation()} }

type lookupCase struct {
	Kind  string `json:"kind"`  // Map Catalog List Array Set Stack Queue
	Order []int  `json:"order"` // 0 = nil, 1 = the CDCN notation, 2 = another notation class
}

// one private element type per kind and order: a class registry is first used once per process and type
type lk0 struct{ A int }
type lk1 struct{ A int }
type lk2 struct{ A int }
type lk3 struct{ A int }
type lk4 struct{ A int }
type lk5 struct{ A int }

var lookupOrders = [][]int{{0, 1}, {1, 0}, {1, 2}, {2, 1}, {0, 2, 1}, {1, 1, 0, 2}}

func execLookups(prop string) func(lookupCase, core.Source) core.Result {
	return func(c lookupCase, _ core.Source) (res core.Result) {
		which := 0
		for i, o := range lookupOrders {
			if fmt.Sprint(o) == fmt.Sprint(c.Order) {
				which = i
			}
		}
		var v *core.Violation
		switch which {
		case 0:
			v = runLookups[lk0](prop, c, func(i int) lk0 { return lk0{i} })
		case 1:
			v = runLookups[lk1](prop, c, func(i int) lk1 { return lk1{i} })
		case 2:
			v = runLookups[lk2](prop, c, func(i int) lk2 { return lk2{i} })
		case 3:
			v = runLookups[lk3](prop, c, func(i int) lk3 { return lk3{i} })
		case 4:
			v = runLookups[lk4](prop, c, func(i int) lk4 { return lk4{i} })
		default:
			v = runLookups[lk5](prop, c, func(i int) lk5 { return lk5{i} })
		}
		res.Violation = v
		res.NonTrivial = true
		res.Classes = append(res.Classes, "kind-"+c.Kind)
		return
	}
}

func runLookups[E comparable](prop string, c lookupCase, mk func(int) E) *core.Violation {
	notations := []col.NotationLike{nil, lib.Notation(), otherNotation{lib.Notation()}}
	desc := fmt.Sprintf("the class of %s for a new element type looked up with the notations %v (0 = nil, 1 = CDCN, 2 = another notation class)", c.Kind, c.Order)
	var problem string
	ok, p := within(30*time.Second, func() {
		for _, o := range c.Order {
			n := notations[o]
			switch c.Kind {
			case "Map":
				col.Map[E, int](n)
			case "Catalog":
				col.Catalog[E, int](n)
			case "List":
				col.List[E](n)
			case "Array":
				col.Array[E](n)
			case "Set":
				col.Set[E](n)
			case "Stack":
				col.Stack[E](n)
			default:
				col.Queue[E](n)
			}
		}
		// afterwards: working instances with the documented defaults, from the class and through the views
		n := lib.Notation()
		switch c.Kind {
		case "Map", "Catalog":
			var m assocLike[E, int]
			if c.Kind == "Map" {
				m = col.Map[E, int](n).Make()
			} else {
				m = col.Catalog[E, int](n).Make()
			}
			m.SetValue(mk(1), 10)
			m.SetValue(mk(2), 20)
			keys := m.GetKeys()
			if m.GetSize() != 2 || keys.GetSize() != 2 || len(m.AsArray()) != 2 || m.GetValue(mk(2)) != 20 || len(m.GetValues(keys).AsArray()) != 2 {
				problem = fmt.Sprintf("a new %s with two associations reports size %d, %d keys", c.Kind, m.GetSize(), keys.GetSize())
			}
			for it := m.GetIterator(); it.HasNext(); {
				it.GetNext()
			}
			if c.Kind == "Map" {
				copyOf := col.Map[E, int](n).MakeFromSequence(m)
				if copyOf.GetSize() != 2 {
					problem = "a Map made from the Map has another size"
				}
			}
		case "Stack":
			st := col.Stack[E](n).Make()
			if st.GetCapacity() != 16 || col.Stack[E](n).DefaultCapacity() != 16 {
				problem = fmt.Sprintf("a new Stack has capacity %d (class default %d), expected 16", st.GetCapacity(), col.Stack[E](n).DefaultCapacity())
			}
			for i := 0; i < 16; i++ {
				st.AddValue(mk(i))
			}
			if st.GetSize() != 16 || st.RemoveTop() != mk(15) {
				problem = "a new Stack does not hold the 16 values pushed onto it"
			}
		case "Queue":
			q := col.Queue[E](n).Make()
			if q.GetCapacity() != 16 || col.Queue[E](n).DefaultCapacity() != 16 {
				problem = fmt.Sprintf("a new Queue has capacity %d (class default %d), expected 16", q.GetCapacity(), col.Queue[E](n).DefaultCapacity())
				return
			}
			for i := 0; i < 16; i++ {
				q.AddValue(mk(i)) // no consumer: a queue accepts as many values as its capacity
			}
			if head, ok := q.RemoveHead(); !ok || head != mk(0) || q.GetSize() != 15 {
				problem = "a new Queue does not hand out the first of the 16 values added to it"
			}
		case "Set":
			s := col.Set[E](n).Make()
			s.AddValue(mk(2))
			s.AddValue(mk(1))
			s.AddValue(mk(2))
			if s.GetSize() != 2 || !s.ContainsValue(mk(1)) {
				problem = fmt.Sprintf("a new Set holds %v after adding 2, 1, 2", s.AsArray())
			}
		case "List":
			l := col.List[E](n).Make()
			l.AppendValue(mk(1))
			l.InsertValue(0, mk(0))
			if l.GetSize() != 2 || l.GetValue(1) != mk(0) || l.GetValues(1, 2).GetSize() != 2 {
				problem = fmt.Sprintf("a new List holds %v", l.AsArray())
			}
		default:
			a := col.Array[E](n).MakeFromArray([]E{mk(1), mk(0)})
			a.ReverseValues()
			if a.GetSize() != 2 || a.GetValue(1) != mk(0) {
				problem = fmt.Sprintf("a new Array holds %v", a.AsArray())
			}
		}
	})
	switch {
	case !ok:
		return core.Violate(prop+"/class-lookups/hang/"+c.Kind, "%s: a later call did not return within 30 s", desc)
	case p != nil:
		return core.Violate(prop+"/class-lookups/panicked/"+c.Kind, "%s: panicked: %s", desc, lib.Short(p))
	case problem != "":
		return core.Violate(prop+"/class-lookups/"+c.Kind, "%s: %s", desc, problem)
	}
	return nil
}

func genLookups(kinds []string) func(core.Source) lookupCase {
	return func(s core.Source) lookupCase {
		return lookupCase{Kind: core.Pick(s, kinds, "kind"), Order: lookupOrders[s.Choose(len(lookupOrders), "order")]}
	}
}

// C05: what a queue class is and what one long-lived queue does does not depend on schedules
func TestC05Usage(t *testing.T) {
	r := core.Begin(t, "C05")
	defer r.End()
	core.DFS(r, core.Check[lookupCase]{Name: "class-lookups", Gen: genLookups([]string{"Queue"}), Exec: execLookups("C05"), NoJournal: true}, 0)
	core.DFS(r, core.Check[joinCase]{Name: "join-of-independent-producers", Gen: genJoinIndependent, Exec: execJoinIndependent("C05"), HangLimit: 120 * time.Second}, 0)
	core.DFS(r, core.Check[longLivedCase]{Name: "long-lived-instance", Gen: genLongLived([]string{"Queue"}, r.N(150000, 1200000)), Exec: execLongLived("C05"), NoJournal: true, HangLimit: 300 * time.Second}, 0)
}

// ---- several copies of one stack

// A stack made from a stack is a stack of its own -- and so is the second one made from the same source, and the
// one made from a copy.  Whatever the copies share with their source to save work has to cope with more than
// two parties: every one of them is pushed onto, popped and emptied in turn, and all the others stay as they were.
type copiesCase struct {
	Size   int   `json:"size"`
	Copies int   `json:"copies"`
	Chain  bool  `json:"chain"` // each copy is made from the previous copy
	Order  []int `json:"order"` // which party is changed, in turn (0 = the source)
	How    int   `json:"how"`   // 0 push+pop, 1 pop, 2 RemoveAll, 3 push up to the capacity
}

func genCopies(s core.Source) copiesCase {
	c := copiesCase{Size: []int{0, 1, 3, 4}[s.Choose(4, "size")], Copies: 2 + s.Choose(2, "copies"), Chain: s.Choose(2, "chain") == 1, How: s.Choose(4, "how")}
	parties := c.Copies + 1
	first := s.Choose(parties, "first")
	for k := 0; k < parties; k++ {
		c.Order = append(c.Order, (first+k)%parties)
	}
	return c
}

func execCopies(c copiesCase, _ core.Source) (res core.Result) {
	S := col.Stack[int](lib.Notation())
	src := S.MakeWithCapacity(4)
	for i := 0; i < c.Size; i++ {
		src.AddValue(i + 1)
	}
	parties := []col.StackLike[int]{src}
	for k := 0; k < c.Copies; k++ {
		from := src
		if c.Chain {
			from = parties[len(parties)-1]
		}
		parties = append(parties, S.MakeFromSequence(from))
	}
	model := make([][]int, len(parties))
	for k, p := range parties {
		model[k] = append([]int{}, p.AsArray()...)
		if !lib.EqInts(model[k], src.AsArray()) {
			res.Violation = core.Violate("C13/copies/wrong-copy", "copy %d of a stack holding %v holds %v", k, src.AsArray(), model[k])
			return
		}
	}
	for _, k := range c.Order {
		p := parties[k]
		lib.Call(func() {
			switch c.How {
			case 0:
				switch room := int(p.GetCapacity()) - len(model[k]); {
				case room >= 2:
					p.AddValue(100 + k)
					p.AddValue(200 + k)
					p.RemoveTop()
					model[k] = append([]int{100 + k}, model[k]...)
				case room == 1:
					p.AddValue(100 + k)
					model[k] = append([]int{100 + k}, model[k]...)
				default:
					p.RemoveTop()
					model[k] = model[k][1:]
				}
			case 1:
				if len(model[k]) > 0 {
					p.RemoveTop()
					model[k] = model[k][1:]
				}
			case 2:
				p.RemoveAll()
				model[k] = []int{}
			default:
				for len(model[k]) < int(p.GetCapacity()) {
					p.AddValue(300 + k)
					model[k] = append([]int{300 + k}, model[k]...)
				}
			}
		})
		for j, q := range parties {
			if !lib.EqInts(q.AsArray(), model[j]) && !(len(q.AsArray()) == 0 && len(model[j]) == 0) || q.GetSize() != len(model[j]) || uint(q.GetSize()) > q.GetCapacity() {
				res.Violation = core.Violate("C13/copies/not-independent", "a stack holding %d values and %d copies of it (chain=%v): after party %d was changed (how=%d), party %d holds %v (size %d, capacity %d), expected %v",
					c.Size, c.Copies, c.Chain, k, c.How, j, q.AsArray(), q.GetSize(), q.GetCapacity(), model[j])
				return
			}
		}
	}
	res.NonTrivial = c.Size > 0
	return
}

// ---- many callers at once

// The class functions are pure, so any number of goroutines may call them at once, each on operands of its own
// (a server that merges or extracts per request).  Whatever a class keeps to save work -- buffers, scratch
// indexes -- must be enough for all of them: every call returns, with the result the law gives.
type manyCallersCase struct {
	Fn      string `json:"fn"` // Extract Merge Concatenate
	Callers int    `json:"callers"`
	Rounds  int    `json:"rounds"`
}

func execManyCallers(c manyCallersCase, _ core.Source) (res core.Result) {
	n := lib.Notation()
	C := col.Catalog[int, int](n)
	L := col.List[int](n)
	problems := make([]string, c.Callers)
	start := make(chan struct{})
	done := make(chan int, c.Callers)
	for w := 0; w < c.Callers; w++ {
		w := w
		go func() {
			defer func() {
				if e := recover(); e != nil {
					problems[w] = "panicked: " + lib.Short(e)
				}
				done <- w
			}()
			<-start
			for round := 0; round < c.Rounds; round++ {
				a, b := C.Make(), C.Make()
				for k := 0; k < 6; k++ {
					a.SetValue(k, w*100+k)
					b.SetValue(k+3, -(w*100 + k))
				}
				switch c.Fn {
				case "Extract":
					got := C.Extract(a, L.MakeFromArray([]int{4, 9, 0, 4}))
					if keys := got.GetKeys().AsArray(); !lib.EqInts(keys, []int{4, 0}) || got.GetValue(4) != w*100+4 {
						problems[w] = fmt.Sprintf("Extract gave the keys %v", keys)
					}
				case "Merge":
					got := C.Merge(a, b)
					if keys := got.GetKeys().AsArray(); !lib.EqInts(keys, []int{0, 1, 2, 3, 4, 5, 6, 7, 8}) || got.GetValue(4) != -(w*100+1) || got.GetValue(1) != w*100+1 {
						problems[w] = fmt.Sprintf("Merge gave the keys %v and %d under 4", keys, got.GetValue(4))
					}
				default:
					got := L.Concatenate(L.MakeFromArray([]int{w, 1}), L.MakeFromArray([]int{2, w}))
					if !lib.EqInts(got.AsArray(), []int{w, 1, 2, w}) {
						problems[w] = fmt.Sprintf("Concatenate gave %v", got.AsArray())
					}
				}
			}
		}()
	}
	close(start)
	returned := 0
	timeout := time.After(30 * time.Second)
	for returned < c.Callers {
		select {
		case <-done:
			returned++
		case <-timeout:
			res.Violation = core.Violate("C16/many-callers/hang/"+c.Fn, "%d goroutines called %s at once, each on operands of its own, %d times: only %d of them had returned after 30 s", c.Callers, c.Fn, c.Rounds, returned)
			return
		}
	}
	for w, p := range problems {
		if p != "" {
			res.Violation = core.Violate("C16/many-callers/"+c.Fn, "%d goroutines calling %s at once, each on operands of its own: caller %d: %s", c.Callers, c.Fn, w, p)
			return
		}
	}
	res.NonTrivial = true
	res.Classes = append(res.Classes, "fn-"+c.Fn)
	return
}

// ---- values that change between two sorts

// A collection holds what it was given: a pointer to a record, a nested list.  Such a value may be changed
// through the caller's own reference (a score is updated, a value appended to the inner list) and the collection
// sorted again: the second sort orders what the values are now, whatever the first sort found.
type resortCase struct {
	Via   string `json:"via"`  // List Array Catalog
	Elem  string `json:"elem"` // pointer list
	Codes []int  `json:"codes"`
	Twice bool   `json:"twice"` // the collection is sorted twice before the values change
}

func execResort(c resortCase, _ core.Source) (res core.Result) {
	n := lib.Notation()
	cells := make([]*int, len(c.Codes))
	lists := make([]col.ListLike[int], len(c.Codes))
	vals := make([]any, len(c.Codes))
	for i, k := range c.Codes {
		v := k
		cells[i] = &v
		lists[i] = col.List[int](n).MakeFromArray([]int{k, 5})
		if c.Elem == "pointer" {
			vals[i] = cells[i]
		} else {
			vals[i] = lists[i]
		}
	}
	key := func(x any) int {
		if p, ok := x.(*int); ok {
			return *p
		}
		return x.(col.ListLike[int]).GetValue(1)
	}
	var view func() []any
	var sortIt func()
	switch c.Via {
	case "List":
		l := col.List[any](n).MakeFromArray(vals)
		view, sortIt = l.AsArray, l.SortValues
	case "Array":
		a := col.Array[any](n).MakeFromArray(vals)
		view, sortIt = a.AsArray, a.SortValues
	default:
		cat := col.Catalog[int, any](n).Make()
		for i, v := range vals {
			cat.SetValue(i, v)
		}
		view = func() []any {
			var out []any
			for _, a := range cat.AsArray() {
				out = append(out, a.GetValue())
			}
			return out
		}
		sortIt = func() {
			cat.SortValuesWithRanker(func(a, b col.AssociationLike[int, any]) age.Rank {
				return age.Collator[any]().Make().RankValues(a.GetValue(), b.GetValue())
			})
		}
	}
	check := func(stage string) bool {
		got := view()
		keys := make([]int, len(got))
		for i, x := range got {
			keys[i] = key(x)
		}
		if len(got) != len(vals) || !sort.IntsAreSorted(keys) {
			res.Violation = core.Violate("C09/resort/"+c.Via, "%s of %ss, %s: the values stand in the order %v", c.Via, c.Elem, stage, keys)
			return false
		}
		return true
	}
	sortIt()
	if c.Twice {
		sortIt()
	}
	if !check("after SortValues") {
		return
	}
	// every value changes through the caller's own reference: the order turns round
	for i := range c.Codes {
		*cells[i] = -*cells[i]
		lists[i].SetValue(1, -lists[i].GetValue(1))
	}
	sortIt()
	if !check("after the values were changed through the caller's references and the collection was sorted again") {
		return
	}
	distinct := map[int]bool{}
	for _, k := range c.Codes {
		distinct[k] = true
	}
	res.NonTrivial = len(distinct) >= 2
	res.Classes = append(res.Classes, "via-"+c.Via, "elem-"+c.Elem)
	return
}

func genResort(s core.Source) resortCase {
	c := resortCase{Via: core.Pick(s, []string{"List", "Array", "Catalog"}, "via"), Elem: core.Pick(s, []string{"pointer", "list"}, "elem"), Twice: s.Choose(2, "twice") == 1, Codes: []int{}}
	nvals := s.Choose(9, "n")
	distinct := s.Choose(2, "distinct") == 1
	for i := 0; i < nvals; i++ {
		k := 1 + s.Choose(20, "code")
		if distinct {
			k = 1 + (i*7+s.Choose(3, "code"))%23 + i*23 // no two values rank equal
		}
		c.Codes = append(c.Codes, k)
	}
	return c
}

// ---- element objects that are reused

// The members of a set may be collections.  A caller may take such a member out of every set, change it, and put it
// back or ask for it again: the sets and the set operations see what the object holds now.  One scratch object
// goes through several rounds against a family of known members.
type reusedCase struct {
	Elem   string `json:"elem"`   // list set
	Rounds []int  `json:"rounds"` // the content of the scratch object in each round (a bit mask over 1..3, plus 8 = also 7)
	Op     string `json:"op"`
}

func execReused(c reusedCase, _ core.Source) (res core.Result) {
	n := lib.Notation()
	content := func(mask int) []int {
		var out []int
		for b := 0; b < 3; b++ {
			if mask&(1<<b) != 0 {
				out = append(out, b+1)
			}
		}
		if mask&8 != 0 {
			out = append(out, 7)
		}
		return out
	}
	type elem = col.Sequential[int]
	mk := func(vals []int) elem {
		if c.Elem == "list" {
			return col.List[int](n).MakeFromArray(vals)
		}
		return col.Set[int](n).MakeFromArray(vals)
	}
	refill := func(e elem, vals []int) {
		if l, ok := e.(col.ListLike[int]); ok {
			l.RemoveAll()
			l.AppendValues(col.Array[int](n).MakeFromArray(vals))
		} else {
			s := e.(col.SetLike[int])
			s.RemoveAll()
			for _, v := range vals {
				s.AddValue(v)
			}
		}
	}
	S := col.Set[elem](n)
	known := S.Make()
	knownMasks := []int{1, 2, 4, 3}
	for _, m := range knownMasks {
		known.AddValue(mk(content(m)))
	}
	scratch := mk(nil)
	candidates := S.Make()
	for round, mask := range c.Rounds {
		candidates.RemoveAll()
		refill(scratch, content(mask))
		candidates.AddValue(scratch)
		candidates.AddValue(mk([]int{9}))
		inKnown := false
		for _, m := range knownMasks {
			inKnown = inKnown || m == mask
		}
		var got col.SetLike[elem]
		var want int
		switch c.Op {
		case "And":
			got = S.And(candidates, known)
			want = 0
			if inKnown {
				want = 1
			}
		case "Or":
			got = S.Or(candidates, known)
			want = len(knownMasks) + 2
			if inKnown {
				want--
			}
		case "Sans":
			got = S.Sans(candidates, known)
			want = 2
			if inKnown {
				want = 1
			}
		default:
			got = S.Xor(candidates, known)
			want = len(knownMasks) + 2
			if inKnown {
				want -= 2
			}
		}
		show := func(s col.SetLike[elem]) string {
			out := ""
			for _, e := range s.AsArray() {
				out += fmt.Sprint(e.AsArray())
			}
			return out
		}
		if got.GetSize() != want || known.ContainsValue(scratch) != inKnown || !candidates.ContainsValue(scratch) {
			res.Violation = core.Violate("C15/reused-element/"+c.Op, "round %d of %v: a scratch %s now holding %v, in a set next to [9], against the known members [1] [2] [3] [1 2]: %s gave %s (%d members, expected %d); the known family says it contains the scratch object: %v",
				round+1, c.Rounds, c.Elem, content(mask), c.Op, show(got), got.GetSize(), want, known.ContainsValue(scratch))
			return
		}
	}
	res.NonTrivial = len(c.Rounds) >= 2
	res.Classes = append(res.Classes, "op-"+c.Op, "elem-"+c.Elem)
	return
}

func genReused(s core.Source) reusedCase {
	c := reusedCase{Elem: core.Pick(s, []string{"list", "set"}, "elem"), Op: core.Pick(s, algOps, "op"), Rounds: []int{}}
	nr := 1 + s.Choose(3, "rounds")
	for i := 0; i < nr; i++ {
		c.Rounds = append(c.Rounds, []int{1, 2, 3, 9, 5, 0, 4}[s.Choose(7, "content")])
	}
	return c
}

// ---- iterators of separate collections, at the same time

// Every goroutine owns a collection of the same type as all the others and nothing else, takes iterator after
// iterator from it and walks them: each must list exactly what the goroutine's own collection holds.
type separateCase struct {
	Kind    string `json:"kind"`
	Workers int    `json:"workers"`
}

func execSeparateIterators(c separateCase, _ core.Source) (res core.Result) {
	n := lib.Notation()
	problems := make([]string, c.Workers)
	ok, _ := within(60*time.Second, func() {
		done := make(chan struct{}, c.Workers)
		start := make(chan struct{})
		for w := 0; w < c.Workers; w++ {
			w := w
			go func() {
				defer func() {
					if e := recover(); e != nil {
						problems[w] = "panicked: " + lib.Short(e)
					}
					done <- struct{}{}
				}()
				const size = 24
				own := map[int]bool{}
				var walk func() []int
				switch c.Kind {
				case "Map", "Catalog":
					var m assocLike[int, int]
					if c.Kind == "Map" {
						m = col.Map[int, int](n).Make()
					} else {
						m = col.Catalog[int, int](n).Make()
					}
					for k := 0; k < size; k++ {
						m.SetValue(w*1000+k, w*1000+k)
						own[w*1000+k] = true
					}
					walk = func() []int {
						var out []int
						for it := m.GetIterator(); it.HasNext(); {
							a := it.GetNext()
							if a == nil {
								out = append(out, -1)
								continue
							}
							if a.GetKey() != a.GetValue() {
								out = append(out, -2)
							}
							out = append(out, a.GetKey())
						}
						for _, k := range m.GetKeys().AsArray() {
							if !own[k] {
								out = append(out, -3)
							}
						}
						return out
					}
				default:
					vals := make([]int, size)
					for k := range vals {
						vals[k] = w*1000 + k
						own[vals[k]] = true
					}
					var seq col.Sequential[int]
					switch c.Kind {
					case "List":
						seq = col.List[int](n).MakeFromArray(vals)
					case "Array":
						seq = col.Array[int](n).MakeFromArray(vals)
					case "Set":
						seq = col.Set[int](n).MakeFromArray(vals)
					case "Stack":
						seq = col.Stack[int](n).MakeFromArray(vals)
					default:
						seq = col.Queue[int](n).MakeFromArray(vals)
					}
					walk = func() []int {
						var out []int
						it := seq.GetIterator()
						for it.HasNext() {
							out = append(out, it.GetNext())
						}
						it.ToSlot(3)
						if it.GetPrevious() != out[2] {
							out = append(out, -4)
						}
						return out
					}
				}
				<-start
				for round := 0; round < 400 && problems[w] == ""; round++ {
					got := walk()
					if len(got) != size {
						problems[w] = fmt.Sprintf("an iterator listed %d values, the collection holds %d", len(got), size)
					}
					for _, k := range got {
						if !own[k] {
							problems[w] = fmt.Sprintf("an iterator listed %d, which the collection does not hold (negative: no association, key and value apart, a foreign key, a wrong step back)", k)
						}
					}
				}
			}()
		}
		close(start)
		for w := 0; w < c.Workers; w++ {
			<-done
		}
	})
	if !ok {
		res.Violation = core.Violate("C17/separate-collections/hang/"+c.Kind, "%d goroutines walking iterators of their own %ss did not finish within 60 s", c.Workers, c.Kind)
		return
	}
	for w, p := range problems {
		if p != "" {
			res.Violation = core.Violate("C17/separate-collections/"+c.Kind, "%d goroutines, each walking iterators of a %s of its own: goroutine %d: %s", c.Workers, c.Kind, w, p)
			return
		}
	}
	res.NonTrivial = true
	res.Classes = append(res.Classes, "kind-"+c.Kind)
	return
}

// ---- Join over queues that are fed independently

// Join consolidates the results of independent workers: every input has a producer of its own, some fast (held up
// on their full queue), some slow (their queue is empty most of the time).  Join takes one value from each input
// in turn, so the output is the exact round-robin of the inputs, every producer gets rid of all its values and the
// program terminates.
type joinCase struct {
	Inputs int  `json:"inputs"`
	Cap    uint `json:"cap"`
	Values int  `json:"values"`
	Slow   int  `json:"slow"` // index of the slow producer
}

func execJoinIndependent(prop string) func(joinCase, core.Source) core.Result {
	return func(c joinCase, _ core.Source) (res core.Result) {
		n := lib.Notation()
		Q := col.Queue[int](n)
		inputs := col.List[col.QueueLike[int]](n).Make()
		var qs []col.QueueLike[int]
		for i := 0; i < c.Inputs; i++ {
			q := Q.MakeWithCapacity(c.Cap)
			qs = append(qs, q)
			inputs.AppendValue(q)
		}
		var group sync.WaitGroup
		var got []int
		ok, p := within(60*time.Second, func() {
			out := Q.Join(&group, inputs)
			var producers sync.WaitGroup
			for i, q := range qs {
				i, q := i, q
				producers.Add(1)
				go func() {
					defer producers.Done()
					for v := 0; v < c.Values; v++ {
						if i == c.Slow {
							time.Sleep(200 * time.Microsecond)
						}
						q.AddValue(v*10 + i)
					}
					q.CloseQueue()
				}()
			}
			for {
				v, more := out.RemoveHead()
				if !more {
					break
				}
				got = append(got, v)
			}
			producers.Wait()
			group.Wait()
		})
		var want []int
		for v := 0; v < c.Values; v++ {
			for i := 0; i < c.Inputs; i++ {
				want = append(want, v*10+i)
			}
		}
		desc := fmt.Sprintf("Join over %d queues of capacity %d, each fed %d values by a producer of its own (producer %d is slow)", c.Inputs, c.Cap, c.Values, c.Slow)
		switch {
		case !ok:
			res.Violation = core.Violate(prop+"/join-independent/hang", "%s: the program did not terminate within 60 s; the output had delivered %d of %d values", desc, len(got), len(want))
		case p != nil:
			res.Violation = core.Violate(prop+"/join-independent/panicked", "%s: %s", desc, lib.Short(p))
		case !lib.EqInts(got, want):
			res.Violation = core.Violate(prop+"/join-independent/wrong-stream", "%s: the output delivered %v, expected the round-robin %v", desc, got, want)
		}
		res.NonTrivial = true
		return
	}
}

func genJoinIndependent(s core.Source) joinCase {
	c := joinCase{Inputs: 2 + s.Choose(2, "inputs"), Cap: uint(1 + s.Choose(3, "cap")), Values: []int{1, 3, 20}[s.Choose(3, "values")]}
	c.Slow = s.Choose(c.Inputs, "slow")
	return c
}

// ---- thousands of pipelines open at the same time

// A long-lived server keeps one fan-out per topic or connection open.  Every pipeline works, however many there
// are: each gets one value, every output of every pipeline must receive it while all the others are still open.
type manyPipelinesCase struct {
	Fn        string `json:"fn"` // Fork Split Join
	Pipelines int    `json:"pipelines"`
}

func execManyPipelines(c manyPipelinesCase, _ core.Source) (res core.Result) {
	n := lib.Notation()
	Q := col.Queue[int](n)
	var group sync.WaitGroup
	received, expected := 0, 0
	ok, p := within(120*time.Second, func() {
		var inputs []col.QueueLike[int]
		var outputs [][]col.QueueLike[int]
		for k := 0; k < c.Pipelines; k++ {
			in := Q.MakeWithCapacity(2)
			inputs = append(inputs, in)
			switch c.Fn {
			case "Fork":
				outputs = append(outputs, Q.Fork(&group, in, 2).AsArray())
			case "Split":
				outputs = append(outputs, Q.Split(&group, in, 2).AsArray())
			default:
				second := Q.MakeWithCapacity(2)
				inputs = append(inputs, second)
				outputs = append(outputs, []col.QueueLike[int]{Q.Join(&group, col.List[col.QueueLike[int]](n).MakeFromArray([]col.QueueLike[int]{in, second}))})
			}
		}
		for k, in := range inputs {
			in.AddValue(k)
			if c.Fn == "Split" {
				in.AddValue(k)
			}
		}
		// every output gets its value while every pipeline is still open
		type result struct{ ok bool }
		results := make(chan result, 4*c.Pipelines)
		for _, outs := range outputs {
			for _, out := range outs {
				per := 1
				if c.Fn == "Join" {
					per = 2
				}
				for i := 0; i < per; i++ {
					expected++
					out := out
					go func() {
						_, more := out.RemoveHead()
						results <- result{more}
					}()
				}
			}
		}
		timeout := time.After(60 * time.Second)
	collect:
		for received < expected {
			select {
			case r := <-results:
				if r.ok {
					received++
				}
			case <-timeout:
				break collect
			}
		}
		for _, in := range inputs {
			in.CloseQueue()
		}
		if received == expected {
			group.Wait()
		}
	})
	desc := fmt.Sprintf("%d %s pipelines open at the same time, one value each", c.Pipelines, c.Fn)
	switch {
	case p != nil:
		res.Violation = core.Violate("C06/many-pipelines/panicked", "%s: %s", desc, lib.Short(p))
	case !ok || received != expected:
		res.Violation = core.Violate("C06/many-pipelines/starved/"+c.Fn, "%s: only %d of the %d expected deliveries arrived while all pipelines were open", desc, received, expected)
	}
	res.NonTrivial = true
	res.Classes = append(res.Classes, "fn-"+c.Fn)
	return
}

// C06: what no schedule of one small pipeline shows
func TestC06Usage(t *testing.T) {
	r := core.Begin(t, "C06")
	defer r.End()
	core.DFS(r, core.Check[joinCase]{Name: "join-of-independent-producers", Gen: genJoinIndependent, Exec: execJoinIndependent("C06"), HangLimit: 120 * time.Second}, 0)
	core.DFS(r, core.Check[manyPipelinesCase]{Name: "many-open-pipelines", Gen: func(s core.Source) manyPipelinesCase {
		return manyPipelinesCase{Fn: core.Pick(s, []string{"Fork", "Split", "Join"}, "fn"), Pipelines: []int{300, 5000}[s.Choose(2, "pipelines")]}
	}, Exec: execManyPipelines, HangLimit: 300 * time.Second}, 0)
}

// ---- a key sequence that is in use

// The keys handed to RemoveValues, GetValues or Extract may come as a queue that another goroutine is consuming
// (an eviction queue with a second consumer).  Whichever keys the call still sees, it acts on those keys only:
// an association nobody asked for -- in particular the one under the zero key -- stays, and the result has one
// value per key that was seen.
type keysInUseCase struct {
	Fn     string `json:"fn"` // Catalog.RemoveValues Catalog.GetValues Map.RemoveValues Map.GetValues Catalog.Extract
	Rounds int    `json:"rounds"`
}

func execKeysInUse(prop string) func(keysInUseCase, core.Source) core.Result {
	return func(c keysInUseCase, _ core.Source) (res core.Result) {
		n := lib.Notation()
		for round := 0; round < c.Rounds && res.Violation == nil; round++ {
			var m assocLike[int, int]
			cat := col.Catalog[int, int](n).Make()
			if strings.HasPrefix(c.Fn, "Map") {
				m = col.Map[int, int](n).Make()
			} else {
				m = cat
			}
			for k := 0; k < 10; k++ {
				m.SetValue(k, 100+k)
			}
			queue := col.Queue[int](n).MakeWithCapacity(16)
			for k := 2; k < 10; k++ {
				queue.AddValue(k)
			}
			var got []int
			var extracted col.CatalogLike[int, int]
			start := make(chan struct{})
			var wg sync.WaitGroup
			wg.Add(2)
			var panicked any
			go func() {
				defer wg.Done()
				defer func() { panicked = recover() }()
				<-start
				switch c.Fn {
				case "Catalog.RemoveValues", "Map.RemoveValues":
					got = m.RemoveValues(queue).AsArray()
				case "Catalog.GetValues", "Map.GetValues":
					got = m.GetValues(queue).AsArray()
				default:
					extracted = col.Catalog[int, int](n).Extract(cat, queue)
				}
			}()
			go func() {
				defer wg.Done()
				<-start
				for i := 0; i < 1+round%3; i++ {
					queue.RemoveHead()
				}
			}()
			close(start)
			wg.Wait()
			desc := fmt.Sprintf("%s with the keys 2..9 in a queue that a second goroutine takes heads from (round %d)", c.Fn, round+1)
			if panicked != nil {
				res.Violation = core.Violate(prop+"/keys-in-use/panicked", "%s: %s", desc, lib.Short(panicked))
				return
			}
			if m.GetValue(0) != 100 || m.GetValue(1) != 101 {
				res.Violation = core.Violate(prop+"/keys-in-use/touched-another-key", "%s: the associations under the keys 0 and 1, which nobody asked for, now read %d and %d", desc, m.GetValue(0), m.GetValue(1))
				return
			}
			for _, v := range got {
				if v < 102 || v > 109 {
					res.Violation = core.Violate(prop+"/keys-in-use/foreign-value", "%s: the result lists %v; only values under the keys 2..9 can be in it", desc, got)
					return
				}
			}
			if extracted != nil {
				for _, k := range extracted.GetKeys().AsArray() {
					if k < 2 || k > 9 || extracted.GetValue(k) != 100+k {
						res.Violation = core.Violate(prop+"/keys-in-use/foreign-association", "%s: the result holds %d: %d", desc, k, extracted.GetValue(k))
						return
					}
				}
			}
		}
		res.NonTrivial = true
		res.Classes = append(res.Classes, "fn-"+c.Fn)
		return
	}
}
