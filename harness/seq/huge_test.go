package seq

import (
	"fmt"
	"sort"

	age "github.com/craterdog/go-collection-framework/v4/agent"
	col "github.com/craterdog/go-collection-framework/v4/collection"
	"verifharness/core"
	"verifharness/lib"
)

// ---------------------------------------------------------------- tens of thousands of values

// Code that does something else for really big inputs -- sorts blocks in parallel, probes a set a bounded number of
// times, reserves room up to a limit -- is reached only by really big inputs.  One fixed script per kind on sizes
// on both sides of 2^14, 2^15 and 2^16 (sizes that are not multiples of eight, with the extreme values at the
// very end), every result compared with a model.  Sizes whose set-up alone is quadratic in the library (a Set
// or a List of 66 000 values) are left to the thorough tier.
type hugeCase struct {
	Kind string `json:"kind"`
	N    int    `json:"n"`
}

func hugeValues(n int) []int {
	out := make([]int, n)
	for i := range out {
		out[i] = int(core.Mix(uint64(i)*2654435761+7) % uint64(4*n))
	}
	// the smallest values stand at the very end, in descending order
	for k := 0; k < 7 && k < n; k++ {
		out[n-1-k] = -7 + k
	}
	return out
}

func execHuge(prop string) func(hugeCase, core.Source) core.Result {
	return func(c hugeCase, _ core.Source) (res core.Result) {
		n := lib.Notation()
		fail := func(format string, args ...any) {
			if res.Violation == nil {
				res.Violation = core.Violate(prop+"/huge/"+c.Kind, "%s with %d values: %s", c.Kind, c.N, fmt.Sprintf(format, args...))
			}
		}
		vals := hugeValues(c.N)
		sorted := append([]int{}, vals...)
		sort.Ints(sorted)
		firstBad := func(got, want []int) string {
			if len(got) != len(want) {
				return fmt.Sprintf("%d values instead of %d", len(got), len(want))
			}
			for i := range got {
				if got[i] != want[i] {
					return fmt.Sprintf("value %d at index %d instead of %d", got[i], i, want[i])
				}
			}
			return ""
		}
		if p, payload := lib.Call(func() {
			switch c.Kind {
			case "Sorter":
				work := append([]int{}, vals...)
				age.Sorter[int]().Make().SortValues(work)
				if d := firstBad(work, sorted); d != "" {
					fail("SortValues with the default ranker: %s", d)
				}
				work = append([]int{}, vals...)
				age.Sorter[int]().MakeWithRanker(func(a, b int) age.Rank { return rankOfInts(b, a) }).SortValues(work)
				for i := range work {
					if work[i] != sorted[len(sorted)-1-i] {
						fail("SortValues with a reversed ranker: value %d at index %d instead of %d", work[i], i, sorted[len(sorted)-1-i])
						break
					}
				}
			case "Array":
				a := col.Array[int](n).MakeFromArray(vals)
				if d := firstBad(a.AsArray(), vals); d != "" {
					fail("MakeFromArray: %s", d)
				}
				a.SortValues()
				if d := firstBad(a.AsArray(), sorted); d != "" {
					fail("SortValues: %s", d)
				}
				b := col.Array[int](n).MakeFromSequence(a)
				b.ReverseValues()
				if b.GetValue(1) != sorted[len(sorted)-1] || b.GetValue(-1) != sorted[0] || a.GetValue(1) != sorted[0] {
					fail("MakeFromSequence and ReverseValues: the copy starts with %d and ends with %d", b.GetValue(1), b.GetValue(-1))
				}
			case "List":
				l := col.List[int](n).MakeFromArray(vals)
				l.SortValuesWithRanker(func(a, b int) age.Rank { return rankOfInts(a, b) })
				if d := firstBad(l.AsArray(), sorted); d != "" {
					fail("SortValuesWithRanker: %s", d)
				}
				if l.GetIndex(sorted[len(sorted)-1]) == 0 || !l.ContainsAll(col.List[int](n).MakeFromArray([]int{sorted[0], sorted[len(sorted)-1]})) {
					fail("the largest value is not found")
				}
				if got := l.GetValues(len(sorted)-2, -1).AsArray(); len(got) != 3 || got[2] != sorted[len(sorted)-1] {
					fail("GetValues(last three) = %v", got)
				}
			case "Map":
				A := col.Association[int, int](n)
				assocs := make([]col.AssociationLike[int, int], c.N)
				model := map[int]int{}
				for i, v := range vals {
					assocs[i] = A.Make(v, i)
					model[v] = i
				}
				check := func(how string, m col.MapLike[int, int]) {
					if m.GetSize() != len(model) || len(m.AsArray()) != len(model) || m.GetKeys().GetSize() != len(model) {
						fail("%s: %d associations (array view %d), expected %d", how, m.GetSize(), len(m.AsArray()), len(model))
						return
					}
					for _, k := range []int{vals[0], vals[c.N/2], vals[c.N-1], vals[c.N-8], -7} {
						if m.GetValue(k) != model[k] {
							fail("%s: GetValue(%d) = %d, expected %d", how, k, m.GetValue(k), model[k])
						}
					}
				}
				check("MakeFromArray", col.Map[int, int](n).MakeFromArray(assocs))
				check("MakeFromSequence(Array)", col.Map[int, int](n).MakeFromSequence(col.Array[col.AssociationLike[int, int]](n).MakeFromArray(assocs)))
				m := col.Map[int, int](n).MakeFromMap(model)
				check("MakeFromMap", m)
				check("MakeFromSequence(Map)", col.Map[int, int](n).MakeFromSequence(m))
			case "Set":
				S := col.Set[int](n)
				a := S.MakeFromArray(sorted) // ascending: every value is appended
				distinct := []int{}
				for i, v := range sorted {
					if i == 0 || v != sorted[i-1] {
						distinct = append(distinct, v)
					}
				}
				if d := firstBad(a.AsArray(), distinct); d != "" {
					fail("MakeFromArray: %s", d)
					return
				}
				for _, i := range []int{0, 1, len(distinct) / 2, len(distinct) - 2, len(distinct) - 1} {
					if !a.ContainsValue(distinct[i]) || a.GetIndex(distinct[i]) != i+1 {
						fail("member %d at index %d: ContainsValue = %v, GetIndex = %d", distinct[i], i+1, a.ContainsValue(distinct[i]), a.GetIndex(distinct[i]))
					}
				}
				top := S.MakeFromArray(append([]int{1 << 40}, distinct[len(distinct)-9:]...))
				and := S.And(a, top)
				if d := firstBad(and.AsArray(), distinct[len(distinct)-9:]); d != "" {
					fail("And(all, the nine largest and a stranger): %s", d)
				}
				if self := S.And(a, a); self.GetSize() != len(distinct) {
					fail("And(a, a) has %d members, expected %d", self.GetSize(), len(distinct))
				}
				if sans := S.Sans(a, top); sans.GetSize() != len(distinct)-9 || sans.ContainsValue(distinct[len(distinct)-1]) {
					fail("Sans(all, the nine largest) has %d members", sans.GetSize())
				}
				if xor := S.Xor(a, top); xor.GetSize() != len(distinct)-9+1 {
					fail("Xor(all, the nine largest and a stranger) has %d members, expected %d", xor.GetSize(), len(distinct)-8)
				}
				if or := S.Or(top, a); or.GetSize() != len(distinct)+1 {
					fail("Or has %d members, expected %d", or.GetSize(), len(distinct)+1)
				}
				a.AddValue(distinct[0])
				a.AddValue(distinct[len(distinct)-1])
				a.RemoveValue(distinct[1])
				if a.GetSize() != len(distinct)-1 || a.ContainsValue(distinct[1]) {
					fail("after adding two members again and removing one the set has %d members, expected %d", a.GetSize(), len(distinct)-1)
				}
			}
		}); p {
			fail("panicked: %s", lib.Short(payload))
		}
		res.NonTrivial = true
		res.Classes = append(res.Classes, "kind-"+c.Kind)
		return
	}
}

func genHuge(kinds []string, sizes []int) func(core.Source) hugeCase {
	return func(s core.Source) hugeCase {
		return hugeCase{Kind: core.Pick(s, kinds, "kind"), N: sizes[s.Choose(len(sizes), "n")]}
	}
}

var hugeSizes = []int{16383, 16389, 20003, 32771, 65541, 70001}
