package seq

import (
	"fmt"
	"testing"
	"time"

	age "github.com/craterdog/go-collection-framework/v4/agent"
	col "github.com/craterdog/go-collection-framework/v4/collection"
	"verifharness/core"
	"verifharness/lib"
)

// ---------------------------------------------------------------- C15: set algebra

type algCase struct {
	Elem     string `json:"elem"`
	Collator string `json:"collator"`
	Op       string `json:"op"`
	A        []int  `json:"a"`
	B        []int  `json:"b"`
	Alias    bool   `json:"alias,omitempty"`      // pass A for both operands
	CollB    string `json:"collator_b,omitempty"` // ordering of the second operand when it differs (same equivalence)
	Probe    int    `json:"probe"`                // value used for the independence mutation
	Hist     int    `json:"hist,omitempty"`       // how the operands got their content: 0 added to a fresh set; 1 one member was another value while the set was looked at; 2 the set held other values, was looked at, emptied and refilled
}

func subsetCodes(mask, n int) []int {
	out := []int{}
	for b := 0; b < n; b++ {
		if mask&(1<<b) != 0 {
			out = append(out, b)
		}
	}
	return out
}

// collatorFor builds the named collator for an element type together with the
// reference equivalence/order on codes.
func collatorFor[E any](se setElem[E], name string) (age.CollatorLike[E], func(a, b int) (int, bool)) {
	natural := func(a, b int) (int, bool) {
		if se.less == nil {
			if se.classOf(a) == se.classOf(b) {
				return 0, true
			}
			return 0, false
		}
		va, vb := se.val(a), se.val(b)
		switch {
		case se.less(va, vb):
			return -1, true
		case se.less(vb, va):
			return 1, true
		}
		return 0, true
	}
	switch name {
	case "tight":
		return age.Collator[E]().MakeWithMaximum(tightMaximum(se.name)), natural
	case "reversed":
		ref := func(a, b int) (int, bool) { r, ok := natural(a, b); return -r, ok }
		if se.less != nil {
			return &fnCollator[E]{func(a, b E) age.Rank {
				switch {
				case se.less(a, b):
					return age.GreaterRank
				case se.less(b, a):
					return age.LesserRank
				}
				return age.EqualRank
			}}, ref
		}
		inner := age.Collator[E]().Make()
		return &fnCollator[E]{func(a, b E) age.Rank { return mirror(inner.RankValues(a, b)) }}, ref
	case "coarse":
		return &fnCollator[E]{func(a, b E) age.Rank { return rankOfInts(se.coarse(a), se.coarse(b)) }}, func(a, b int) (int, bool) {
			ka, kb := se.coarse(se.val(a)), se.coarse(se.val(b))
			switch {
			case ka < kb:
				return -1, true
			case ka > kb:
				return 1, true
			}
			return 0, true
		}
	}
	return nil, natural // default: the class's own collator
}

func execAlgCase(c algCase, _ core.Source) core.Result {
	switch c.Elem {
	case "int":
		return execAlg(c, seInt)
	case "string":
		return execAlg(c, seString)
	case "float":
		return execAlg(c, seFloat)
	case "ints":
		return execAlg(c, seInts)
	case "any":
		return execAlg(c, seAny)
	case "any-hard":
		return execAlg(c, seAnyHard)
	case "record":
		return execAlg(c, seRecord)
	default:
		return execAlg(c, seSet)
	}
}

func execAlg[E any](c algCase, se setElem[E]) (res core.Result) {
	n := lib.Notation()
	S := col.Set[E](n)
	collator, refCmp := collatorFor(se, c.Collator)
	equiv := func(a, b int) bool { r, ok := refCmp(a, b); return ok && r == 0 }
	collatorB := collator
	if c.CollB != "" {
		collatorB, _ = collatorFor(se, c.CollB)
	}
	build := func(codes []int, collator age.CollatorLike[E]) col.SetLike[E] {
		var s col.SetLike[E]
		if collator == nil {
			s = S.Make()
		} else {
			s = S.MakeWithCollator(collator)
		}
		for _, k := range codes {
			s.AddValue(se.val(k % se.ncodes))
		}
		return s
	}
	norm := func(codes []int) []int { // distinct classes, first representative
		out := []int{}
	outer:
		for _, k := range codes {
			k %= se.ncodes
			for _, x := range out {
				if equiv(x, k) {
					continue outer
				}
			}
			out = append(out, k)
		}
		return out
	}
	a, b := norm(c.A), norm(c.B)
	if c.Alias {
		b = a
	}
	// operands with a past: the set is looked at through every observer while it holds other values of the
	// same number, then brought to its content without being looked at at any other size
	plain := build
	observe := func(s col.SetLike[E]) {
		for it := s.GetIterator(); it.HasNext(); {
			it.GetNext()
		}
		_, _, _ = s.AsArray(), s.GetSize(), s.IsEmpty()
		if s.GetSize() > 0 {
			_ = s.GetValue(1)
			_ = s.GetIndex(s.GetValue(-1))
		}
		_ = S.Or(s, s)
	}
	withPast := false
	build = func(codes []int, collator age.CollatorLike[E]) col.SetLike[E] {
		target := norm(codes)
		var decoys []int
		for k := 0; k < se.ncodes && len(decoys) < len(target); k++ {
			free := true
			for _, x := range append(append([]int{}, target...), decoys...) {
				if equiv(x, k) {
					free = false
				}
			}
			if _, comparable := refCmp(k, k); free && comparable {
				decoys = append(decoys, k)
			}
		}
		if c.Hist == 0 || len(target) == 0 || len(decoys) < len(target) {
			return plain(codes, collator)
		}
		withPast = true
		if c.Hist == 1 {
			s := plain(append([]int{decoys[0]}, target[1:]...), collator)
			observe(s)
			s.RemoveValue(se.val(decoys[0]))
			s.AddValue(se.val(target[0]))
			return s
		}
		s := plain(decoys, collator)
		observe(s)
		s.RemoveAll()
		for _, k := range target {
			s.AddValue(se.val(k))
		}
		return s
	}
	in := func(k int, set []int) bool {
		for _, x := range set {
			if equiv(x, k) {
				return true
			}
		}
		return false
	}
	var want []int
	switch c.Op {
	case "And":
		for _, k := range a {
			if in(k, b) {
				want = append(want, k)
			}
		}
	case "Or":
		want = append(want, a...)
		for _, k := range b {
			if !in(k, a) {
				want = append(want, k)
			}
		}
	case "Sans":
		for _, k := range a {
			if !in(k, b) {
				want = append(want, k)
			}
		}
	case "Xor":
		for _, k := range a {
			if !in(k, b) {
				want = append(want, k)
			}
		}
		for _, k := range b {
			if !in(k, a) {
				want = append(want, k)
			}
		}
	}
	A := build(c.A, collator)
	B := A
	if !c.Alias {
		B = build(c.B, collatorB)
	}
	beforeA, beforeB := A.AsArray(), B.AsArray()
	var R col.SetLike[E]
	p, payload := lib.Call(func() {
		switch c.Op {
		case "And":
			R = S.And(A, B)
		case "Or":
			R = S.Or(A, B)
		case "Sans":
			R = S.Sans(A, B)
		case "Xor":
			R = S.Xor(A, B)
		}
	})
	desc := fmt.Sprintf("%s(%v, %v)", c.Op, beforeA, beforeB)
	if p {
		res.Violation = core.Violate("C15/"+c.Op+"/panicked", "%s panicked: %s", desc, lib.Short(payload))
		return res
	}
	if R == nil {
		res.Violation = core.Violate("C15/"+c.Op+"/nil", "%s returned nil", desc)
		return res
	}
	if any(R) == any(A) || any(R) == any(B) {
		res.Violation = core.Violate("C15/"+c.Op+"/not-new", "%s returned one of its operands, not a new set", desc)
		return res
	}
	codeOf := func(v E) int {
		for k := 0; k < se.ncodes; k++ {
			if se.same(se.val(k), v) {
				return k
			}
		}
		return -1
	}
	got := R.AsArray()
	// membership: exactly the expected classes, each once
	if len(got) != len(want) || R.GetSize() != len(want) {
		res.Violation = core.Violate("C15/"+c.Op+"/membership", "%s = %v, expected the %d members %v", desc, got, len(want), codesToVals(se, want))
		return res
	}
	used := make([]bool, len(want))
	for _, g := range got {
		k := codeOf(g)
		hit := false
		for i, w := range want {
			if !used[i] && k >= 0 && equiv(w, k) {
				used[i], hit = true, true
				break
			}
		}
		if !hit {
			res.Violation = core.Violate("C15/"+c.Op+"/membership", "%s = %v, expected %v (member %v is foreign or repeated)", desc, got, codesToVals(se, want), g)
			return res
		}
	}
	// order: strictly ascending
	own := R.GetCollator()
	for i := 0; i+1 < len(got); i++ {
		ok := own != nil && own.RankValues(got[i], got[i+1]) == age.LesserRank
		if r, def := refCmp(codeOf(got[i]), codeOf(got[i+1])); def && r >= 0 {
			ok = false
		}
		if !ok {
			res.Violation = core.Violate("C15/"+c.Op+"/order", "%s = %v is not strictly ascending at position %d", desc, got, i+1)
			return res
		}
	}
	sameArr := func(x, y []E) bool {
		if len(x) != len(y) {
			return false
		}
		for i := range x {
			if !se.same(x[i], y[i]) {
				return false
			}
		}
		return true
	}
	if !sameArr(A.AsArray(), beforeA) || !sameArr(B.AsArray(), beforeB) {
		res.Violation = core.Violate("C15/"+c.Op+"/operand-changed", "%s changed an operand: first now %v, second now %v", desc, A.AsArray(), B.AsArray())
		return res
	}
	// independence: change the result, operands must not move; change an operand, the result must not move
	if withPast {
		res.Classes = append(res.Classes, fmt.Sprintf("operands-with-a-past-%d", c.Hist))
	}
	probe := se.val(c.Probe % se.ncodes)
	// how the two sides are changed varies with the case: single values, everything at once, in bulk
	mut := (len(a)*3 + len(b) + c.Probe) % 4
	for _, k := range a {
		mut = (mut + k) % 4
	}
	res.Classes = append(res.Classes, fmt.Sprintf("mutation-%d", mut))
	switch mut {
	case 1:
		R.RemoveAll()
	case 3:
		R.AddValues(col.List[E](lib.Notation()).MakeFromArray([]E{probe}))
		if len(got) > 0 {
			R.RemoveValues(col.List[E](lib.Notation()).MakeFromArray(got[:1]))
		}
	default:
		R.AddValue(probe)
		if len(got) > 0 {
			R.RemoveValue(got[0])
		}
	}
	if !sameArr(A.AsArray(), beforeA) || !sameArr(B.AsArray(), beforeB) {
		res.Violation = core.Violate("C15/"+c.Op+"/result-aliases-operand", "changing the result of %s changed an operand: first now %v, second now %v", desc, A.AsArray(), B.AsArray())
		return res
	}
	afterR := R.AsArray()
	if mut == 2 {
		A.RemoveAll()
	} else {
		A.AddValue(probe)
		if len(beforeA) > 0 {
			A.RemoveValue(beforeA[len(beforeA)-1])
		}
	}
	if !c.Alias {
		B.RemoveAll()
	}
	if !sameArr(R.AsArray(), afterR) {
		res.Violation = core.Violate("C15/"+c.Op+"/operand-aliases-result", "changing an operand of %s changed the result: was %v, now %v", desc, afterR, R.AsArray())
		return res
	}
	// classes
	inter := 0
	for _, k := range a {
		if in(k, b) {
			inter++
		}
	}
	switch {
	case c.Alias:
		res.Classes = append(res.Classes, "aliased")
	case len(a) == 0 || len(b) == 0:
		res.Classes = append(res.Classes, "empty-operand")
	case inter == 0:
		res.Classes = append(res.Classes, "disjoint")
	case inter == len(a) && inter == len(b):
		res.Classes = append(res.Classes, "equal")
	case inter == len(a) || inter == len(b):
		res.Classes = append(res.Classes, "nested")
	default:
		res.Classes = append(res.Classes, "overlapping")
	}
	res.NonTrivial = !c.Alias && len(a) > 0 && len(b) > 0 && inter > 0 && !(inter == len(a) && inter == len(b))
	res.Classes = append(res.Classes, "op-"+c.Op, "elem-"+c.Elem, "collator-"+c.Collator)
	if c.CollB != "" {
		res.Classes = append(res.Classes, "operands-ordered-differently")
	}
	return res
}

func codesToVals[E any](se setElem[E], codes []int) []E {
	out := make([]E, len(codes))
	for i, k := range codes {
		out[i] = se.val(k)
	}
	return out
}

var algOps = []string{"And", "Or", "Sans", "Xor"}

func genAlgExhaustive(universe int) func(core.Source) algCase {
	return func(s core.Source) algCase {
		c := algCase{Elem: core.Pick(s, []string{"int", "string", "float", "any-hard", "record"}, "elem"), Collator: "default"}
		c.Op = core.Pick(s, algOps, "op")
		ma := s.Choose(1<<universe, "A")
		mb := s.Choose((1<<universe)+1, "B") // the extra value = alias (A, A)
		c.A = subsetCodes(ma, universe)
		if mb == 1<<universe {
			c.Alias = true
			c.B = c.A
		} else {
			c.B = subsetCodes(mb, universe)
		}
		c.Probe = universe // a value outside the universe
		c.Hist = s.Choose(3, "hist")
		return c
	}
}

func genAlgRandom(s core.Source) algCase {
	c := algCase{Elem: core.Pick(s, []string{"int", "string", "float", "ints", "any", "any-hard", "set", "record"}, "elem")}
	c.Collator = core.Pick(s, []string{"default", "reversed", "coarse"}, "collator")
	if (c.Elem == "any" || c.Elem == "any-hard" || c.Elem == "set") && c.Collator == "coarse" {
		c.Collator = "reversed"
	}
	if c.Elem != "any" && c.Elem != "any-hard" && s.Choose(6, "tight") == 0 {
		c.Collator = "tight"
	}
	c.Op = core.Pick(s, algOps, "op")
	dom := 64
	if s.Choose(2, "domain") == 0 {
		dom = 10
	}
	gen := func(label string) []int {
		n := s.Choose(12, label+"n")
		out := []int{}
		for i := 0; i < n; i++ {
			out = append(out, s.Choose(dom, label))
		}
		return out
	}
	c.A = gen("a")
	switch s.Choose(6, "relation") {
	case 0:
		c.Alias = true
		c.B = c.A
	case 1: // equal content, different object
		c.B = append([]int{}, c.A...)
	case 2: // nested
		c.B = append([]int{}, c.A[:len(c.A)/2]...)
	default:
		c.B = gen("b")
	}
	c.Probe = s.Choose(dom, "probe")
	c.Hist = s.Choose(3, "hist")
	// the second operand may be ordered differently, as long as it agrees on which values are equal
	if !c.Alias && c.Collator != "coarse" && s.Choose(3, "collator-b") == 0 {
		c.CollB = "reversed"
		if c.Collator == "reversed" {
			c.CollB = "default"
		}
	}
	return c
}

func TestC15(t *testing.T) {
	r := core.Begin(t, "C15")
	defer r.End()
	core.DFS(r, core.Check[algCase]{Name: "all-subset-pairs", Gen: genAlgExhaustive(r.N(6, 7)), Exec: execAlgCase, NoJournal: true}, 0)
	core.Rapid(r, core.Check[algCase]{Name: "random-pairs", Gen: genAlgRandom, Exec: execAlgCase}, r.N(1500, 10000))
	core.DFS(r, core.Check[reusedCase]{Name: "reused-element-objects", Gen: genReused, Exec: execReused, NoJournal: true}, 0)
	core.DFS(r, core.Check[hugeCase]{Name: "huge-sizes", Gen: genHuge([]string{"Set"}, r.Ns([]int{16389, 20003}, []int{16389, 20003, 80000})), Exec: execHuge("C15"), NoJournal: true, HangLimit: 900 * time.Second}, 0)
}
