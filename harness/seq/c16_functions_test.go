package seq

import (
	"fmt"
	"testing"
	"time"

	age "github.com/craterdog/go-collection-framework/v4/agent"
	col "github.com/craterdog/go-collection-framework/v4/collection"
	"verifharness/core"
	"verifharness/lib"
)

// ---------------------------------------------------------------- C16: Merge, Extract, Concatenate

type fnCase struct {
	Fn    string `json:"fn"` // Concatenate Merge Extract
	A     []int  `json:"a"`  // list values, or catalog keys in order
	B     []int  `json:"b"`  // list values, catalog keys, or requested keys (Extract)
	Alias bool   `json:"alias,omitempty"`
	Zero  bool   `json:"zero,omitempty"` // Extract: the catalog stores the zero value under its first key; Merge: under every other key
	Elem  string `json:"elem,omitempty"` // Concatenate: element type (codec)
	Hist  int    `json:"hist,omitempty"` // how the operands got their content (see catalogWithPast, listWithPast)
	Keys  string `json:"keys,omitempty"` // Extract: the kind of the key sequence: List (default) Array Set Stack Queue
}

// catalogWithPast fills a catalog through a history: 0 = set the pairs on a fresh catalog; 1 = two other keys
// come first, every observer is used, the two keys are removed again; 2 = the catalog holds other keys, every
// observer is used, RemoveAll, then the pairs are set; 3 = the pairs are set in the opposite order, every
// observer is used, ReverseValues; 4 and 5: see below.  The content is the same in all cases.
type valueSetter interface{ SetValue(k, v int) }

func catalogWithPast(hist int, n int, fill func(cat valueSetter)) col.CatalogLike[int, int] {
	C := col.Catalog[int, int](lib.Notation())
	cat := C.Make()
	observe := func() {
		keys := cat.GetKeys()
		_ = cat.GetValues(keys)
		_, _, _ = cat.AsArray(), cat.GetSize(), cat.IsEmpty()
		for it := cat.GetIterator(); it.HasNext(); {
			it.GetNext()
		}
		_ = C.Extract(cat, keys)
		_ = C.Merge(cat, cat)
	}
	switch hist {
	case 1:
		cat.SetValue(90, 9)
		cat.SetValue(91, 9)
		fill(cat)
		observe()
		cat.RemoveValue(91)
		cat.RemoveValue(90)
	case 2:
		for i := 0; i < max(n, 2); i++ {
			cat.SetValue(80+i, 8)
		}
		observe()
		cat.RemoveAll()
		fill(cat)
	case 3:
		// the pairs are set in the opposite order, every observer is used, then the catalog is reversed
		var order []int
		fill(recorder{cat, &order})
		cat.RemoveAll()
		values := map[int]int{}
		fill(collector(values))
		for i := len(order) - 1; i >= 0; i-- {
			cat.SetValue(order[i], values[order[i]])
		}
		observe()
		cat.ReverseValues()
	case 5:
		// the pairs are set in the opposite order, another key is set last of all, every observer is used, the
		// catalog is reversed (the newest key now comes first) and the newest key is removed
		var order []int
		fill(recorder{cat, &order})
		cat.RemoveAll()
		values := map[int]int{}
		fill(collector(values))
		for i := len(order) - 1; i >= 0; i-- {
			cat.SetValue(order[i], values[order[i]])
		}
		cat.SetValue(92, 9)
		observe()
		cat.ReverseValues()
		cat.RemoveValue(92)
	case 4:
		// the pairs are set in the opposite order, every observer is used, then the catalog is sorted into
		// the intended order with a ranker of the caller's own
		var order []int
		fill(recorder{cat, &order})
		cat.RemoveAll()
		values := map[int]int{}
		fill(collector(values))
		position := map[int]int{}
		for i, k := range order {
			if _, seen := position[k]; !seen {
				position[k] = i
			}
		}
		for i := len(order) - 1; i >= 0; i-- {
			cat.SetValue(order[i], values[order[i]])
		}
		observe()
		cat.SortValuesWithRanker(func(a, b col.AssociationLike[int, int]) age.Rank {
			return rankOfInts(position[a.GetKey()], position[b.GetKey()])
		})
	default:
		fill(cat)
	}
	return cat
}

// listWithPast makes a list of the given codes through a history: 0 = made from the Go array; 1 = made in the
// opposite order, walked (iterator, array view, a Concatenate call), then reversed; 2 = other values first,
// walked, RemoveAll, the values appended; 3 = made in the opposite order, walked, then sorted into the
// intended order with a ranker of the caller's own (when the codes are monotone; otherwise as 1);
// 4 = the same with the default ranker (ints in ascending order only; otherwise as 1).
func listWithPast[E any](cd lib.Codec[E], codes []int, hist int) col.ListLike[E] {
	L := col.List[E](lib.Notation())
	walk := func(l col.ListLike[E]) {
		for it := l.GetIterator(); it.HasNext(); {
			it.GetNext()
		}
		_, _ = l.AsArray(), l.GetSize()
		_ = L.Concatenate(l, l)
	}
	reversed := make([]int, len(codes))
	for i, k := range codes {
		reversed[len(codes)-1-i] = k
	}
	asc, desc := true, true
	for i := 0; i+1 < len(codes); i++ {
		asc = asc && codes[i] <= codes[i+1]
		desc = desc && codes[i] >= codes[i+1]
	}
	if (hist == 3 && !asc && !desc) || (hist == 4 && !(asc && cd.Name == "int")) {
		hist = 1
	}
	switch hist {
	case 1:
		l := L.MakeFromArray(encAll(cd, reversed))
		walk(l)
		l.ReverseValues()
		return l
	case 2:
		l := L.MakeFromArray(encAll(cd, []int{61, 62, 63}))
		walk(l)
		l.RemoveAll()
		l.AppendValues(col.Array[E](lib.Notation()).MakeFromArray(encAll(cd, codes)))
		return l
	case 3:
		l := L.MakeFromArray(encAll(cd, reversed))
		walk(l)
		l.SortValuesWithRanker(func(a, b E) age.Rank {
			if asc {
				return rankOfInts(cd.Dec(a), cd.Dec(b))
			}
			return rankOfInts(cd.Dec(b), cd.Dec(a))
		})
		return l
	case 4:
		l := L.MakeFromArray(encAll(cd, reversed))
		walk(l)
		l.SortValues()
		return l
	}
	return L.MakeFromArray(encAll(cd, codes))
}

// recorder notes the order in which keys are set; collector only remembers the values
type recorder struct {
	col.CatalogLike[int, int]
	order *[]int
}

func (r recorder) SetValue(k, v int) {
	*r.order = append(*r.order, k)
	r.CatalogLike.SetValue(k, v)
}

type collector map[int]int

func (c collector) SetValue(k, v int) { c[k] = v }

func pairsString(ps []kv) string {
	s := "["
	for i, p := range ps {
		if i > 0 {
			s += " "
		}
		s += fmt.Sprintf("k%d:%d", p.K, p.V)
	}
	return s + "]"
}

func catalogPairs(c col.CatalogLike[int, int]) []kv {
	out := []kv{}
	for _, a := range c.AsArray() {
		out = append(out, kv{a.GetKey(), a.GetValue()})
	}
	return out
}

func eqPairs(a, b []kv) bool {
	if len(a) != len(b) {
		return false
	}
	for i := range a {
		if a[i] != b[i] {
			return false
		}
	}
	return true
}

// coherent checks that the catalog's views agree with each other (its index and list did not diverge)
func coherent(c col.CatalogLike[int, int], universe int) bool {
	pairs := catalogPairs(c)
	if c.GetSize() != len(pairs) || c.GetKeys().GetSize() != len(pairs) {
		return false
	}
	seen := map[int]bool{}
	for i, p := range pairs {
		if seen[p.K] || c.GetValue(p.K) != p.V || c.GetKeys().AsArray()[i] != p.K {
			return false
		}
		seen[p.K] = true
	}
	for k := 0; k < universe+2; k++ {
		if !seen[k] && c.GetValue(k) != 0 {
			return false
		}
	}
	return true
}

func execFnCase(c fnCase, s core.Source) (res core.Result) {
	if c.Fn == "Concatenate" {
		switch c.Elem {
		case "any":
			return execConcat(c, cdAny)
		case "string":
			return execConcat(c, cdString)
		case "slice":
			return execConcat(c, cdSlice)
		case "ptr":
			return execConcat(c, cdPtr)
		}
		return execConcat(c, cdInt)
	}
	return execFnOther(c, s)
}

func execConcat[E any](c fnCase, cd lib.Codec[E]) (res core.Result) {
	n := lib.Notation()
	ints := cd.Name == "int" // the natural order is defined for one ordered type
	arr := func(l col.ListLike[E]) []int { return decAll(cd, l.AsArray()) }
	{
		L := col.List[E](n)
		a := listWithPast(cd, c.A, c.Hist)
		b := a
		bvals := c.A
		if !c.Alias {
			b = listWithPast(cd, c.B, c.Hist)
			bvals = c.B
		}
		if c.Hist > 0 {
			res.Classes = append(res.Classes, fmt.Sprintf("operands-with-a-past-%d", c.Hist))
		}
		want := append(append([]int{}, c.A...), bvals...)
		var r col.ListLike[E]
		p, payload := lib.Call(func() { r = L.Concatenate(a, b) })
		desc := fmt.Sprintf("Concatenate(%v, %v)", c.A, bvals)
		if p || r == nil {
			res.Violation = core.Violate("C16/Concatenate/panicked", "%s panicked or returned nil: %s", desc, lib.Short(payload))
			return
		}
		if !lib.EqInts(arr(r), want) {
			res.Violation = core.Violate("C16/Concatenate/wrong", "%s = %v, expected %v", desc, arr(r), want)
			return
		}
		if any(r) == any(a) || any(r) == any(b) {
			res.Violation = core.Violate("C16/Concatenate/not-new", "%s returned an operand", desc)
			return
		}
		if !lib.EqInts(arr(a), c.A) || !lib.EqInts(arr(b), bvals) {
			res.Violation = core.Violate("C16/Concatenate/operand-changed", "%s changed an operand: %v %v", desc, arr(a), arr(b))
			return
		}
		// purity: mutate the result, then the operands -- in place first (a shared backing array
		// survives only until the next structural change), then structurally
		if r.GetSize() > 0 {
			r.SetValue(1, cd.Enc(98))
			r.SetValue(-1, cd.Enc(97))
			r.ReverseValues()
			if ints {
				r.SortValues()
			}
		}
		if !lib.EqInts(arr(a), c.A) || !lib.EqInts(arr(b), bvals) {
			res.Violation = core.Violate("C16/Concatenate/result-aliases-operand", "mutating the result of %s in place changed an operand: %v %v", desc, arr(a), arr(b))
			return
		}
		inplace := arr(r)
		if a.GetSize() > 0 {
			a.SetValue(1, cd.Enc(76))
			a.ReverseValues()
		}
		if b.GetSize() > 0 {
			b.SetValue(-1, cd.Enc(75))
			if ints {
				b.SortValues()
			}
		}
		if !lib.EqInts(arr(r), inplace) {
			res.Violation = core.Violate("C16/Concatenate/operand-aliases-result", "mutating an operand of %s in place changed the result: %v -> %v", desc, inplace, arr(r))
			return
		}
		a = L.MakeFromArray(encAll(cd, c.A))
		b = a
		if !c.Alias {
			b = L.MakeFromArray(encAll(cd, c.B))
		}
		r = L.Concatenate(a, b)
		r.AppendValue(cd.Enc(99))
		if r.GetSize() > 1 {
			r.SetValue(1, cd.Enc(98))
			r.RemoveValue(-2)
		}
		if !lib.EqInts(arr(a), c.A) || !lib.EqInts(arr(b), bvals) {
			res.Violation = core.Violate("C16/Concatenate/result-aliases-operand", "mutating the result of %s changed an operand: %v %v", desc, arr(a), arr(b))
			return
		}
		snapshot := arr(r)
		a.AppendValue(cd.Enc(77))
		if a.GetSize() > 1 {
			a.SetValue(1, cd.Enc(76))
		}
		b.RemoveAll()
		if !lib.EqInts(arr(r), snapshot) {
			res.Violation = core.Violate("C16/Concatenate/operand-aliases-result", "mutating an operand of %s changed the result: %v -> %v", desc, snapshot, arr(r))
			return
		}
		// more than two parties: two results of the same operands and a result of a result; each one is changed in
		// place in turn, and every other party stays as it was
		a = L.MakeFromArray(encAll(cd, c.A))
		b = a
		if !c.Alias {
			b = L.MakeFromArray(encAll(cd, c.B))
		}
		empty := L.Make()
		r1, r2 := L.Concatenate(a, b), L.Concatenate(a, b)
		r3, r4 := L.Concatenate(r1, empty), L.Concatenate(empty, a)
		parties := []col.ListLike[E]{a, b, r1, r2, r3, r4, empty}
		names := []string{"the first operand", "the second operand", "the result", "a second result of the same operands", "Concatenate(result, [])", "Concatenate([], first operand)", "the empty list that was an operand"}
		content := make([][]int, len(parties))
		for k, p := range parties {
			content[k] = arr(p)
		}
		for _, k := range []int{2, 3, 5, 4, 0} {
			p := parties[k]
			if p.GetSize() == 0 || (c.Alias && k == 0) {
				continue
			}
			p.SetValue(1, cd.Enc(90+k))
			p.ReverseValues()
			content[k] = arr(p)
			if c.Alias && k == 0 {
				content[1] = content[0]
			}
			for j, q := range parties {
				if !lib.EqInts(arr(q), content[j]) && !(len(arr(q)) == 0 && len(content[j]) == 0) {
					res.Violation = core.Violate("C16/Concatenate/parties-not-independent", "%s: after %s was changed in place, %s holds %v, it held %v", desc, names[k], names[j], arr(q), content[j])
					return
				}
			}
		}
		res.NonTrivial = len(c.A) > 0 && len(bvals) > 0
		if c.Alias {
			res.Classes = append(res.Classes, "aliased")
		}
		res.Classes = append(res.Classes, "fn-Concatenate", "elem-"+cd.Name)
	}
	return
}

func execFnOther(c fnCase, _ core.Source) (res core.Result) {
	n := lib.Notation()
	switch c.Fn {
	case "Merge":
		C := col.Catalog[int, int](n)
		mk := func(keys []int, operand int) (col.CatalogLike[int, int], []kv) {
			pairs := []kv{}
			for _, k := range keys {
				v := 100*operand + k
				if c.Zero && (k+operand)%2 == 0 {
					v = 0 // a present key that stores the zero value
				}
				pairs = append(pairs, kv{k, v})
			}
			cat := catalogWithPast(c.Hist, len(pairs), func(cat valueSetter) {
				for _, q := range pairs {
					cat.SetValue(q.K, q.V)
				}
			})
			return cat, pairs
		}
		a, pa := mk(c.A, 1)
		b, pb := a, pa
		if !c.Alias {
			b, pb = mk(c.B, 2)
		}
		want := append([]kv{}, pa...)
		shared, fresh := 0, 0
		for _, q := range pb {
			hit := false
			for i := range want {
				if want[i].K == q.K {
					want[i].V = q.V
					hit = true
				}
			}
			if !hit {
				want = append(want, q)
				fresh++
			} else {
				shared++
			}
		}
		var r col.CatalogLike[int, int]
		desc := fmt.Sprintf("Merge(%s, %s)", pairsString(pa), pairsString(pb))
		p, payload := lib.Call(func() { r = C.Merge(a, b) })
		if p || r == nil {
			res.Violation = core.Violate("C16/Merge/panicked", "%s panicked or returned nil: %s", desc, lib.Short(payload))
			return
		}
		if got := catalogPairs(r); !eqPairs(got, want) {
			res.Violation = core.Violate("C16/Merge/wrong", "%s = %s, expected %s", desc, pairsString(got), pairsString(want))
			return
		}
		if !coherent(r, 6) {
			res.Violation = core.Violate("C16/Merge/incoherent-result", "the views of the result of %s disagree", desc)
			return
		}
		if any(r) == any(a) || any(r) == any(b) {
			res.Violation = core.Violate("C16/Merge/not-new", "%s returned an operand", desc)
			return
		}
		if !eqPairs(catalogPairs(a), pa) || !eqPairs(catalogPairs(b), pb) {
			res.Violation = core.Violate("C16/Merge/operand-changed", "%s changed an operand: %s %s", desc, pairsString(catalogPairs(a)), pairsString(catalogPairs(b)))
			return
		}
		// purity: reorder in place first, then SetValue on a shared key, remove, add on the result
		r.ReverseValues()
		r.SortValues()
		if !eqPairs(catalogPairs(a), pa) || !eqPairs(catalogPairs(b), pb) {
			res.Violation = core.Violate("C16/Merge/result-aliases-operand", "reordering the result of %s changed an operand: %s %s", desc, pairsString(catalogPairs(a)), pairsString(catalogPairs(b)))
			return
		}
		for _, q := range want {
			r.SetValue(q.K, -1)
		}
		r.SetValue(55, 5)
		if len(want) > 0 {
			r.RemoveValue(want[0].K)
		}
		for _, x := range r.AsArray() {
			x.SetValue(-2) // through the yielded association objects too
		}
		if !eqPairs(catalogPairs(a), pa) || !eqPairs(catalogPairs(b), pb) || !coherent(a, 6) || !coherent(b, 6) {
			res.Violation = core.Violate("C16/Merge/result-aliases-operand", "mutating the result of %s changed an operand: %s %s", desc, pairsString(catalogPairs(a)), pairsString(catalogPairs(b)))
			return
		}
		snapshot := catalogPairs(r)
		for _, q := range pa {
			a.SetValue(q.K, -7)
		}
		for _, x := range b.AsArray() {
			x.SetValue(-8)
		}
		a.SetValue(66, 6)
		b.RemoveAll()
		if !eqPairs(catalogPairs(r), snapshot) {
			res.Violation = core.Violate("C16/Merge/operand-aliases-result", "mutating an operand of %s changed the result: %s -> %s", desc, pairsString(snapshot), pairsString(catalogPairs(r)))
			return
		}
		res.NonTrivial = !c.Alias && shared > 0 && fresh > 0
		if c.Alias {
			res.Classes = append(res.Classes, "aliased")
		}
		if c.Zero {
			res.Classes = append(res.Classes, "zero-values")
		}
	case "Extract":
		C := col.Catalog[int, int](n)
		pa := []kv{}
		for i, k := range c.A {
			v := 100 + k
			if c.Zero && i == 0 {
				v = 0 // a present key that stores the zero value
			}
			pa = append(pa, kv{k, v})
		}
		cat := catalogWithPast(c.Hist, len(pa), func(cat valueSetter) {
			for _, q := range pa {
				cat.SetValue(q.K, q.V)
			}
		})
		// the requested keys come as a sequence of any kind; their order is the order in which that sequence
		// lists them (a Set lists them ascending and once, a Stack top first)
		var keys col.Sequential[int]
		switch c.Keys {
		case "Array":
			keys = col.Array[int](n).MakeFromArray(c.B)
		case "Set":
			keys = col.Set[int](n).MakeFromArray(c.B)
		case "Stack":
			keys = col.Stack[int](n).MakeFromArray(c.B)
		case "Queue":
			keys = col.Queue[int](n).MakeFromArray(c.B)
		default:
			keys = listWithPast(cdInt, c.B, c.Hist)
		}
		requested := append([]int{}, keys.AsArray()...)
		if c.Keys == "" || c.Keys == "List" || c.Keys == "Array" {
			requested = append([]int{}, c.B...)
		}
		want := []kv{}
		absent, repeated := false, false
		for _, k := range requested {
			present := false
			for _, q := range pa {
				if q.K == k {
					present = true
					dup := false
					for _, w := range want {
						if w.K == k {
							dup = true
						}
					}
					if dup {
						repeated = true
					} else {
						want = append(want, q)
					}
				}
			}
			if !present {
				absent = true
			}
		}
		var r col.CatalogLike[int, int]
		desc := fmt.Sprintf("Extract(%s, the keys %v as a %s)", pairsString(pa), requested, c.Keys)
		// an earlier call of the class function was refused half-way (no key sequence; a key sequence whose
		// iteration fails): what it left behind must not show in the next call
		lib.Call(func() {
			earlier := C.Make()
			for k := 0; k < 8; k++ {
				earlier.SetValue(k, 900+k)
			}
			lib.Call(func() { C.Extract(earlier, nil) })
			lib.Call(func() { C.Extract(earlier, failingKeys{}) })
			lib.Call(func() { C.Merge(earlier, nil) })
		})
		p, payload := lib.Call(func() { r = C.Extract(cat, keys) })
		if p || r == nil {
			res.Violation = core.Violate("C16/Extract/panicked", "%s panicked or returned nil: %s", desc, lib.Short(payload))
			return
		}
		if got := catalogPairs(r); !eqPairs(got, want) {
			sig := "C16/Extract/wrong"
			if len(got) > len(want) {
				sig = "C16/Extract/invented-association"
			}
			res.Violation = core.Violate(sig, "%s = %s, expected %s", desc, pairsString(got), pairsString(want))
			return
		}
		if !coherent(r, 6) {
			res.Violation = core.Violate("C16/Extract/incoherent-result", "the views of the result of %s disagree", desc)
			return
		}
		if any(r) == any(cat) {
			res.Violation = core.Violate("C16/Extract/not-new", "%s returned its operand", desc)
			return
		}
		if !eqPairs(catalogPairs(cat), pa) || !lib.EqInts(keys.AsArray(), requested) {
			res.Violation = core.Violate("C16/Extract/operand-changed", "%s changed an operand", desc)
			return
		}
		for _, q := range want {
			r.SetValue(q.K, -1)
		}
		for _, x := range r.AsArray() {
			x.SetValue(-2)
		}
		r.SetValue(55, 5)
		if !eqPairs(catalogPairs(cat), pa) || !coherent(cat, 6) {
			res.Violation = core.Violate("C16/Extract/result-aliases-operand", "mutating the result of %s changed the catalog: %s", desc, pairsString(catalogPairs(cat)))
			return
		}
		snapshot := catalogPairs(r)
		for _, x := range cat.AsArray() {
			x.SetValue(-9)
		}
		cat.RemoveAll()
		if l, ok := keys.(col.ListLike[int]); ok {
			l.RemoveAll()
		}
		if !eqPairs(catalogPairs(r), snapshot) {
			res.Violation = core.Violate("C16/Extract/operand-aliases-result", "mutating the operands of %s changed the result", desc)
			return
		}
		res.NonTrivial = len(pa) > 0 && (absent || repeated)
		if absent {
			res.Classes = append(res.Classes, "absent-key")
		}
		if repeated {
			res.Classes = append(res.Classes, "repeated-key")
		}
		if c.Zero {
			res.Classes = append(res.Classes, "zero-under-present-key")
		}
	}
	res.Classes = append(res.Classes, "fn-"+c.Fn)
	if c.Hist > 0 {
		res.Classes = append(res.Classes, fmt.Sprintf("operands-with-a-past-%d", c.Hist))
	}
	return
}

// all lists over a 3-value alphabet up to length 4 (121 lists), all ordered
// subsets of a 4-key universe (65 key lists)
func enumList(s core.Source, alphabet, maxLen int, label string) []int {
	n := s.Choose(maxLen+1, label+"len")
	out := []int{}
	for i := 0; i < n; i++ {
		out = append(out, s.Choose(alphabet, label))
	}
	return out
}

func enumOrderedSubset(s core.Source, universe int, label string) []int {
	remaining := []int{}
	for k := 0; k < universe; k++ {
		remaining = append(remaining, k)
	}
	out := []int{}
	for len(remaining) > 0 {
		k := s.Choose(len(remaining)+1, label)
		if k == 0 {
			break
		}
		out = append(out, remaining[k-1])
		remaining = append(remaining[:k-1:k-1], remaining[k:]...)
	}
	return out
}

func genFnExhaustive(s core.Source) fnCase {
	c := fnCase{Fn: core.Pick(s, []string{"Concatenate", "Merge", "Extract"}, "fn")}
	switch c.Fn {
	case "Concatenate":
		c.Elem = core.Pick(s, []string{"int", "any"}, "elem")
		c.Hist = s.Choose(6, "hist")
		c.A = enumList(s, 3, 4, "a")
		if s.Choose(2, "alias") == 1 {
			c.Alias = true
		} else {
			c.B = enumList(s, 3, 4, "b")
		}
	case "Merge":
		c.Zero = s.Choose(2, "zero") == 1
		c.Hist = s.Choose(6, "hist")
		c.A = enumOrderedSubset(s, 4, "a")
		if s.Choose(2, "alias") == 1 {
			c.Alias = true
		} else {
			c.B = enumOrderedSubset(s, 4, "b")
		}
	case "Extract":
		c.A = enumOrderedSubset(s, 3, "a") // keys 0..2 present (some of them), key 3.. absent
		c.Zero = s.Choose(2, "zero") == 1
		c.Hist = s.Choose(6, "hist")
		c.Keys = core.Pick(s, []string{"List", "Set", "Stack"}, "keys-kind")
		c.B = enumList(s, 4, 3, "keys")
	}
	return c
}

func genFnRandom(s core.Source) fnCase {
	c := fnCase{Fn: core.Pick(s, []string{"Concatenate", "Merge", "Extract"}, "fn")}
	c.Alias = c.Fn != "Extract" && s.Choose(5, "alias") == 0
	switch c.Fn {
	case "Concatenate":
		c.Elem = core.Pick(s, codecNames, "elem")
		c.Hist = s.Choose(6, "hist")
		c.A = enumList(s, 8, 12, "a")
		c.B = enumList(s, 8, 12, "b")
	case "Merge":
		c.Zero = s.Choose(2, "zero") == 1
		c.Hist = s.Choose(6, "hist")
		c.A = enumOrderedSubset(s, 7, "a")
		c.B = enumOrderedSubset(s, 7, "b")
	case "Extract":
		c.A = enumOrderedSubset(s, 6, "a")
		c.Zero = s.Choose(2, "zero") == 1
		c.Hist = s.Choose(6, "hist")
		c.Keys = core.Pick(s, []string{"List", "Array", "Set", "Stack", "Queue"}, "keys-kind")
		c.B = enumList(s, 8, 10, "keys")
	}
	if c.Alias {
		c.B = nil
	}
	return c
}

func TestC16(t *testing.T) {
	r := core.Begin(t, "C16")
	defer r.End()
	core.DFS(r, core.Check[fnCase]{Name: "all-small-operands", Gen: genFnExhaustive, Exec: execFnCase, NoJournal: true}, 0)
	core.Rapid(r, core.Check[fnCase]{Name: "random-operands", Gen: genFnRandom, Exec: execFnCase}, r.N(2000, 10000))
	core.DFS(r, core.Check[manyCallersCase]{Name: "many-callers", Gen: func(s core.Source) manyCallersCase {
		return manyCallersCase{Fn: core.Pick(s, []string{"Extract", "Merge", "Concatenate"}, "fn"), Callers: []int{40, 200, 600}[s.Choose(3, "callers")], Rounds: 30}
	}, Exec: execManyCallers, HangLimit: 120 * time.Second}, 0)
	core.DFS(r, core.Check[keysInUseCase]{Name: "key-sequence-in-use", Gen: func(s core.Source) keysInUseCase {
		return keysInUseCase{Fn: "Catalog.Extract", Rounds: r.N(3000, 30000)}
	}, Exec: execKeysInUse("C16"), NoJournal: true, HangLimit: 300 * time.Second}, 0)
	core.DFS(r, core.Check[keyIdentityCase]{Name: "key-identity", Gen: genKeyIdentity, Exec: execKeyIdentity, NoJournal: true}, 0)
}

// ---------------------------------------------------------------- keys that are equal for the collator but not for the catalog

// A catalog tells its keys apart with Go's ==: two pointers to equal numbers, an int and an int64 of the same
// value, are different keys, although the collator ranks them as equal.  Merge and Extract must use the
// catalog's notion: a requested key that only *looks* like a present one is absent.
type keyIdentityCase struct {
	Keys    string `json:"keys"` // pointers | mixed
	Fn      string `json:"fn"`   // Extract Merge
	Present []int  `json:"present"`
	Other   []int  `json:"other"` // requested keys (Extract) or the keys of the second catalog (Merge)
}

var mixedKeys = []any{int(1), int64(1), int8(1), uint(1), 1.0, "1", int(2), int64(2)}

func execKeyIdentity(c keyIdentityCase, _ core.Source) core.Result {
	if c.Keys == "pointers" {
		return keyIdentity(c, ptrKeys, func(k *int) string { return fmt.Sprintf("&%d@%p", *k, k) })
	}
	return keyIdentity(c, mixedKeys, func(k any) string { return fmt.Sprintf("%T(%v)", k, k) })
}

func keyIdentity[K comparable](c keyIdentityCase, pool []K, show func(K) string) (res core.Result) {
	n := lib.Notation()
	C := col.Catalog[K, int](n)
	a := C.Make()
	type pr struct {
		k K
		v int
	}
	var want []pr
	for _, i := range c.Present {
		a.SetValue(pool[i], 100+i)
		want = append(want, pr{pool[i], 100 + i})
	}
	var got col.CatalogLike[K, int]
	desc := ""
	if c.Fn == "Extract" {
		var req []K
		var out []pr
		for _, i := range c.Other {
			req = append(req, pool[i])
			for _, w := range want {
				dup := false
				for _, o := range out {
					dup = dup || o.k == pool[i]
				}
				if w.k == pool[i] && !dup {
					out = append(out, w)
				}
			}
		}
		want = out
		desc = fmt.Sprintf("Extract(catalog with the keys %v, requested %v)", c.Present, c.Other)
		got = C.Extract(a, col.List[K](n).MakeFromArray(req))
	} else {
		b := C.Make()
		for _, i := range c.Other {
			b.SetValue(pool[i], 200+i)
			hit := false
			for j := range want {
				if want[j].k == pool[i] {
					want[j].v, hit = 200+i, true
				}
			}
			if !hit {
				want = append(want, pr{pool[i], 200 + i})
			}
		}
		desc = fmt.Sprintf("Merge(catalog with the keys %v, catalog with the keys %v)", c.Present, c.Other)
		got = C.Merge(a, b)
	}
	arr := got.AsArray()
	ok := len(arr) == len(want)
	for i := 0; ok && i < len(arr); i++ {
		ok = arr[i].GetKey() == want[i].k && arr[i].GetValue() == want[i].v
	}
	if !ok {
		gs, ws := []string{}, []string{}
		for _, x := range arr {
			gs = append(gs, fmt.Sprintf("%s:%d", show(x.GetKey()), x.GetValue()))
		}
		for _, w := range want {
			ws = append(ws, fmt.Sprintf("%s:%d", show(w.k), w.v))
		}
		res.Violation = core.Violate("C16/"+c.Fn+"/key-identity/"+c.Keys, "%s over keys that the collator cannot tell apart = %v, expected %v", desc, gs, ws)
		return
	}
	res.NonTrivial = len(c.Present) > 0 && len(c.Other) > 0
	res.Classes = append(res.Classes, "fn-"+c.Fn, "keys-"+c.Keys)
	return
}

func genKeyIdentity(s core.Source) keyIdentityCase {
	c := keyIdentityCase{Keys: core.Pick(s, []string{"pointers", "mixed"}, "keys"), Fn: core.Pick(s, []string{"Extract", "Merge"}, "fn")}
	c.Present = enumOrderedSubset(s, 4, "present")
	if c.Fn == "Extract" {
		c.Other = enumList(s, 6, 3, "requested")
	} else {
		c.Other = enumOrderedSubset(s, 4, "second")
		for i := range c.Other {
			c.Other[i] = (c.Other[i] + 2) % 8 // overlaps the first catalog's keys in two
		}
	}
	return c
}

// failingKeys is a key sequence whose iteration fails after the first key
type failingKeys struct{}

func (failingKeys) AsArray() []int { return []int{0, 1} }
func (failingKeys) GetSize() int   { return 2 }
func (failingKeys) IsEmpty() bool  { return false }
func (failingKeys) GetIterator() age.IteratorLike[int] {
	return failingIterator{age.Iterator[int]().MakeFromArray([]int{0, 1, 2, 3})}
}

type failingIterator struct{ age.IteratorLike[int] }

func (f failingIterator) GetNext() int {
	if f.GetSlot() >= 2 {
		panic("the key sequence could not be read")
	}
	return f.IteratorLike.GetNext()
}
