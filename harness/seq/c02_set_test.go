package seq

import (
	"fmt"
	"math"
	"strings"
	"testing"
	"time"

	age "github.com/craterdog/go-collection-framework/v4/agent"
	col "github.com/craterdog/go-collection-framework/v4/collection"
	"verifharness/core"
	"verifharness/lib"
)

// ---------------------------------------------------------------- C02: Set stays ordered, duplicate-free, equal to the mathematical set

// harness collators (total preorders by construction)
type fnCollator[V any] struct {
	rank func(a, b V) age.Rank
}

func (c *fnCollator[V]) GetClass() age.CollatorClassLike[V] { return age.Collator[V]() }
func (c *fnCollator[V]) CompareValues(a, b V) bool          { return c.rank(a, b) == age.EqualRank }
func (c *fnCollator[V]) RankValues(a, b V) age.Rank         { return c.rank(a, b) }
func (c *fnCollator[V]) GetDepth() int                      { return 0 }
func (c *fnCollator[V]) GetMaximum() int                    { return 16 }

func rankOfInts(a, b int) age.Rank {
	switch {
	case a < b:
		return age.LesserRank
	case a > b:
		return age.GreaterRank
	}
	return age.EqualRank
}

func mirror(r age.Rank) age.Rank {
	switch r {
	case age.LesserRank:
		return age.GreaterRank
	case age.GreaterRank:
		return age.LesserRank
	}
	return age.EqualRank
}

// setElem describes an element type: codes are small integers, val turns a
// code into a value; equal codes give the same value, classOf gives the
// equivalence class under structural equality (distinct objects with equal
// content share a class).
type setElem[E any] struct {
	name    string
	ncodes  int // size of the large domain
	val     func(code int) E
	classOf func(code int) int
	same    func(a, b E) bool // identity of a stored representative
	less    func(a, b E) bool // reference order on classes; nil = implementation defined
	coarse  func(v E) int     // key of the coarse collator; nil = none
}

type setOp struct {
	Op string  `json:"op"`
	V  int     `json:"v,omitempty"`
	Vs []int   `json:"vs,omitempty"`
	I  *idxArg `json:"i,omitempty"`
	J  *idxArg `json:"j,omitempty"`
	Q  bool    `json:"q,omitempty"` // quiet: the views are not looked at after this operation
	// the operand of a bulk operation: 0 a List, 1 an Array, 2 the set itself (Vs is ignored)
	Opd int `json:"opd,omitempty"`
}

type setCase struct {
	Elem     string  `json:"elem"`
	Collator string  `json:"collator"`
	Ctor     string  `json:"ctor"`
	Small    bool    `json:"small"`
	Order    string  `json:"order,omitempty"`
	Init     []int   `json:"init,omitempty"`
	Ops      []setOp `json:"ops"`
}

var setOpKinds = []string{"AddValue", "AddValue", "AddValue", "AddValues", "RemoveValue", "RemoveValue", "RemoveValues", "RemoveAll",
	"ContainsValue", "ContainsAny", "ContainsAll", "GetIndex", "GetValue", "GetValues"}

func genSetCase(s core.Source) setCase {
	var c setCase
	c.Elem = core.Pick(s, []string{"int", "int", "string", "float", "ints", "any", "any-hard", "set", "record"}, "elem")
	c.Collator = core.Pick(s, []string{"default", "default", "reversed", "coarse"}, "collator")
	if (c.Elem == "any" || c.Elem == "any-hard" || c.Elem == "set") && c.Collator == "coarse" {
		c.Collator = "reversed"
	}
	if c.Elem != "any" && c.Elem != "any-hard" && s.Choose(6, "tight") == 0 {
		c.Collator = "tight"
	}
	if c.Collator == "default" {
		c.Ctor = core.Pick(s, []string{"Make", "MakeWithCollator", "MakeFromArray", "MakeFromSequence", "MakeFromSequence/reversed-set", "MakeFromSequence/coarse-set"}, "ctor")
		if c.Elem == "any" || c.Elem == "any-hard" || c.Elem == "set" {
			c.Ctor = core.Pick(s, []string{"Make", "MakeWithCollator", "MakeFromArray", "MakeFromSequence"}, "ctor2")
		}
	} else {
		c.Ctor = "MakeWithCollator"
	}
	c.Small = s.Choose(10, "domain") < 7
	dom := 8
	if !c.Small {
		dom = 64
	}
	if c.Ctor == "MakeFromArray" || strings.HasPrefix(c.Ctor, "MakeFromSequence") {
		n := s.Choose(10, "ninit")
		c.Init = []int{}
		for i := 0; i < n; i++ {
			c.Init = append(c.Init, s.Choose(dom, "init"))
		}
	}
	// insertion-order moods: random, ascending, descending, extremes, median
	c.Order = core.Pick(s, []string{"random", "random", "asc", "desc", "minmax"}, "order")
	nops := 1 + s.Choose(40, "nops")
	cursor := 0
	sparse := s.Choose(2, "sparse") == 0 // the views are looked at after some operations only
	for i := 0; i < nops; i++ {
		op := setOp{Op: core.Pick(s, setOpKinds, "op")}
		if sparse {
			op.Q = s.Choose(3, "quiet") != 0
		}
		val := func() int {
			switch c.Order {
			case "asc":
				cursor++
				return cursor % dom
			case "desc":
				cursor++
				return (dom*8 - cursor) % dom
			case "minmax":
				cursor++
				if cursor%2 == 0 {
					return (cursor / 2) % dom
				}
				return (dom*8 - cursor/2 - 1) % dom
			}
			return s.Choose(dom, "val")
		}
		switch op.Op {
		case "AddValue":
			op.V = val()
		case "RemoveValue", "ContainsValue", "GetIndex":
			op.V = s.Choose(dom, "val")
		case "AddValues", "RemoveValues", "ContainsAny", "ContainsAll":
			n := s.Choose(5, "nvals")
			op.Vs = []int{}
			for k := 0; k < n; k++ {
				op.Vs = append(op.Vs, s.Choose(dom, "val"))
			}
			op.Opd = []int{0, 0, 0, 1, 1, 2}[s.Choose(6, "operand")]
		case "GetValue":
			op.I = genIdx(s, false, "i")
		case "GetValues":
			op.I = genIdx(s, false, "i")
			op.J = genIdx(s, false, "j")
		}
		c.Ops = append(c.Ops, op)
	}
	return c
}

func strOfCode(code int) string {
	// base-5 digits as letters: "", "a", "é", "ü", "\xe9", "\xe8", "aa", ... so that proper prefixes occur.
	// Two of the letters are two bytes long and share their first byte; two are single bytes that are not
	// valid UTF-8 (Latin-1 text): they decode to the same replacement rune but are different strings.
	s := ""
	for code > 0 {
		code--
		s = []string{"a", "é", "ü", "\xe9", "\xe8"}[code%5] + s
		code /= 5
	}
	return s
}

func intsOfCode(code int) []int {
	out := []int{}
	for code > 0 {
		code--
		out = append([]int{code % 3}, out...)
		code /= 3
	}
	return out
}

var floatSetPool = []float64{math.Inf(-1), -2.5, math.Copysign(0, -1), 0, 5e-324, 1.5, 3, 1e300, math.Inf(1), -1e300, 2, 2.5}
var anyHardPool = []any{uint8(50), uint(300), uint16(256), float32(0.1), 0.1, nil}
var anyPool []any
var anyPoolClass []int
var setPool []col.SetLike[int]

func init() {
	n := lib.Notation()
	L := col.List[any](n)
	l1 := L.MakeFromArray([]any{int64(1), "x"})
	l1b := L.MakeFromArray([]any{int64(1), "x"})
	l0 := L.Make()
	l2 := L.MakeFromArray([]any{int64(1), "x", nil})
	anyPool = []any{nil, int64(0), int64(-3), int64(7), uint64(3), 1.5, -2.25, "", "a", "ab", true, false, 'x', l1, l1b, l0, l2,
		int64(1 << 40), uint64(0), "b", complex(1, 2), uint8(50), uint8(200), uint(300), uint16(256), float32(0.1), 0.1,
		L.MakeFromArray([]any{nil}), L.MakeFromArray([]any{int64(0)}), L.MakeFromArray([]any{int64(1)}), L.MakeFromArray([]any{nil, int64(1)}), L.MakeFromArray([]any{int64(1), nil})}
	for i := range anyPool {
		anyPoolClass = append(anyPoolClass, i)
	}
	anyPoolClass[14] = 13 // l1b has the content of l1
	S := col.Set[int](n)
	for code := 0; code < 16; code++ {
		var vals []int
		for b := 0; b < 3; b++ {
			if (code%8)&(1<<b) != 0 {
				vals = append(vals, b+1)
			}
		}
		setPool = append(setPool, S.MakeFromArray(vals))
	}
	seAny.ncodes = len(anyPool)
}

var (
	seInt = setElem[int]{"int", 64, intOfCode, func(c int) int { return c },
		func(a, b int) bool { return a == b }, func(a, b int) bool { return a < b }, func(v int) int { return floorDiv(v, 7) }}
	seString = setElem[string]{"string", 64, strOfCode, func(c int) int { return c },
		func(a, b string) bool { return a == b }, func(a, b string) bool { return a < b }, func(v string) int { return len(v) }}
	// floats: -0.0 and +0.0 (codes 2 and 3) are one member under every collator but two different values
	seFloat = setElem[float64]{"float", len(floatSetPool), func(c int) float64 { return floatSetPool[c%len(floatSetPool)] },
		func(c int) int {
			if c%len(floatSetPool) == 3 {
				return 2
			}
			return c % len(floatSetPool)
		},
		func(a, b float64) bool { return math.Float64bits(a) == math.Float64bits(b) }, func(a, b float64) bool { return a < b },
		func(v float64) int {
			switch {
			case v < -1:
				return -1
			case v > 1:
				return 1
			}
			return 0
		}}
	// records: Go maps with the same three keys whose values pull in opposite directions (x goes up with the code, y
	// goes down), so that the first key in sorted order decides and any other order of looking at the keys gives
	// another answer
	seRecord = setElem[map[string]int]{"record", 64, func(c int) map[string]int { return map[string]int{"x": c, "y": 100 - c, "z": c % 5} }, func(c int) int { return c },
		func(a, b map[string]int) bool {
			return a["x"] == b["x"] && a["y"] == b["y"] && a["z"] == b["z"] && len(a) == len(b)
		},
		func(a, b map[string]int) bool { return a["x"] < b["x"] }, func(v map[string]int) int { return v["x"] / 7 }}
	seInts = setElem[[]int]{"ints", 64, intsOfCode, func(c int) int { return c }, sameInts, lessInts, func(v []int) int { return len(v) }}
	seAny  = setElem[any]{"any", len(anyPool), func(c int) any { return anyPool[c%len(anyPool)] }, func(c int) int { return anyPoolClass[c%len(anyPool)] },
		func(a, b any) bool { return a == b }, nil, nil}
	// six values of different Go types whose ranking is the collator's business but must be a preorder:
	// a byte next to wider unsigned values above 255, a float32 next to the float64 it rounds from, nil
	seAnyHard = setElem[any]{"any-hard", 6, func(c int) any { return anyHardPool[c%6] }, func(c int) int { return c % 6 },
		func(a, b any) bool { return a == b }, nil, nil}
	seSet = setElem[col.SetLike[int]]{"set", 16, func(c int) col.SetLike[int] { return setPool[c%16] }, func(c int) int { return c % 8 },
		func(a, b col.SetLike[int]) bool { return a == b }, nil, nil}
)

// codes 0, 1, 6 and 7 (all inside the small domain) are the ends of the int64 range, where a comparison
// by subtraction overflows
func intOfCode(c int) int {
	switch c {
	case 0:
		return math.MinInt64
	case 1:
		return math.MinInt64 + 1
	case 6:
		return math.MaxInt64 - 1
	case 7:
		return math.MaxInt64
	}
	return c*3 - 40
}

// tightMaximum is the nesting depth of the elements of the named domain: slices of ints and sets of ints are
// one level deep, plain values none (the limit must be at least 1)
func tightMaximum(elem string) int {
	return 1
}

func floorDiv(a, b int) int {
	q := a / b
	if (a%b != 0) && ((a < 0) != (b < 0)) {
		q--
	}
	return q
}

func execSetCase(c setCase, _ core.Source) core.Result {
	switch c.Elem {
	case "int":
		return execSet(c, seInt)
	case "string":
		return execSet(c, seString)
	case "float":
		return execSet(c, seFloat)
	case "ints":
		return execSet(c, seInts)
	case "any":
		return execSet(c, seAny)
	case "any-hard":
		return execSet(c, seAnyHard)
	case "record":
		return execSet(c, seRecord)
	default:
		return execSet(c, seSet)
	}
}

type setMember[E any] struct {
	code int
	val  E
}

func execSet[E any](c setCase, se setElem[E]) (res core.Result) {
	n := lib.Notation()
	S := col.Set[E](n)
	dom := 8
	if !c.Small {
		dom = se.ncodes
	}
	code := func(k int) int { return k % dom % se.ncodes }
	// reference comparison between two codes under the chosen collator; ok=false when only
	// equivalence is defined (implementation-defined cross-type order)
	var refCmp func(a, b int) (int, bool)
	var collator age.CollatorLike[E]
	def := age.Collator[E]().Make()
	natural := func(a, b int) (int, bool) {
		if se.less == nil {
			if se.classOf(a) == se.classOf(b) {
				return 0, true
			}
			return 0, false
		}
		va, vb := se.val(a), se.val(b)
		switch {
		case se.less(va, vb):
			return -1, true
		case se.less(vb, va):
			return 1, true
		}
		return 0, true
	}
	switch c.Collator {
	case "default":
		refCmp = natural
		collator = def
	case "tight":
		// the library's collator with a traversal limit that is exactly the nesting depth of the elements
		refCmp = natural
		collator = age.Collator[E]().MakeWithMaximum(tightMaximum(se.name))
	case "reversed":
		refCmp = func(a, b int) (int, bool) { r, ok := natural(a, b); return -r, ok }
		if se.less != nil {
			collator = &fnCollator[E]{func(a, b E) age.Rank {
				switch {
				case se.less(a, b):
					return age.GreaterRank
				case se.less(b, a):
					return age.LesserRank
				}
				return age.EqualRank
			}}
		} else {
			inner := age.Collator[E]().Make()
			collator = &fnCollator[E]{func(a, b E) age.Rank { return mirror(inner.RankValues(a, b)) }}
		}
	case "coarse":
		refCmp = func(a, b int) (int, bool) {
			ka, kb := se.coarse(se.val(a)), se.coarse(se.val(b))
			switch {
			case ka < kb:
				return -1, true
			case ka > kb:
				return 1, true
			}
			return 0, true
		}
		collator = &fnCollator[E]{func(a, b E) age.Rank { return rankOfInts(se.coarse(a), se.coarse(b)) }}
	}
	ordered := se.less != nil

	var model []setMember[E] // kept in reference order when ordered, insertion order otherwise
	find := func(k int) int {
		for i, m := range model {
			if r, ok := refCmp(m.code, k); ok && r == 0 {
				return i
			}
		}
		return -1
	}
	add := func(k int) bool {
		if find(k) >= 0 {
			return false
		}
		m := setMember[E]{k, se.val(k)}
		if !ordered {
			model = append(model, m)
			return true
		}
		pos := len(model)
		for i, x := range model {
			if r, _ := refCmp(k, x.code); r < 0 {
				pos = i
				break
			}
		}
		model = append(model[:pos], append([]setMember[E]{m}, model[pos:]...)...)
		return true
	}
	remove := func(k int) bool {
		i := find(k)
		if i < 0 {
			return false
		}
		model = append(model[:i:i], model[i+1:]...)
		return true
	}
	vals := func(ks []int) []E {
		out := make([]E, len(ks))
		for i, k := range ks {
			out[i] = se.val(code(k))
		}
		return out
	}

	var set col.SetLike[E]
	var sourceContent []E
	p, payload := lib.Call(func() {
		switch c.Ctor {
		case "Make":
			set = S.Make()
		case "MakeWithCollator":
			set = S.MakeWithCollator(collator)
		case "MakeFromArray":
			if len(c.Init) == 0 && len(c.Ops)%2 == 0 {
				set = S.MakeFromArray(nil) // an empty Go array comes as an allocated empty one or as nil, in turn
				break
			}
			set = S.MakeFromArray(vals(c.Init))
		case "MakeFromSequence":
			set = S.MakeFromSequence(col.List[E](n).MakeFromArray(vals(c.Init)))
		case "MakeFromSequence/reversed-set", "MakeFromSequence/coarse-set":
			// the source is a set ordered by another collator; the new set orders by the default one
			other, _ := collatorFor(se, strings.TrimSuffix(strings.TrimPrefix(c.Ctor, "MakeFromSequence/"), "-set"))
			source := S.MakeWithCollator(other)
			for _, v := range vals(c.Init) {
				source.AddValue(v)
			}
			sourceContent = source.AsArray()
			set = S.MakeFromSequence(source)
		}
	})
	if p {
		res.Violation = core.Violate("C02/ctor-panicked", "constructor %s panicked: %s", c.Ctor, lib.Short(payload))
		return res
	}
	if sourceContent != nil {
		// the members are what the source set held (given), ordered by the new set's own collator
		for _, v := range sourceContent {
			for k := 0; k < se.ncodes; k++ {
				if se.same(se.val(k), v) {
					add(k)
					break
				}
			}
		}
	} else {
		for _, k := range c.Init {
			add(code(k))
		}
	}
	own := set.GetCollator()
	if own == nil {
		res.Violation = core.Violate("C02/no-collator", "GetCollator() returned nil")
		return res
	}
	dupAdd, absentRemove, boundaryRemove, maxSize := false, false, false, 0

	check := func(step int, what string, probes []int) *core.Violation {
		var arr []E
		var walked []E
		var size int
		var empty bool
		if p, payload := lib.Call(func() {
			arr, size, empty, walked = set.AsArray(), set.GetSize(), set.IsEmpty(), walk(set.GetIterator())
		}); p {
			return core.Violate("C02/view-panicked", "step %d after %s: a view panicked: %s", step, what, lib.Short(payload))
		}
		if size != len(model) || empty != (len(model) == 0) || len(arr) != len(model) || len(walked) != len(model) {
			return core.Violate("C02/size", "step %d after %s: size %d, empty %v, |AsArray| %d, |iteration| %d; mathematical set has %d members %v", step, what, size, empty, len(arr), len(walked), len(model), modelString(model))
		}
		for i := range arr {
			if !se.same(arr[i], walked[i]) {
				return core.Violate("C02/iteration-differs", "step %d after %s: iteration %v differs from AsArray %v", step, what, walked, arr)
			}
		}
		if ordered {
			for i := range arr {
				if !se.same(arr[i], model[i].val) {
					return core.Violate("C02/content-or-order", "step %d after %s: AsArray = %v, expected %v", step, what, arr, modelString(model))
				}
			}
		} else {
			used := make([]bool, len(arr))
			for _, m := range model {
				hit := false
				for j := range arr {
					if !used[j] && se.same(arr[j], m.val) {
						used[j], hit = true, true
						break
					}
				}
				if !hit {
					return core.Violate("C02/content", "step %d after %s: AsArray = %v does not hold member %v of %v", step, what, arr, m.val, modelString(model))
				}
			}
		}
		for i := 0; i+1 < len(arr); i++ {
			if own.RankValues(arr[i], arr[i+1]) != age.LesserRank {
				return core.Violate("C02/not-strictly-ascending", "step %d after %s: %v is not ranked before %v by the set's collator in %v", step, what, arr[i], arr[i+1], arr)
			}
		}
		for _, k := range probes {
			v := se.val(k)
			mi := find(k)
			var has bool
			var idx int
			if p, payload := lib.Call(func() { has, idx = set.ContainsValue(v), set.GetIndex(v) }); p {
				return core.Violate("C02/search-panicked", "step %d after %s: ContainsValue/GetIndex(%v) panicked: %s", step, what, v, lib.Short(payload))
			}
			if has != (mi >= 0) {
				return core.Violate("C02/ContainsValue", "step %d after %s: ContainsValue(%v) = %v, members %v", step, what, v, has, modelString(model))
			}
			if (idx > 0) != (mi >= 0) || idx < 0 || idx > len(arr) {
				return core.Violate("C02/GetIndex", "step %d after %s: GetIndex(%v) = %d, members %v", step, what, v, idx, modelString(model))
			}
			if idx > 0 {
				got := set.GetValue(idx)
				if !se.same(got, model[mi].val) {
					return core.Violate("C02/GetIndex-GetValue", "step %d after %s: GetIndex(%v) = %d but GetValue(%d) = %v, the member equal to it is %v", step, what, v, idx, idx, got, model[mi].val)
				}
				if ordered && idx != mi+1 {
					return core.Violate("C02/GetIndex-position", "step %d after %s: GetIndex(%v) = %d, expected %d in %v", step, what, v, idx, mi+1, modelString(model))
				}
			}
		}
		if len(model) > maxSize {
			maxSize = len(model)
		}
		return nil
	}
	allProbes := func(extra []int) []int {
		if c.Small {
			out := make([]int, 0, 8)
			for k := 0; k < 8; k++ {
				out = append(out, code(k))
			}
			return out
		}
		out := []int{code(0), code(dom - 1), code(dom / 2)}
		for _, k := range extra {
			out = append(out, code(k))
		}
		return out
	}
	if v := check(-1, c.Ctor, allProbes(c.Init)); v != nil {
		res.Violation = v
		return res
	}
	for step, op := range c.Ops {
		what := op.Op
		var v *core.Violation
		probes := op.Vs
		operandOf := func(op setOp) col.Sequential[E] {
			if op.Opd == 1 {
				return col.Array[E](n).MakeFromArray(vals(op.Vs))
			}
			return col.List[E](n).MakeFromArray(vals(op.Vs))
		}
		switch op.Op {
		case "AddValue":
			k := code(op.V)
			what = fmt.Sprintf("AddValue(%v)", se.val(k))
			if !add(k) {
				dupAdd = true
				res.Classes = append(res.Classes, "add-duplicate")
			}
			set.AddValue(se.val(k))
			probes = []int{op.V}
		case "AddValues":
			if op.Opd == 2 {
				what = "AddValues(the set itself)"
				res.Classes = append(res.Classes, "operand-is-the-receiver")
				set.AddValues(set)
				break
			}
			what = fmt.Sprintf("AddValues(%v)", vals(op.Vs))
			for _, k := range op.Vs {
				if !add(code(k)) {
					dupAdd = true
				}
			}
			set.AddValues(operandOf(op))
		case "RemoveValue":
			k := code(op.V)
			what = fmt.Sprintf("RemoveValue(%v)", se.val(k))
			if i := find(k); i < 0 {
				absentRemove = true
				res.Classes = append(res.Classes, "remove-absent")
			} else if i == 0 || i == len(model)-1 {
				boundaryRemove = true
			}
			remove(k)
			set.RemoveValue(se.val(k))
			probes = []int{op.V}
		case "RemoveValues":
			if op.Opd == 2 {
				what = "RemoveValues(the set itself)"
				res.Classes = append(res.Classes, "operand-is-the-receiver")
				model = nil
				set.RemoveValues(set)
				break
			}
			what = fmt.Sprintf("RemoveValues(%v)", vals(op.Vs))
			for _, k := range op.Vs {
				if !remove(code(k)) {
					absentRemove = true
				}
			}
			set.RemoveValues(operandOf(op))
		case "RemoveAll":
			model = nil
			set.RemoveAll()
		case "ContainsValue", "GetIndex":
			probes = []int{op.V} // checked by the probes below
		case "ContainsAny", "ContainsAll":
			anyIn, allIn := false, true
			for _, k := range op.Vs {
				in := find(code(k)) >= 0
				anyIn = anyIn || in
				allIn = allIn && in
			}
			operand := operandOf(op)
			if op.Opd == 2 {
				operand, anyIn, allIn = set, len(model) > 0, true
				op.Vs = nil
			}
			if op.Op == "ContainsAny" {
				if got := set.ContainsAny(operand); got != anyIn {
					v = core.Violate("C02/ContainsAny", "step %d: ContainsAny(%v) = %v, members %v", step, vals(op.Vs), got, modelString(model))
				}
			} else if got := set.ContainsAll(operand); got != allIn {
				v = core.Violate("C02/ContainsAll", "step %d: ContainsAll(%v) = %v, members %v", step, vals(op.Vs), got, modelString(model))
			}
		case "GetValue":
			i := op.I.index(len(model))
			what = fmt.Sprintf("GetValue(%d)", i)
			valid := (i >= 1 && i <= len(model)) || (i <= -1 && i >= -len(model))
			var got E
			p, _ := lib.Call(func() { got = set.GetValue(i) })
			if valid == p {
				v = core.Violate("C02/GetValue/outcome", "step %d: %s on size %d: panicked=%v", step, what, len(model), p)
			} else if valid && ordered {
				k := i - 1
				if i < 0 {
					k = len(model) + i
				}
				if !se.same(got, model[k].val) {
					v = core.Violate("C02/GetValue/wrong", "step %d: %s = %v, expected %v", step, what, got, model[k].val)
				}
			}
		case "GetValues":
			i, j := op.I.index(len(model)), op.J.index(len(model))
			what = fmt.Sprintf("GetValues(%d, %d)", i, j)
			nz := func(i int) (int, bool) {
				if i >= 1 && i <= len(model) {
					return i - 1, true
				}
				if i <= -1 && i >= -len(model) {
					return len(model) + i, true
				}
				return 0, false
			}
			a, oka := nz(i)
			b, okb := nz(j)
			var got col.Sequential[E]
			p, _ := lib.Call(func() { got = set.GetValues(i, j) })
			if !oka || !okb {
				if !p {
					v = core.Violate("C02/GetValues/out-of-range-returned", "step %d: %s on size %d returned", step, what, len(model))
				}
			} else if a <= b {
				if p {
					v = core.Violate("C02/GetValues/panicked", "step %d: %s on size %d panicked", step, what, len(model))
				} else if got == nil || got.GetSize() != b-a+1 {
					v = core.Violate("C02/GetValues/size", "step %d: %s returned %v", step, what, seqString(got))
				} else if ordered {
					for x, g := range got.AsArray() {
						if !se.same(g, model[a+x].val) {
							v = core.Violate("C02/GetValues/wrong", "step %d: %s returned %v, expected members %d..%d of %v", step, what, got.AsArray(), a+1, b+1, modelString(model))
							break
						}
					}
				}
			}
		}
		if v == nil && !(op.Q && step+1 < len(c.Ops)) {
			v = check(step, what, allProbes(probes))
		}
		if v != nil {
			res.Violation = v
			return res
		}
	}
	res.NonTrivial = dupAdd && (absentRemove || boundaryRemove) && maxSize >= 3
	res.Classes = append(res.Classes, "elem-"+c.Elem, "collator-"+c.Collator, fmt.Sprintf("maxsize-%d", min(maxSize, 8)))
	return res
}

func modelString[E any](m []setMember[E]) string {
	out := make([]E, len(m))
	for i := range m {
		out[i] = m[i].val
	}
	return fmt.Sprint(out)
}

// exhaustive: every insertion order of every subset of {1..6}, then every single removal
type setPermCase struct {
	Collator string `json:"collator"`
	Order    []int  `json:"order"`
}

func genSetPerm(s core.Source) setPermCase {
	c := setPermCase{Collator: core.Pick(s, []string{"default", "reversed"}, "collator")}
	remaining := []int{1, 2, 3, 4, 5, 6}
	c.Order = []int{}
	for len(remaining) > 0 {
		// choice 0 = stop, otherwise take one of the remaining values
		k := s.Choose(len(remaining)+1, "next")
		if k == 0 {
			break
		}
		c.Order = append(c.Order, remaining[k-1])
		remaining = append(remaining[:k-1:k-1], remaining[k:]...)
	}
	return c
}

func execSetPerm(c setPermCase, s core.Source) core.Result {
	var res core.Result
	// codes are chosen so that seInt.val(code) keeps the order of the values 1..6
	base := setCase{Elem: "int", Collator: c.Collator, Ctor: "MakeWithCollator", Small: true}
	for _, v := range c.Order {
		base.Ops = append(base.Ops, setOp{Op: "AddValue", V: v})
	}
	for rm := 0; rm <= 7; rm++ {
		sc := base
		sc.Ops = append(append([]setOp{}, base.Ops...), setOp{Op: "RemoveValue", V: rm}, setOp{Op: "AddValue", V: rm})
		r := execSet(sc, seInt)
		if r.Violation != nil {
			return r
		}
	}
	res.NonTrivial = len(c.Order) >= 2
	res.Classes = append(res.Classes, fmt.Sprintf("size-%d", len(c.Order)))
	return res
}

func TestC02(t *testing.T) {
	r := core.Begin(t, "C02")
	defer r.End()
	core.DFS(r, core.Check[largeCase]{Name: "large-sizes", Gen: genLarge([]string{"Set"}), Exec: execLarge("C02"), NoJournal: true}, 0)
	core.Rapid(r, core.Check[setCase]{Name: "history", Gen: genSetCase, Exec: execSetCase}, r.N(3000, 30000))
	core.DFS(r, core.Check[setPermCase]{Name: "insertion-orders", Gen: genSetPerm, Exec: execSetPerm, NoJournal: true}, 0)
	core.DFS(r, core.Check[reentrantCase]{Name: "reentrant-elements", Gen: genReentrant([]string{"Set", "SetAlgebra"}), Exec: execReentrant("C02"), NoJournal: true}, 0)
	core.DFS(r, core.Check[hugeCase]{Name: "huge-sizes", Gen: genHuge([]string{"Set"}, r.Ns([]int{16389}, []int{16389, 80000})), Exec: execHuge("C02"), NoJournal: true, HangLimit: 900 * time.Second}, 0)
	core.DFS(r, core.Check[longLivedCase]{Name: "long-lived-instance", Gen: genLongLived([]string{"Set"}, r.N(150000, 1200000)), Exec: execLongLived("C02"), NoJournal: true, HangLimit: 300 * time.Second}, 0)
}
