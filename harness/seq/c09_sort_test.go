package seq

import (
	"fmt"
	"math"
	"testing"
	"time"

	age "github.com/craterdog/go-collection-framework/v4/agent"
	col "github.com/craterdog/go-collection-framework/v4/collection"
	"verifharness/core"
	"verifharness/lib"
)

// ---------------------------------------------------------------- C09: sorting yields an ordered permutation for every ranker

// Elements are tagged with their original position so that the loss, duplication
// or alteration of an individual element is visible even among equal keys.
type tagged struct {
	Key int
	Pos int
}

type sortCase struct {
	Keys   []int  `json:"keys"`
	Ranker string `json:"ranker"`
	Salt   uint64 `json:"salt,omitempty"`
	Via    string `json:"via"` // sorter | Array | List | Catalog
	Shape  string `json:"shape,omitempty"`
}

var consistentRankers = []string{"natural", "reversed", "coarse", "constant"}
var inconsistentRankers = []string{"always-lesser", "always-greater", "random"}

func taggedRanker(name string, salt uint64) (age.RankingFunction[tagged], bool) {
	switch name {
	case "natural":
		return func(a, b tagged) age.Rank { return rankOfInts(a.Key, b.Key) }, true
	case "reversed":
		return func(a, b tagged) age.Rank { return rankOfInts(b.Key, a.Key) }, true
	case "coarse":
		return func(a, b tagged) age.Rank { return rankOfInts(floorDiv(a.Key, 3), floorDiv(b.Key, 3)) }, true
	case "constant":
		return func(a, b tagged) age.Rank { return age.EqualRank }, true
	case "always-lesser":
		return func(a, b tagged) age.Rank { return age.LesserRank }, false
	case "always-greater":
		return func(a, b tagged) age.Rank { return age.GreaterRank }, false
	default: // a pure hash of (a, b, salt): inconsistent but deterministic, no RNG of our own
		return func(a, b tagged) age.Rank {
			h := core.Mix(uint64(a.Key)*1000003 ^ uint64(a.Pos)<<20 ^ uint64(b.Key)*7919 ^ uint64(b.Pos)<<40 ^ salt)
			return age.Rank(h % 3)
		}, false
	}
}

func execSortCase(c sortCase, _ core.Source) (res core.Result) {
	n := lib.Notation()
	in := make([]tagged, len(c.Keys))
	for i, k := range c.Keys {
		in[i] = tagged{k, i}
	}
	rank, consistent := taggedRanker(c.Ranker, c.Salt)
	ref := append([]tagged{}, in...)
	sorter := age.Sorter[tagged]().MakeWithRanker(rank)
	if p, payload := lib.Call(func() { sorter.SortValues(ref) }); p {
		res.Violation = core.Violate("C09/sorter-panicked", "SortValues(%v, %s) panicked: %s", c.Keys, c.Ranker, lib.Short(payload))
		return
	}
	checkPerm := func(what string, out []tagged) *core.Violation {
		if len(out) != len(in) {
			return core.Violate("C09/"+what+"/length", "%s of %d values left %d values", what, len(in), len(out))
		}
		seen := make([]bool, len(in))
		for _, x := range out {
			if x.Pos < 0 || x.Pos >= len(in) || seen[x.Pos] || in[x.Pos] != x {
				return core.Violate("C09/"+what+"/not-a-permutation", "%s with ranker %s turned %v into %v (element %v lost, duplicated or altered)", what, c.Ranker, in, out, x)
			}
			seen[x.Pos] = true
		}
		return nil
	}
	if v := checkPerm("SortValues", ref); v != nil {
		res.Violation = v
		return
	}
	if consistent {
		for i := 0; i+1 < len(ref); i++ {
			if rank(ref[i], ref[i+1]) == age.GreaterRank {
				res.Violation = core.Violate("C09/SortValues/not-ascending", "SortValues with ranker %s left %v before %v: %v -> %v", c.Ranker, ref[i], ref[i+1], in, ref)
				return
			}
		}
	}
	// the same sorter instance is used again: for a shorter array (the array it sorted before is the caller's
	// and must stay as it is), and for the first array once more after it has been put out of order
	if len(in) >= 2 {
		snapshot := append([]tagged{}, ref...)
		shorter := append([]tagged{}, in[:len(in)/2+1]...)
		for a, b := 0, len(shorter)-1; a < b; a, b = a+1, b-1 {
			shorter[a], shorter[b] = shorter[b], shorter[a]
		}
		shorterIn := append([]tagged{}, shorter...)
		again := append([]tagged{}, ref...)
		for a, b := 0, len(again)-1; a < b; a, b = a+1, b-1 {
			again[a], again[b] = again[b], again[a]
		}
		if p, payload := lib.Call(func() { sorter.SortValues(shorter); sorter.SortValues(again) }); p {
			res.Violation = core.Violate("C09/sorter-reuse/panicked", "sorting a second array with the same sorter panicked: %s", lib.Short(payload))
			return
		}
		if fmt.Sprint(ref) != fmt.Sprint(snapshot) {
			res.Violation = core.Violate("C09/sorter-reuse/earlier-result-changed", "sorting another array with the same sorter (ranker %s) changed the array it had sorted before: %v -> %v", c.Ranker, snapshot, ref)
			return
		}
		count := map[tagged]int{}
		for _, x := range shorterIn {
			count[x]++
		}
		for _, x := range shorter {
			count[x]--
		}
		for _, x := range again {
			count[x]++
		}
		for _, x := range in {
			count[x]--
		}
		for x, d := range count {
			if d != 0 {
				res.Violation = core.Violate("C09/sorter-reuse/not-a-permutation", "the second or third sort with the same sorter (ranker %s) lost, duplicated or altered %v: %v -> %v and %v -> %v", c.Ranker, x, shorterIn, shorter, in, again)
				return
			}
		}
		if consistent {
			for _, arr := range [][]tagged{shorter, again} {
				for i := 0; i+1 < len(arr); i++ {
					if rank(arr[i], arr[i+1]) == age.GreaterRank {
						res.Violation = core.Violate("C09/sorter-reuse/not-ascending", "a later sort with the same sorter (ranker %s) left %v before %v in %v", c.Ranker, arr[i], arr[i+1], arr)
						return
					}
				}
			}
		}
	}
	// the collection methods must have the same effect as the sorter on the equivalent Go array
	var got []tagged
	switch c.Via {
	case "Array":
		src := col.List[tagged](n).MakeFromArray(in)
		a := col.Array[tagged](n).MakeFromSequence(src)
		a.SortValuesWithRanker(rank)
		got = a.AsArray()
		if fmt.Sprint(src.AsArray()) != fmt.Sprint(in) {
			res.Violation = core.Violate("C09/Array/sorted-its-source", "sorting an Array made from a List changed the List: %v -> %v", in, src.AsArray())
			return
		}
	case "List":
		// the list is made from an Array collection, which stays a collection of its own: sorting the list
		// is not sorting the array
		src := col.Array[tagged](n).MakeFromArray(in)
		l := col.List[tagged](n).MakeFromSequence(src)
		l.SortValuesWithRanker(rank)
		got = l.AsArray()
		if fmt.Sprint(src.AsArray()) != fmt.Sprint(in) {
			res.Violation = core.Violate("C09/List/sorted-its-source", "sorting a List made from an Array changed the Array: %v -> %v", in, src.AsArray())
			return
		}
	case "Catalog":
		cat := col.Catalog[int, tagged](n).Make()
		for i, x := range in {
			cat.SetValue(i, x)
		}
		lookAtCatalog(cat) // every view has been used before the order changes
		cat.SortValuesWithRanker(func(a, b col.AssociationLike[int, tagged]) age.Rank { return rank(a.GetValue(), b.GetValue()) })
		if why := lookAtCatalog(cat); why != "" {
			res.Violation = core.Violate("C09/Catalog/views-disagree", "after SortValuesWithRanker(%s) on a catalog of %d associations: %s", c.Ranker, len(in), why)
			return
		}
		for _, a := range cat.AsArray() {
			if a.GetKey() != a.GetValue().Pos {
				res.Violation = core.Violate("C09/Catalog/mapping-changed", "sorting a catalog re-paired key %d with %v", a.GetKey(), a.GetValue())
				return
			}
			got = append(got, a.GetValue())
		}
	}
	if c.Via != "sorter" {
		if fmt.Sprint(got) != fmt.Sprint(ref) {
			res.Violation = core.Violate("C09/"+c.Via+"/differs-from-sorter", "%s.SortValuesWithRanker(%s) gave %v, the sorter gives %v on the same Go array", c.Via, c.Ranker, got, ref)
			return
		}
	}
	// ReverseValues: exact reversal, twice = identity; ShuffleValues: permutation
	rev := append([]tagged{}, in...)
	plain := age.Sorter[tagged]().MakeWithRanker(rank)
	plain.ReverseValues(rev)
	for i := range rev {
		if rev[i] != in[len(in)-1-i] {
			res.Violation = core.Violate("C09/ReverseValues/wrong", "ReverseValues(%v) = %v", in, rev)
			return
		}
	}
	plain.ReverseValues(rev)
	if fmt.Sprint(rev) != fmt.Sprint(in) {
		res.Violation = core.Violate("C09/ReverseValues/twice-not-identity", "ReverseValues twice turned %v into %v", in, rev)
		return
	}
	sh := append([]tagged{}, in...)
	plain.ShuffleValues(sh)
	if v := checkPerm("ShuffleValues", sh); v != nil {
		res.Violation = v
		return
	}
	switch c.Via {
	case "Array":
		a := col.Array[tagged](n).MakeFromArray(in)
		a.ReverseValues()
		x := a.AsArray()
		a.ShuffleValues()
		if v := checkPerm("Array.ShuffleValues", a.AsArray()); v != nil {
			res.Violation = v
			return
		}
		got = x
	case "List":
		src := col.Array[tagged](n).MakeFromArray(in)
		l := col.List[tagged](n).MakeFromSequence(src)
		l.ReverseValues()
		x := l.AsArray()
		l.ShuffleValues()
		if fmt.Sprint(src.AsArray()) != fmt.Sprint(in) {
			res.Violation = core.Violate("C09/List/reordered-its-source", "reversing and shuffling a List made from an Array changed the Array: %v -> %v", in, src.AsArray())
			return
		}
		if v := checkPerm("List.ShuffleValues", l.AsArray()); v != nil {
			res.Violation = v
			return
		}
		got = x
	case "Catalog":
		cat := col.Catalog[int, tagged](n).Make()
		for i, x := range in {
			cat.SetValue(i, x)
		}
		lookAtCatalog(cat)
		cat.ReverseValues()
		if why := lookAtCatalog(cat); why != "" {
			res.Violation = core.Violate("C09/Catalog/views-disagree", "after ReverseValues on a catalog of %d associations: %s", len(in), why)
			return
		}
		got = nil
		for _, a := range cat.AsArray() {
			got = append(got, a.GetValue())
		}
		cat.ShuffleValues()
		if why := lookAtCatalog(cat); why != "" {
			res.Violation = core.Violate("C09/Catalog/views-disagree", "after ShuffleValues on a catalog of %d associations: %s", len(in), why)
			return
		}
		var after []tagged
		for _, a := range cat.AsArray() {
			if a.GetKey() != a.GetValue().Pos {
				res.Violation = core.Violate("C09/Catalog/mapping-changed", "shuffling a catalog re-paired key %d with %v", a.GetKey(), a.GetValue())
				return
			}
			after = append(after, a.GetValue())
		}
		if v := checkPerm("Catalog.ShuffleValues", after); v != nil {
			res.Violation = v
			return
		}
	}
	if c.Via != "sorter" {
		for i := range got {
			if len(got) != len(in) || got[i] != in[len(in)-1-i] {
				res.Violation = core.Violate("C09/"+c.Via+"/ReverseValues", "%s.ReverseValues turned %v into %v", c.Via, in, got)
				return
			}
		}
	}
	sorted := true
	for i := 0; i+1 < len(in); i++ {
		if rank(in[i], in[i+1]) == age.GreaterRank {
			sorted = false
		}
	}
	res.NonTrivial = len(in) >= 2 && (!sorted || !consistent)
	res.Classes = append(res.Classes, "ranker-"+c.Ranker, "via-"+c.Via)
	if c.Shape != "" {
		res.Classes = append(res.Classes, "shape-"+c.Shape)
	}
	return
}

// lookAtCatalog uses every view of the catalog and reports a disagreement between them: the array view,
// the iteration, GetKeys and GetValue must describe the same associations in the same order
func lookAtCatalog(cat col.CatalogLike[int, tagged]) string {
	arr := cat.AsArray()
	keys := cat.GetKeys().AsArray()
	walked := walk(cat.GetIterator())
	if len(keys) != len(arr) || len(walked) != len(arr) || cat.GetSize() != len(arr) {
		return fmt.Sprintf("sizes differ: AsArray %d, GetKeys %d, iteration %d, GetSize %d", len(arr), len(keys), len(walked), cat.GetSize())
	}
	for i, a := range arr {
		if keys[i] != a.GetKey() {
			return fmt.Sprintf("GetKeys[%d] = %d but AsArray[%d] has key %d", i+1, keys[i], i+1, a.GetKey())
		}
		if walked[i].GetKey() != a.GetKey() {
			return fmt.Sprintf("iteration[%d] has key %d but AsArray[%d] has key %d", i+1, walked[i].GetKey(), i+1, a.GetKey())
		}
		if cat.GetValue(a.GetKey()) != a.GetValue() {
			return fmt.Sprintf("GetValue(%d) = %v but AsArray pairs the key with %v", a.GetKey(), cat.GetValue(a.GetKey()), a.GetValue())
		}
	}
	return ""
}

func genSortExhaustive(maxLen int, rankers []string) func(core.Source) sortCase {
	return func(s core.Source) sortCase {
		c := sortCase{Ranker: core.Pick(s, rankers, "ranker"), Via: "sorter", Keys: []int{}}
		if c.Ranker == "random" {
			c.Salt = 12345
		}
		n := s.Choose(maxLen+1, "len")
		for i := 0; i < n; i++ {
			c.Keys = append(c.Keys, s.Choose(4, "key"))
		}
		return c
	}
}

func genSortRandom(maxLen int) func(core.Source) sortCase {
	return func(s core.Source) sortCase {
		c := sortCase{Ranker: core.Pick(s, append(append([]string{}, consistentRankers...), inconsistentRankers...), "ranker")}
		c.Via = core.Pick(s, []string{"sorter", "Array", "List", "Catalog"}, "via")
		if c.Ranker == "random" {
			c.Salt = s.Bits("salt")
		}
		// lengths cluster around powers of two +-1 (merge widths), plus free lengths
		var n int
		if s.Choose(2, "lenclass") == 0 {
			p := 1 << s.Choose(13, "pow")
			n = p - 1 + s.Choose(3, "off")
		} else {
			n = int(s.Int(0, int64(maxLen), "len"))
		}
		if n > maxLen {
			n = maxLen
		}
		if c.Via == "Catalog" && n > 300 {
			n = n % 300 // catalog operations are quadratic
		}
		if c.Via == "List" && n > 2000 {
			n = n % 2000
		}
		c.Shape = core.Pick(s, []string{"random", "dups", "sorted", "reversed", "sawtooth", "organpipe", "sorted-but-last", "sorted-but-first", "sorted-but-one"}, "shape")
		seed := s.Bits("fill")
		c.Keys = make([]int, n)
		for i := range c.Keys {
			switch c.Shape {
			case "random":
				c.Keys[i] = int(core.Mix(seed+uint64(i)) % 100000)
			case "dups":
				c.Keys[i] = int(core.Mix(seed+uint64(i)) % 5)
			case "sorted":
				c.Keys[i] = i / 3
			case "sorted-but-last", "sorted-but-first", "sorted-but-one":
				// in order except for a single value: the last, the first, or one somewhere (a sorted collection
				// that got one more value, the case an "already sorted?" shortcut must not get wrong)
				c.Keys[i] = 10 + i/2
				odd := n - 1
				if c.Shape == "sorted-but-first" {
					odd = 0
				} else if c.Shape == "sorted-but-one" {
					odd = int(seed % uint64(n))
				}
				if i == odd {
					c.Keys[i] = int(seed>>8) % (10 + n/2 + 5)
				}
			case "reversed":
				c.Keys[i] = (n - i) / 2
			case "sawtooth":
				c.Keys[i] = i % 7
			case "organpipe":
				if i < n/2 {
					c.Keys[i] = i
				} else {
					c.Keys[i] = n - i
				}
			}
		}
		return c
	}
}

var farInts = []int{math.MinInt64, math.MinInt64 + 1, math.MaxInt64, math.MaxInt64 - 1, -1, 0, 1, math.MinInt32, math.MaxInt32, -1 << 62, 1 << 62}

// the default ranker (natural order through the collator) on plain ints and strings
type defaultSortCase struct {
	Keys []int  `json:"keys"`
	Elem string `json:"elem"`
}

func execDefaultSort(c defaultSortCase, _ core.Source) (res core.Result) {
	check := func(asc func(i int) bool, n int, what string) {
		for i := 0; i+1 < n; i++ {
			if !asc(i) {
				res.Violation = core.Violate("C09/default-ranker/not-ascending", "%s: the default ranker left position %d out of order for keys %v", what, i+1, c.Keys)
				return
			}
		}
	}
	if c.Elem == "int" {
		a := append([]int{}, c.Keys...)
		age.Sorter[int]().Make().SortValues(a)
		check(func(i int) bool { return a[i] <= a[i+1] }, len(a), "Sorter[int].Make()")
		cnt := map[int]int{}
		for _, k := range c.Keys {
			cnt[k]++
		}
		for _, k := range a {
			cnt[k]--
		}
		for k, d := range cnt {
			if d != 0 {
				res.Violation = core.Violate("C09/default-ranker/not-a-permutation", "Sorter[int].Make().SortValues(%v) = %v (value %d)", c.Keys, a, k)
				return
			}
		}
		// the Go array that is sorted may be a window of a longer one (a row of a flat matrix, the first page of
		// a table): what lies behind the window is not the sorter's to touch
		for _, spare := range []int{1, len(c.Keys) / 2, len(c.Keys), 2*len(c.Keys) + 3} {
			whole := make([]int, len(c.Keys)+spare)
			copy(whole, c.Keys)
			for i := len(c.Keys); i < len(whole); i++ {
				whole[i] = 9000 + i
			}
			window := whole[:len(c.Keys)]
			age.Sorter[int]().Make().SortValues(window)
			if fmt.Sprint(window) != fmt.Sprint(a) {
				res.Violation = core.Violate("C09/window/not-sorted", "sorting the first %d values of a Go array of %d gave %v, expected %v", len(c.Keys), len(whole), window, a)
				return
			}
			for i := len(c.Keys); i < len(whole); i++ {
				if whole[i] != 9000+i {
					res.Violation = core.Violate("C09/window/wrote-outside", "sorting the first %d values of a Go array of %d changed value %d behind them from %d to %d", len(c.Keys), len(whole), i+1, 9000+i, whole[i])
					return
				}
			}
		}
		l := col.List[int](lib.Notation()).MakeFromArray(c.Keys)
		l.SortValues()
		if fmt.Sprint(l.AsArray()) != fmt.Sprint(a) {
			res.Violation = core.Violate("C09/List/differs-from-sorter", "List.SortValues() gave %v, the default sorter gives %v", l.AsArray(), a)
			return
		}
		arr := col.Array[int](lib.Notation()).MakeFromArray(c.Keys)
		arr.SortValues()
		if fmt.Sprint(arr.AsArray()) != fmt.Sprint(a) {
			res.Violation = core.Violate("C09/Array/differs-from-sorter", "Array.SortValues() gave %v, the default sorter gives %v", arr.AsArray(), a)
			return
		}
	} else {
		a := make([]string, len(c.Keys))
		for i, k := range c.Keys {
			a[i] = strOfCode(k)
		}
		age.Sorter[string]().Make().SortValues(a)
		check(func(i int) bool { return a[i] <= a[i+1] }, len(a), "Sorter[string].Make()")
	}
	res.NonTrivial = len(c.Keys) >= 2
	return
}

// ---- other element types: values that Go's == calls equal although they differ (-0.0 and +0.0), values
// that cannot be compared with == at all (slices), pointers, strings, and the mixed "any" values.
// Every element is identified by something the sorter cannot see (bit pattern, backing array), so that a
// value that was lost, duplicated or overwritten by an equal-looking one shows.
type elemSortCase struct {
	Elem   string `json:"elem"`   // float64 slice ptr string any
	Ranker string `json:"ranker"` // by-class reversed constant default
	Via    string `json:"via"`    // sorter List Array
	Keys   []int  `json:"keys"`
}

var floatPool = []float64{math.Copysign(0, -1), 0, 1.5, -2, math.Inf(1), 3}

func floatClass(f float64) int {
	switch {
	case f == 0:
		return 2
	case f == -2:
		return 1
	case f == 1.5:
		return 3
	case f == 3:
		return 4
	}
	return 5
}

func execElemSort(c elemSortCase, _ core.Source) core.Result {
	switch c.Elem {
	case "float64":
		vals := make([]float64, len(c.Keys))
		for i, k := range c.Keys {
			vals[i] = floatPool[k%len(floatPool)]
		}
		return elemSort(c, vals, func(f float64) any { return math.Float64bits(f) }, floatClass, func(a, b float64) bool { return a <= b })
	case "slice":
		vals := make([][]int, len(c.Keys))
		for i, k := range c.Keys {
			vals[i] = []int{k % 4}
		}
		return elemSort(c, vals, func(x []int) any { return &x[0] }, func(x []int) int { return x[0] }, func(a, b []int) bool { return a[0] <= b[0] })
	case "ptr":
		vals := make([]*int, len(c.Keys))
		for i, k := range c.Keys {
			vals[i] = cell(1 + k%4) // the same pointer occurs several times
		}
		return elemSort(c, vals, func(p *int) any { return p }, func(p *int) int { return *p }, func(a, b *int) bool { return *a <= *b })
	case "string":
		vals := make([]string, len(c.Keys))
		for i, k := range c.Keys {
			vals[i] = strOfCode(k % 5)
		}
		return elemSort(c, vals, func(x string) any { return x }, func(x string) int { return len(x)*10 + int((x + "\x00")[0]) }, func(a, b string) bool { return a <= b })
	default:
		vals := make([]any, len(c.Keys))
		for i, k := range c.Keys {
			vals[i] = encAny(k % 12)
		}
		ident := func(x any) any {
			if sl, ok := x.([]int); ok {
				if len(sl) == 0 {
					return "nil-slice"
				}
				return &sl[0]
			}
			return x
		}
		return elemSort(c, vals, ident, decAny, nil)
	}
}

func elemSort[E any](c elemSortCase, in []E, ident func(E) any, class func(E) int, natural func(a, b E) bool) (res core.Result) {
	n := lib.Notation()
	var rank age.RankingFunction[E]
	var ordered func(a, b E) bool // a may stand before b
	switch c.Ranker {
	case "by-class":
		rank = func(a, b E) age.Rank { return rankOfInts(class(a), class(b)) }
		ordered = func(a, b E) bool { return class(a) <= class(b) }
	case "reversed":
		rank = func(a, b E) age.Rank { return rankOfInts(class(b), class(a)) }
		ordered = func(a, b E) bool { return class(a) >= class(b) }
	case "constant":
		rank = func(a, b E) age.Rank { return age.EqualRank }
	default:
		ordered = natural
	}
	desc := fmt.Sprintf("%s sorting %d %s values with the %s ranker", c.Via, len(in), c.Elem, c.Ranker)
	work := append([]E{}, in...)
	var out []E
	p, payload := lib.Call(func() {
		switch c.Via {
		case "sorter":
			if rank == nil {
				age.Sorter[E]().Make().SortValues(work)
			} else {
				age.Sorter[E]().MakeWithRanker(rank).SortValues(work)
			}
			out = work
		case "List":
			l := col.List[E](n).MakeFromArray(work)
			if rank == nil {
				l.SortValues()
			} else {
				l.SortValuesWithRanker(rank)
			}
			out = l.AsArray()
		default:
			a := col.Array[E](n).MakeFromArray(work)
			if rank == nil {
				a.SortValues()
			} else {
				a.SortValuesWithRanker(rank)
			}
			out = a.AsArray()
		}
	})
	if p {
		res.Violation = core.Violate("C09/elements/panicked/"+c.Elem, "%s panicked: %s", desc, lib.Short(payload))
		return
	}
	count := map[any]int{}
	for _, x := range in {
		count[ident(x)]++
	}
	ok := len(out) == len(in)
	for _, x := range out {
		count[ident(x)]--
	}
	for _, d := range count {
		ok = ok && d == 0
	}
	if !ok {
		res.Violation = core.Violate("C09/elements/not-a-permutation/"+c.Elem, "%s turned %v into %v: a value was lost, duplicated or replaced by one that only looks equal", desc, in, out)
		return
	}
	if ordered != nil {
		for i := 0; i+1 < len(out); i++ {
			if !ordered(out[i], out[i+1]) {
				res.Violation = core.Violate("C09/elements/not-ascending/"+c.Elem, "%s left %v before %v: %v -> %v", desc, out[i], out[i+1], in, out)
				return
			}
		}
	}
	// reversing and shuffling the same values
	rev := append([]E{}, in...)
	age.Sorter[E]().MakeWithRanker(func(a, b E) age.Rank { return age.EqualRank }).ReverseValues(rev)
	for i := range rev {
		if ident(rev[i]) != ident(in[len(in)-1-i]) {
			res.Violation = core.Violate("C09/elements/ReverseValues/"+c.Elem, "ReverseValues(%v) = %v", in, rev)
			return
		}
	}
	classes := map[int]bool{}
	for _, x := range in {
		classes[class(x)] = true
	}
	res.NonTrivial = len(in) >= 2 && len(classes) >= 2
	res.Classes = append(res.Classes, "elem-"+c.Elem, "ranker-"+c.Ranker, "via-"+c.Via)
	return
}

func genElemSort(maxLen int) func(core.Source) elemSortCase {
	return func(s core.Source) elemSortCase {
		c := elemSortCase{Elem: core.Pick(s, []string{"float64", "slice", "ptr", "string", "any"}, "elem"), Via: core.Pick(s, []string{"sorter", "sorter", "List", "Array"}, "via"), Keys: []int{}}
		rankers := []string{"by-class", "reversed", "constant", "default"}
		if c.Elem == "any" || c.Elem == "slice" || c.Elem == "ptr" {
			// the natural order is defined for values of one ordered type
			rankers = rankers[:3]
		}
		c.Ranker = core.Pick(s, rankers, "ranker")
		n := s.Choose(maxLen+1, "len")
		for i := 0; i < n; i++ {
			c.Keys = append(c.Keys, s.Choose(12, "key"))
		}
		return c
	}
}

func TestC09(t *testing.T) {
	r := core.Begin(t, "C09")
	defer r.End()
	all := append(append([]string{}, consistentRankers...), inconsistentRankers...)
	core.DFS(r, core.Check[sortCase]{Name: "all-small-arrays", Gen: genSortExhaustive(r.N(7, 9), all), Exec: execSortCase, NoJournal: true}, 0)
	core.Rapid(r, core.Check[sortCase]{Name: "random-arrays", Gen: genSortRandom(5000), Exec: execSortCase}, r.N(600, 5000))
	core.DFS(r, core.Check[catalogSortCase]{Name: "catalog-default-sort", Gen: func(s core.Source) catalogSortCase {
		return catalogSortCase{Keys: core.Pick(s, []string{"float64", "pointer"}, "keys"), Order: enumOrderedSubset(s, 4, "key")}
	}, Exec: execCatalogSort, NoJournal: true}, 0)
	core.Rapid(r, core.Check[elemSortCase]{Name: "element-types", Gen: genElemSort(24), Exec: execElemSort}, r.N(3000, 30000))
	core.Rapid(r, core.Check[resortCase]{Name: "values-that-change-between-sorts", Gen: genResort, Exec: execResort}, r.N(1500, 15000))
	core.DFS(r, core.Check[hugeCase]{Name: "huge-sizes", Gen: genHuge([]string{"Sorter", "Array"}, hugeSizes), Exec: execHuge("C09"), NoJournal: true, HangLimit: 300 * time.Second}, 0)
	core.Rapid(r, core.Check[defaultSortCase]{Name: "default-ranker", Gen: func(s core.Source) defaultSortCase {
		c := defaultSortCase{Elem: core.Pick(s, []string{"int", "string"}, "elem"), Keys: []int{}}
		n := s.Choose(40, "len")
		// a third of the int cases hold values from both ends of the int64 range next to small ones: a
		// ranker that subtracts instead of comparing is right for every pair less than 2^63 apart
		far := c.Elem == "int" && s.Choose(3, "far") == 0
		for i := 0; i < n; i++ {
			if far && s.Choose(2, "extreme") == 0 {
				c.Keys = append(c.Keys, core.Pick(s, farInts, "key"))
			} else {
				c.Keys = append(c.Keys, int(s.Int(-5, 60, "key")))
			}
		}
		if c.Elem == "string" {
			for i := range c.Keys {
				if c.Keys[i] < 0 {
					c.Keys[i] = -c.Keys[i]
				}
			}
		}
		return c
	}, Exec: execDefaultSort}, r.N(500, 5000))
}

// ---------------------------------------------------------------- Catalog.SortValues() over keys that are hard to look up

// Sorting a catalog with the default ranker has the effect the default sorter has on the equivalent Go array of
// associations -- also when a key is not equal to itself (NaN: the association cannot be found again through
// the key index) or when two different keys rank as equal (pointers to equal numbers: the values decide).
type catalogSortCase struct {
	Keys  string `json:"keys"` // float64 | pointer
	Order []int  `json:"order"`
}

func execCatalogSort(c catalogSortCase, _ core.Source) core.Result {
	if c.Keys == "float64" {
		return catalogSort(c, []float64{math.NaN(), 2, -1, math.Float64frombits(0x7ff8000000000002), 0, 1e300}, func(k float64) string { return fmt.Sprintf("%v#%x", k, math.Float64bits(k)) })
	}
	return catalogSort(c, ptrKeys[:6], func(k *int) string { return fmt.Sprintf("&%d@%p", *k, k) })
}

func catalogSort[K comparable](c catalogSortCase, pool []K, show func(K) string) (res core.Result) {
	n := lib.Notation()
	cat := col.Catalog[K, int](n).Make()
	for i, k := range c.Order {
		cat.SetValue(pool[k], 10-i) // later keys hold smaller values
	}
	before := cat.AsArray()
	ref := append([]col.AssociationLike[K, int]{}, before...)
	age.Sorter[col.AssociationLike[K, int]]().Make().SortValues(ref)
	describe := func(xs []col.AssociationLike[K, int]) string {
		out := []string{}
		for _, x := range xs {
			if x == nil {
				out = append(out, "<nil>")
			} else {
				out = append(out, fmt.Sprintf("%s:%d", show(x.GetKey()), x.GetValue()))
			}
		}
		return fmt.Sprint(out)
	}
	if p, payload := lib.Call(func() { cat.SortValues() }); p {
		res.Violation = core.Violate("C09/Catalog/default-sort-panicked", "SortValues() of the catalog %s panicked: %s", describe(before), lib.Short(payload))
		return
	}
	got := cat.AsArray()
	if describe(got) != describe(ref) {
		res.Violation = core.Violate("C09/Catalog/default-sort-differs-from-sorter", "SortValues() turned the catalog %s into %s, the default sorter turns the same associations into %s", describe(before), describe(got), describe(ref))
		return
	}
	res.NonTrivial = len(c.Order) >= 2
	res.Classes = append(res.Classes, "keys-"+c.Keys)
	return
}
