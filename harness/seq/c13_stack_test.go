package seq

import (
	"fmt"
	"testing"
	"time"

	age "github.com/craterdog/go-collection-framework/v4/agent"
	col "github.com/craterdog/go-collection-framework/v4/collection"
	"verifharness/core"
	"verifharness/lib"
)

// ---------------------------------------------------------------- C13: Stack is LIFO and bounded

type stackOp struct {
	Kind  string `json:"k"` // push pop clear view
	Val   int    `json:"v,omitempty"`
	Quiet bool   `json:"q,omitempty"` // no observation after this operation (a stale cached view survives only unobserved changes)
}

type stackCase struct {
	Ctor string    `json:"ctor"`           // make cap array seq
	Elem string    `json:"elem,omitempty"` // element type (codec): int any string slice ptr
	Cap  uint      `json:"cap,omitempty"`
	Init []int     `json:"init,omitempty"`
	Ops  []stackOp `json:"ops"`
}

func walk[V any](it age.IteratorLike[V]) []V {
	var out []V
	for it.HasNext() {
		out = append(out, it.GetNext())
	}
	return out
}

func genStackCase(s core.Source) stackCase {
	var c stackCase
	c.Ctor = core.Pick(s, []string{"make", "cap", "cap", "array", "seq", "seq-stack", "seq-stack-cap"}, "ctor")
	switch c.Ctor {
	case "cap":
		c.Cap = uint(s.Int(1, 4, "capacity"))
	case "seq-stack-cap":
		// the source is a small stack filled to its capacity
		c.Cap = uint(s.Int(1, 4, "capacity"))
		for i := uint(0); i < c.Cap; i++ {
			c.Init = append(c.Init, int(i)+100)
		}
	case "array", "seq", "seq-stack":
		// 0 .. 2*default+1 initial values, biased to the capacity boundary
		var n int64
		switch s.Choose(4, "initclass") {
		case 0:
			n = s.Int(0, 3, "n")
		case 1:
			n = s.Int(14, 18, "n")
		case 2:
			n = s.Int(0, 33, "n")
		default:
			n = s.Int(30, 33, "n")
		}
		for i := int64(0); i < n; i++ {
			c.Init = append(c.Init, int(i)+100)
		}
	}
	c.Elem = core.Pick(s, codecNames, "elem")
	nops := int(s.Int(1, 40, "nops"))
	// values repeat (the same value may be on the stack several times) or are all different
	repeats := s.Choose(2, "repeats") == 0
	sparse := s.Choose(2, "sparse") == 0 // the views are looked at after some operations only
	// a "mood" makes long runs of pushes or pops likely, so that full and empty
	// are reached whatever the capacity
	next := 1
	for i := 0; i < nops; i++ {
		mood := s.Choose(3, "mood")
		var k string
		switch s.Choose(10, "op") {
		case 0:
			k = "clear"
		case 1, 2:
			k = "view"
		default:
			if mood == 0 {
				k = "pop"
			} else {
				k = "push"
			}
		}
		op := stackOp{Kind: k}
		if sparse && k != "view" {
			op.Quiet = s.Choose(3, "quiet") != 0
		}
		if k == "push" {
			if repeats {
				op.Val = s.Choose(8, "val") // 0..5 are the empty-looking values of the "any" element type
			} else {
				op.Val = next
				next++
			}
		}
		c.Ops = append(c.Ops, op)
	}
	return c
}

func execStackCase(c stackCase, s core.Source) core.Result {
	switch c.Elem {
	case "any":
		return execStack(c, cdAny)
	case "string":
		return execStack(c, cdString)
	case "slice":
		return execStack(c, cdSlice)
	case "ptr":
		return execStack(c, cdPtr)
	}
	return execStack(c, cdInt)
}

func execStack[E any](c stackCase, cd lib.Codec[E]) core.Result {
	var res core.Result
	class := col.Stack[E](lib.Notation())
	def := class.DefaultCapacity()
	var st, source col.StackLike[E]
	var model []int // top first
	capacity := def
	panicked, payload := lib.Call(func() {
		switch c.Ctor {
		case "make":
			st = class.Make()
		case "cap":
			st = class.MakeWithCapacity(c.Cap)
			capacity = c.Cap
		case "array":
			// the Go array stays the caller's: it is overwritten right after the call (a scratch buffer reused)
			arg := encAll(cd, c.Init)
			if len(arg) == 0 && len(c.Ops)%2 == 0 {
				arg = nil // an empty Go array comes as an allocated empty one or as nil, in turn
			}
			st = class.MakeFromArray(arg)
			for i := range arg {
				arg[i] = cd.Enc(-5)
			}
		case "seq":
			arg := col.List[E](lib.Notation()).MakeFromArray(encAll(cd, c.Init))
			st = class.MakeFromSequence(arg)
			for i := 1; i <= arg.GetSize(); i++ {
				arg.SetValue(i, cd.Enc(-5))
			}
		case "seq-stack":
			source = class.MakeFromArray(encAll(cd, c.Init))
			st = class.MakeFromSequence(source)
		case "seq-stack-cap":
			source = class.MakeWithCapacity(c.Cap)
			for i := len(c.Init) - 1; i >= 0; i-- {
				source.AddValue(cd.Enc(c.Init[i]))
			}
			st = class.MakeFromSequence(source)
		}
	})
	model = append(model, c.Init...)
	if panicked {
		if uint(len(c.Init)) > def {
			// A constructor may refuse more values than it has room for.
			res.Classes = append(res.Classes, "ctor-refused-overfull")
			return res
		}
		res.Violation = core.Violate("C13/ctor/panic", "constructor %s with %d initial values panicked: %s", c.Ctor, len(c.Init), lib.Short(payload))
		return res
	}
	capacity = st.GetCapacity()
	if c.Ctor == "cap" && capacity != c.Cap {
		res.Violation = core.Violate("C13/ctor/capacity", "MakeWithCapacity(%d) reports capacity %d", c.Cap, capacity)
		return res
	}
	if uint(len(c.Init)) > def {
		res.Classes = append(res.Classes, "ctor-more-than-default-capacity")
	}
	reachedFull, reachedEmpty := false, false
	check := func(step int, what string) *core.Violation {
		size := st.GetSize()
		if uint(size) > st.GetCapacity() {
			return core.Violate("C13/size-exceeds-capacity", "after %s (step %d): size %d > capacity %d", what, step, size, st.GetCapacity())
		}
		if st.GetCapacity() != capacity {
			return core.Violate("C13/capacity-changed", "after %s (step %d): capacity changed from %d to %d", what, step, capacity, st.GetCapacity())
		}
		if size != len(model) || st.IsEmpty() != (len(model) == 0) {
			return core.Violate("C13/size", "after %s (step %d): size %d empty %v, model size %d", what, step, size, st.IsEmpty(), len(model))
		}
		if arr := decAll(cd, st.AsArray()); !lib.EqInts(arr, model) {
			return core.Violate("C13/view", "after %s (step %d): AsArray %v, model (top first) %v", what, step, arr, model)
		}
		if w := decAll(cd, walk(st.GetIterator())); !lib.EqInts(w, model) {
			return core.Violate("C13/iteration", "after %s (step %d): iteration %v, model (top first) %v", what, step, w, model)
		}
		// two traversals at once (a nested loop over the same stack, a print of the stack inside a loop): every one
		// of them lists all values from the top down
		outer := st.GetIterator()
		var seen []int
		for outer.HasNext() {
			seen = append(seen, cd.Dec(outer.GetNext()))
			if inner := decAll(cd, walk(st.GetIterator())); !lib.EqInts(inner, model) {
				return core.Violate("C13/iteration/nested", "after %s (step %d): a traversal started while another one was under way listed %v, model (top first) %v", what, step, inner, model)
			}
			_ = st.AsArray()
		}
		if !lib.EqInts(seen, model) && !(len(seen) == 0 && len(model) == 0) {
			return core.Violate("C13/iteration/nested", "after %s (step %d): a traversal during which the stack was traversed again listed %v, model (top first) %v", what, step, seen, model)
		}
		if uint(len(model)) == capacity {
			reachedFull = true
		}
		if len(model) == 0 {
			reachedEmpty = true
		}
		return nil
	}
	if v := check(-1, "constructor "+c.Ctor); v != nil {
		res.Violation = v
		return res
	}
	for i, op := range c.Ops {
		switch op.Kind {
		case "push":
			full := uint(len(model)) >= capacity
			p, _ := lib.Call(func() { st.AddValue(cd.Enc(op.Val)) })
			if full && !p {
				res.Violation = core.Violate("C13/push-on-full-returned", "step %d: AddValue on a full stack (size %d, capacity %d) returned", i, len(model), capacity)
				return res
			}
			if !full && p {
				res.Violation = core.Violate("C13/push-panicked", "step %d: AddValue on a stack with room (size %d, capacity %d) panicked", i, len(model), capacity)
				return res
			}
			if !p {
				model = append([]int{op.Val}, model...)
			} else {
				res.Classes = append(res.Classes, "push-on-full")
			}
		case "pop":
			var got int
			p, _ := lib.Call(func() { got = cd.Dec(st.RemoveTop()) })
			if len(model) == 0 {
				if !p {
					res.Violation = core.Violate("C13/pop-on-empty-returned", "step %d: RemoveTop on an empty stack returned %d", i, got)
					return res
				}
				res.Classes = append(res.Classes, "pop-on-empty")
			} else {
				if p {
					res.Violation = core.Violate("C13/pop-panicked", "step %d: RemoveTop on a non-empty stack panicked", i)
					return res
				}
				if got != model[0] {
					res.Violation = core.Violate("C13/lifo", "step %d: RemoveTop returned %d, the most recently added value is %d", i, got, model[0])
					return res
				}
				model = model[1:]
			}
		case "clear":
			st.RemoveAll()
			model = nil
		case "view":
		}
		if op.Quiet && i+1 < len(c.Ops) {
			continue
		}
		if v := check(i, op.Kind); v != nil {
			res.Violation = v
			return res
		}
	}
	if source != nil {
		// the stack it was constructed from is a collection of its own: untouched by the history above,
		// and changing it now must not reach the new stack
		if arr := decAll(cd, source.AsArray()); !lib.EqInts(arr, c.Init) || uint(source.GetSize()) > source.GetCapacity() {
			res.Violation = core.Violate("C13/ctor/shares-source", "operations on a stack made by MakeFromSequence(stack) changed the source stack: %v (size %d, capacity %d), it held %v", arr, source.GetSize(), source.GetCapacity(), c.Init)
			return res
		}
		before := decAll(cd, st.AsArray())
		lib.Call(func() { source.RemoveTop() })
		lib.Call(func() { source.AddValue(cd.Enc(-1)) })
		source.RemoveAll()
		if arr := decAll(cd, st.AsArray()); !lib.EqInts(arr, before) {
			res.Violation = core.Violate("C13/ctor/shares-source", "changing the source stack changed the stack made from it: %v -> %v", before, arr)
			return res
		}
	}
	res.NonTrivial = reachedFull || reachedEmpty
	if reachedFull {
		res.Classes = append(res.Classes, "reached-full")
	}
	if reachedEmpty {
		res.Classes = append(res.Classes, "reached-empty")
	}
	res.Classes = append(res.Classes, "ctor-"+c.Ctor, "elem-"+cd.Name)
	return res
}

// exhaustive push/pop words for small capacities
type stackWord struct {
	Cap  uint   `json:"cap"`
	Word string `json:"word"`           // u = push, o = pop
	Dup  bool   `json:"dup,omitempty"`  // pushed values repeat with period 2
	Look int    `json:"look,omitempty"` // 0: the views are checked after every operation; k: after every k-th operation and at the end
}

func genStackWord(maxLen int) func(core.Source) stackWord {
	return func(s core.Source) stackWord {
		w := stackWord{Cap: uint(1 + s.Choose(3, "cap")), Dup: s.Choose(2, "dup") == 1, Look: s.Choose(3, "look")}
		n := s.Choose(maxLen+1, "len")
		b := make([]byte, n)
		for i := range b {
			b[i] = "uo"[s.Choose(2, "op")]
		}
		w.Word = string(b)
		return w
	}
}

func execStackWord(w stackWord, s core.Source) core.Result {
	c := stackCase{Ctor: "cap", Cap: w.Cap}
	for i, ch := range w.Word {
		if ch == 'u' {
			v := i + 1
			if w.Dup {
				v = 1 + i%2
			}
			c.Ops = append(c.Ops, stackOp{Kind: "push", Val: v})
		} else {
			c.Ops = append(c.Ops, stackOp{Kind: "pop"})
		}
		if w.Look > 0 && (i+1)%(w.Look+1) != 0 {
			c.Ops[len(c.Ops)-1].Quiet = true
		}
	}
	return execStackCase(c, s)
}

// every constructor size 0..2*default+1, followed by one push and pops to empty
type stackCtorCase struct {
	Ctor string `json:"ctor"`
	N    int    `json:"n"`
}

func TestC13(t *testing.T) {
	r := core.Begin(t, "C13")
	defer r.End()
	core.DFS(r, core.Check[largeCase]{Name: "large-sizes", Gen: genLarge([]string{"Stack"}), Exec: execLarge("C13"), NoJournal: true}, 0)
	core.Rapid(r, core.Check[stackCase]{Name: "history", Gen: genStackCase, Exec: execStackCase}, r.N(3000, 30000))
	core.DFS(r, core.Check[stackWord]{Name: "words", Gen: genStackWord(r.N(9, 12)), Exec: execStackWord, NoJournal: true}, 0)
	core.DFS(r, core.Check[longLivedCase]{Name: "long-lived-instance", Gen: genLongLived([]string{"Stack"}, r.N(150000, 1200000)), Exec: execLongLived("C13"), NoJournal: true, HangLimit: 300 * time.Second}, 0)
	core.DFS(r, core.Check[lookupCase]{Name: "class-lookups", Gen: genLookups([]string{"Stack"}), Exec: execLookups("C13"), NoJournal: true}, 0)
	core.DFS(r, core.Check[copiesCase]{Name: "copies-of-one-stack", Gen: genCopies, Exec: execCopies, NoJournal: true}, 0)
	core.DFS(r, core.Check[stackCtorCase]{Name: "ctor-sizes",
		Gen: func(s core.Source) stackCtorCase {
			return stackCtorCase{Ctor: core.Pick(s, []string{"array", "seq"}, "ctor"), N: s.Choose(34, "n")}
		},
		Exec: func(c stackCtorCase, s core.Source) core.Result {
			sc := stackCase{Ctor: c.Ctor}
			for i := 0; i < c.N; i++ {
				sc.Init = append(sc.Init, 100+i)
			}
			sc.Ops = append(sc.Ops, stackOp{Kind: "push", Val: 1}, stackOp{Kind: "push", Val: 2})
			for i := 0; i < c.N+3; i++ {
				sc.Ops = append(sc.Ops, stackOp{Kind: "pop"})
			}
			res := execStackCase(sc, s)
			res.NonTrivial = res.NonTrivial || c.N > 0
			return res
		}}, 0)
	_ = fmt.Sprint
}
