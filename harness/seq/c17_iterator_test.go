package seq

import (
	"fmt"
	"math"
	"sort"
	"strings"
	"testing"
	"time"

	age "github.com/craterdog/go-collection-framework/v4/agent"
	col "github.com/craterdog/go-collection-framework/v4/collection"
	"verifharness/core"
	"verifharness/lib"
)

// ---------------------------------------------------------------- C17: iterators are bidirectional cursors over a snapshot

type itMove struct {
	M string `json:"m"` // next prev start end slot
	K int    `json:"k,omitempty"`
}

type cursorCase struct {
	Size   int      `json:"size"`
	Source string   `json:"source"` // agent | list
	Moves  []itMove `json:"moves"`
}

func genCursorCase(maxSize, maxMoves int, random bool) func(core.Source) cursorCase {
	return func(s core.Source) cursorCase {
		c := cursorCase{Size: s.Choose(maxSize+1, "size"), Source: core.Pick(s, []string{"agent", "list"}, "source")}
		n := s.Choose(maxMoves+1, "nmoves")
		for i := 0; i < n; i++ {
			var m itMove
			if random {
				m.M = core.Pick(s, []string{"next", "next", "prev", "prev", "start", "end", "slot", "slot"}, "move")
			} else {
				m.M = core.Pick(s, []string{"next", "prev", "start", "end", "slot"}, "move")
			}
			if m.M == "slot" {
				m.K = int(s.Int(int64(-c.Size-2), int64(c.Size+2), "k"))
			}
			c.Moves = append(c.Moves, m)
		}
		return c
	}
}

// cursorModel is the abstract cursor: a slot in 0..size over a fixed snapshot.
type cursorModel struct {
	vals     []int
	slot     int
	clampLow int // the slot every ToSlot(k < -size) lands on, once observed (-1 = not yet)
}

// stepCursor applies one move to iterator and model and compares everything observable.
func stepCursor(it age.IteratorLike[int], m *cursorModel, mv itMove, step int) (v *core.Violation, classes []string) {
	size := len(m.vals)
	switch mv.M {
	case "next":
		got := it.GetNext()
		want := 0
		if m.slot < size {
			want = m.vals[m.slot]
			m.slot++
		} else {
			classes = append(classes, "next-at-end")
		}
		if got != want {
			return core.Violate("C17/GetNext/value", "step %d: GetNext returned %d, expected %d (slot now %d of %d)", step, got, want, m.slot, size), classes
		}
	case "prev":
		got := it.GetPrevious()
		want := 0
		if m.slot > 0 {
			want = m.vals[m.slot-1]
			m.slot--
		} else {
			classes = append(classes, "prev-at-start")
		}
		if got != want {
			return core.Violate("C17/GetPrevious/value", "step %d: GetPrevious returned %d, expected %d (slot now %d of %d)", step, got, want, m.slot, size), classes
		}
	case "start":
		it.ToStart()
		m.slot = 0
	case "end":
		it.ToEnd()
		m.slot = size
	case "slot":
		it.ToSlot(mv.K)
		switch {
		case mv.K > size:
			m.slot = size
			classes = append(classes, "slot-clamped-high")
		case mv.K >= 0:
			m.slot = mv.K
		case mv.K >= -size:
			m.slot = size + 1 + mv.K
			classes = append(classes, "slot-negative")
		default:
			// below -size: "clamps"; the documentation does not say whether to the start (0) or to
			// the slot of -size (1); both are accepted as long as the slot is inside 0..size
			classes = append(classes, "slot-clamped-low")
			got := it.GetSlot()
			if got != 0 && !(got == 1 && size >= 1) {
				return core.Violate("C17/ToSlot/clamp", "step %d: ToSlot(%d) on size %d left slot %d", step, mv.K, size, got), classes
			}
			// clamping maps every slot below the range to one and the same boundary slot
			if m.clampLow >= 0 && got != m.clampLow {
				return core.Violate("C17/ToSlot/clamp-inconsistent", "step %d: ToSlot(%d) on size %d left slot %d, an earlier slot below -size was clamped to %d", step, mv.K, size, got, m.clampLow), classes
			}
			m.clampLow = got
			m.slot = got
		}
	}
	if got := it.GetSlot(); got != m.slot {
		return core.Violate("C17/slot/"+mv.M, "step %d: after %s(%d) slot = %d, expected %d (size %d)", step, mv.M, mv.K, got, m.slot, size), classes
	}
	if it.GetSlot() < 0 || it.GetSlot() > size {
		return core.Violate("C17/slot-out-of-range", "step %d: slot %d outside 0..%d", step, it.GetSlot(), size), classes
	}
	if it.HasNext() != (m.slot < size) || it.HasPrevious() != (m.slot > 0) {
		return core.Violate("C17/has", "step %d: at slot %d of %d HasNext=%v HasPrevious=%v", step, m.slot, size, it.HasNext(), it.HasPrevious()), classes
	}
	if it.GetSize() != size || it.IsEmpty() != (size == 0) {
		return core.Violate("C17/size", "step %d: GetSize %d IsEmpty %v, expected size %d", step, it.GetSize(), it.IsEmpty(), size), classes
	}
	return nil, classes
}

func execCursorCase(c cursorCase, _ core.Source) (res core.Result) {
	vals := make([]int, c.Size)
	for i := range vals {
		vals[i] = 10 + i
	}
	var it age.IteratorLike[int]
	if c.Source == "agent" {
		it = age.Iterator[int]().MakeFromArray(append([]int{}, vals...))
	} else {
		it = col.List[int](lib.Notation()).MakeFromArray(vals).GetIterator()
	}
	m := &cursorModel{vals: vals, clampLow: -1}
	if it.GetSlot() != 0 || it.HasPrevious() || it.HasNext() != (c.Size > 0) || it.GetSize() != c.Size {
		res.Violation = core.Violate("C17/initial", "a new iterator over %d values starts at slot %d, HasNext %v, size %d", c.Size, it.GetSlot(), it.HasNext(), it.GetSize())
		return
	}
	ends := map[string]bool{}
	for i, mv := range c.Moves {
		v, cl := stepCursor(it, m, mv, i)
		res.Classes = append(res.Classes, cl...)
		if v != nil {
			res.Violation = v
			return
		}
		if m.slot == 0 {
			ends["start"] = true
		}
		if m.slot == c.Size {
			ends["end"] = true
		}
		for _, x := range cl {
			if x == "slot-negative" || x == "slot-clamped-low" || x == "slot-clamped-high" {
				ends["slot"] = true
			}
		}
		// GetNext then GetPrevious returns the same value and restores the slot (checked on a clone of the position)
		if mv.M == "next" && i+1 < len(c.Moves) && c.Moves[i+1].M == "prev" {
			res.Classes = append(res.Classes, "next-then-prev")
		}
	}
	res.NonTrivial = c.Size > 0 && ends["start"] && ends["end"] && ends["slot"]
	return
}

// ---------------------------------------------------------------- snapshot part

type snapCase struct {
	Kind      string   `json:"kind"`
	Size      int      `json:"size"`
	Pre       int      `json:"pre"`           // moves of the first iterator before the mutation
	Mutations []string `json:"mutations"`     // names resolved per kind
	Other     []itMove `json:"other"`         // moves of a second iterator in between
	NaN       bool     `json:"nan,omitempty"` // Catalog and Map: the second key is a NaN (a key no lookup finds)
}

var kindMutations = map[string][]string{
	"Array":   {"SetValue", "SetValues", "SortDesc", "Reverse", "Shuffle", "SourceSetValue", "SourceReverse", "ScribbleArrayView"},
	"List":    {"SetValue", "SetValues", "SortDesc", "Reverse", "Shuffle", "InsertFront", "Append", "RemoveFirst", "RemoveLast", "RemoveRange", "RemoveAll", "SourceSetValue", "SourceReverse", "ScribbleArrayView"},
	"Set":     {"AddSmall", "AddLarge", "RemoveFirst", "RemoveLast", "RemoveAll", "ScribbleArrayView"},
	"Stack":   {"Push", "Pop", "RemoveAll", "ScribbleArrayView"},
	"Queue":   {"Add", "RemoveHead", "RemoveAll", "ScribbleArrayView"},
	"Catalog": {"SetNew", "SetExisting", "RemoveFirst", "RemoveLast", "RemoveAll", "SortDesc", "Reverse", "Shuffle", "ScribbleArrayView"},
	"Map":     {"SetNew", "SetExisting", "RemoveFirst", "RemoveAll", "ScribbleArrayView"},
}

var snapKinds = []string{"Array", "List", "Set", "Stack", "Queue", "Catalog", "Map"}

func genSnapCase(maxMut int, random bool) func(core.Source) snapCase {
	return func(s core.Source) snapCase {
		c := snapCase{Kind: core.Pick(s, snapKinds, "kind")}
		c.Size = s.Choose(pickInt(random, 6, 4), "size")
		if c.Kind == "Catalog" || c.Kind == "Map" {
			c.NaN = s.Choose(3, "nan-key") == 0
		}
		c.Pre = s.Choose(c.Size+1, "pre")
		n := 1 + s.Choose(maxMut, "nmut")
		for i := 0; i < n; i++ {
			c.Mutations = append(c.Mutations, core.Pick(s, kindMutations[c.Kind], "mutation"))
		}
		if random {
			k := s.Choose(4, "nother")
			for i := 0; i < k; i++ {
				c.Other = append(c.Other, itMove{M: core.Pick(s, []string{"next", "prev", "end", "start", "slot"}, "om"), K: s.Choose(4, "ok")})
			}
		} else if s.Choose(2, "other") == 1 {
			c.Other = []itMove{{M: "next"}, {M: "end"}}
		}
		return c
	}
}

// snapItem is what an iterator yields, reduced to comparable data: for plain
// collections the value; for catalogs the association object itself (identity);
// for maps the (key, value) pair (a map makes fresh association objects per view).
func intItems(xs []int) []snapItem {
	out := make([]snapItem, len(xs))
	for i, x := range xs {
		out[i] = snapItem{val: x}
	}
	return out
}

type snapItem struct {
	val   int
	key   uint64 // bits of the float64 key
	ident any
}

func execSnapCase(c snapCase, _ core.Source) (res core.Result) {
	n := lib.Notation()
	vals := make([]int, c.Size)
	for i := range vals {
		vals[i] = 10 * (i + 1)
	}
	desc := func(dir string) func(a, b int) age.Rank {
		return func(a, b int) age.Rank { return rankOfInts(b, a) }
	}
	// per kind: how to obtain an iterator as a sequence of snapItems, and how to mutate
	var newIter func() (next func() (snapItem, bool), prev func() (snapItem, bool), size func() int, raw any)
	var mutate func(name string)
	var current func() []snapItem // what the collection holds now, through AsArray
	wrapInt := func(it age.IteratorLike[int]) (func() (snapItem, bool), func() (snapItem, bool), func() int, any) {
		return func() (snapItem, bool) {
				if !it.HasNext() {
					return snapItem{}, false
				}
				return snapItem{val: it.GetNext()}, true
			}, func() (snapItem, bool) {
				if !it.HasPrevious() {
					return snapItem{}, false
				}
				return snapItem{val: it.GetPrevious()}, true
			}, it.GetSize, it
	}
	wrapAssoc := func(it age.IteratorLike[col.AssociationLike[float64, int]], identity bool) (func() (snapItem, bool), func() (snapItem, bool), func() int, any) {
		conv := func(a col.AssociationLike[float64, int]) snapItem {
			if identity {
				return snapItem{ident: a}
			}
			return snapItem{key: math.Float64bits(a.GetKey()), val: a.GetValue()}
		}
		return func() (snapItem, bool) {
				if !it.HasNext() {
					return snapItem{}, false
				}
				return conv(it.GetNext()), true
			}, func() (snapItem, bool) {
				if !it.HasPrevious() {
					return snapItem{}, false
				}
				return conv(it.GetPrevious()), true
			}, it.GetSize, it
	}
	fresh := 1000
	var expected []snapItem // Catalog and Map: the (key, value) pairs the collection was filled with
	switch c.Kind {
	case "Array", "List":
		var arr col.ArrayLike[int]
		var list col.ListLike[int]
		var common interface {
			col.Sequential[int]
			col.Sortable[int]
			col.Updatable[int]
		}
		// the collection is made from a collection of the other kind, which stays a collection of its own:
		// the "Source..." mutations change that source in place and must not reach what the iterators show
		var source interface {
			col.Sequential[int]
			col.Sortable[int]
			col.Updatable[int]
		}
		if c.Kind == "Array" {
			src := col.List[int](n).MakeFromArray(vals)
			arr = col.Array[int](n).MakeFromSequence(src)
			common, source = arr, src
		} else {
			src := col.Array[int](n).MakeFromArray(vals)
			list = col.List[int](n).MakeFromSequence(src)
			common, source = list, src
		}
		newIter = func() (func() (snapItem, bool), func() (snapItem, bool), func() int, any) {
			return wrapInt(common.GetIterator())
		}
		current = func() []snapItem { return intItems(common.AsArray()) }
		mutate = func(name string) {
			size := common.GetSize()
			fresh++
			switch name {
			case "ScribbleArrayView":
				// the Go array a collection hands out is the caller's: it is overwritten (iterators taken before
				// and after it was asked for must not notice)
				view := common.AsArray()
				for i := range view {
					view[i] = -7 - i
				}
				sort.Ints(view)
			case "SetValue":
				if size > 0 {
					common.SetValue(1, fresh)
					common.SetValue(-1, fresh+500)
				}
			case "SetValues":
				if size > 0 {
					common.SetValues(1, col.List[int](n).MakeFromArray([]int{fresh}))
				}
			case "SourceSetValue":
				if source.GetSize() > 0 {
					source.SetValue(1, fresh)
					source.SetValue(-1, fresh+500)
				}
			case "SourceReverse":
				source.ReverseValues()
			case "SortDesc":
				common.SortValuesWithRanker(desc(""))
			case "Reverse":
				common.ReverseValues()
			case "Shuffle":
				common.ShuffleValues()
			case "InsertFront":
				list.InsertValue(0, fresh)
			case "Append":
				list.AppendValue(fresh)
			case "RemoveFirst":
				if size > 0 {
					list.RemoveValue(1)
				}
			case "RemoveLast":
				if size > 0 {
					list.RemoveValue(-1)
				}
			case "RemoveRange":
				if size > 1 {
					list.RemoveValues(1, 2)
				}
			case "RemoveAll":
				list.RemoveAll()
			}
		}
	case "Set":
		set := col.Set[int](n).MakeFromArray(vals)
		newIter = func() (func() (snapItem, bool), func() (snapItem, bool), func() int, any) {
			return wrapInt(set.GetIterator())
		}
		current = func() []snapItem { return intItems(set.AsArray()) }
		mutate = func(name string) {
			fresh++
			switch name {
			case "ScribbleArrayView":
				view := set.AsArray()
				for i := range view {
					view[i] = -7 - i
				}
			case "AddSmall":
				set.AddValue(-fresh)
			case "AddLarge":
				set.AddValue(fresh)
			case "RemoveFirst":
				if set.GetSize() > 0 {
					set.RemoveValue(set.GetValue(1))
				}
			case "RemoveLast":
				if set.GetSize() > 0 {
					set.RemoveValue(set.GetValue(-1))
				}
			case "RemoveAll":
				set.RemoveAll()
			}
		}
	case "Stack":
		st := col.Stack[int](n).MakeFromArray(vals)
		newIter = func() (func() (snapItem, bool), func() (snapItem, bool), func() int, any) {
			return wrapInt(st.GetIterator())
		}
		current = func() []snapItem { return intItems(st.AsArray()) }
		mutate = func(name string) {
			fresh++
			switch name {
			case "ScribbleArrayView":
				view := st.AsArray()
				for i := range view {
					view[i] = -7 - i
				}
			case "Push":
				st.AddValue(fresh)
			case "Pop":
				if st.GetSize() > 0 {
					st.RemoveTop()
				}
			case "RemoveAll":
				st.RemoveAll()
			}
		}
	case "Queue":
		q := col.Queue[int](n).MakeFromArray(vals)
		newIter = func() (func() (snapItem, bool), func() (snapItem, bool), func() int, any) {
			return wrapInt(q.GetIterator())
		}
		current = func() []snapItem { return intItems(q.AsArray()) }
		mutate = func(name string) {
			fresh++
			switch name {
			case "ScribbleArrayView":
				view := q.AsArray()
				for i := range view {
					view[i] = -7 - i
				}
				sort.Ints(view)
			case "Add":
				if q.GetSize() < int(q.GetCapacity()) {
					q.AddValue(fresh)
				}
			case "RemoveHead":
				if q.GetSize() > 0 {
					q.RemoveHead()
				}
			case "RemoveAll":
				q.RemoveAll()
			}
		}
	case "Catalog", "Map":
		var assoc assocLike[float64, int]
		var cat col.CatalogLike[float64, int]
		if c.Kind == "Catalog" {
			cat = col.Catalog[float64, int](n).Make()
			assoc = cat
		} else {
			assoc = col.Map[float64, int](n).Make()
		}
		for i, v := range vals {
			key := float64(i + 1)
			if c.NaN && i == 1 {
				key = math.NaN()
			}
			assoc.SetValue(key, v)
			expected = append(expected, snapItem{key: math.Float64bits(key), val: v})
		}
		newIter = func() (func() (snapItem, bool), func() (snapItem, bool), func() int, any) {
			return wrapAssoc(assoc.GetIterator(), c.Kind == "Catalog")
		}
		current = func() []snapItem {
			var out []snapItem
			for _, a := range assoc.AsArray() {
				if c.Kind == "Catalog" {
					out = append(out, snapItem{ident: a})
				} else {
					out = append(out, snapItem{key: math.Float64bits(a.GetKey()), val: a.GetValue()})
				}
			}
			return out
		}
		mutate = func(name string) {
			fresh++
			keys := assoc.GetKeys().AsArray()
			switch name {
			case "ScribbleArrayView":
				view := assoc.AsArray()
				for i := range view {
					view[i] = view[len(view)-1]
				}
			case "SetNew":
				assoc.SetValue(float64(fresh), fresh)
			case "SetExisting":
				if len(keys) > 0 && c.Kind == "Map" {
					assoc.SetValue(keys[0], fresh)
				} else if len(keys) > 0 {
					// for a catalog this is visible *through* the shared association object, which is
					// reference semantics of the yielded object, not a change of what is yielded
					assoc.SetValue(keys[0], fresh)
				}
			case "RemoveFirst":
				if len(keys) > 0 {
					assoc.RemoveValue(keys[0])
				}
			case "RemoveLast":
				if len(keys) > 0 {
					assoc.RemoveValue(keys[len(keys)-1])
				}
			case "RemoveAll":
				assoc.RemoveAll()
			case "SortDesc":
				cat.SortValuesWithRanker(func(a, b col.AssociationLike[float64, int]) age.Rank { return rankOfInts(b.GetValue(), a.GetValue()) })
			case "Reverse":
				cat.ReverseValues()
			case "Shuffle":
				cat.ShuffleValues()
			}
		}
	}

	// reference enumeration taken from a throw-away iterator obtained at the same moment
	refNext, _, _, _ := newIter()
	var snapshot []snapItem
	for {
		x, ok := refNext()
		if !ok {
			break
		}
		snapshot = append(snapshot, x)
	}
	// the enumeration is the content the collection was given (a map's iteration order is unspecified: as a multiset)
	if c.Kind == "Catalog" || c.Kind == "Map" {
		var got []snapItem
		for _, x := range snapshot {
			if a, ok := x.ident.(col.AssociationLike[float64, int]); ok {
				x = snapItem{key: math.Float64bits(a.GetKey()), val: a.GetValue()}
			}
			got = append(got, x)
		}
		ok := len(got) == len(expected)
		used := make([]bool, len(expected))
		for _, x := range got {
			found := false
			for j, y := range expected {
				if !used[j] && x == y && (c.Kind == "Map" || j == len(used)-countFalse(used)) {
					used[j], found = true, true
					break
				}
			}
			ok = ok && found
		}
		if !ok {
			res.Violation = core.Violate("C17/snapshot/content/"+c.Kind, "%s filled with the (key bits, value) pairs %v: its iterator enumerates %v", c.Kind, expected, got)
			return
		}
	}
	next2, prev2, _, raw2 := newIter()
	next1, prev1, size1, _ := newIter() // the most recently obtained iterator
	var seen []snapItem
	for i := 0; i < c.Pre; i++ {
		x, ok := next1()
		if !ok {
			res.Violation = core.Violate("C17/snapshot/short", "%s: the iterator ended after %d of %d values", c.Kind, i, len(snapshot))
			return
		}
		seen = append(seen, x)
	}
	// a third iterator is obtained while the first rests where it is (possibly at the end) and moved once:
	// obtaining or moving it must not move the first
	next3, _, _, _ := newIter()
	next3()
	mutatedBetween := false
	for i, mname := range c.Mutations {
		if p, payload := lib.Call(func() { mutate(mname) }); p {
			res.Violation = core.Violate("C17/snapshot/mutation-panicked", "%s: mutation %s panicked: %s", c.Kind, mname, lib.Short(payload))
			return
		}
		mutatedBetween = true
		if i == 0 {
			// moves of the second iterator
			if it2, ok := raw2.(age.IteratorLike[int]); ok {
				for _, mv := range c.Other {
					switch mv.M {
					case "next":
						it2.GetNext()
					case "prev":
						it2.GetPrevious()
					case "end":
						it2.ToEnd()
					case "start":
						it2.ToStart()
					case "slot":
						it2.ToSlot(mv.K)
					}
				}
			} else {
				for range c.Other {
					next2()
				}
				_ = prev2
			}
		}
	}
	// the first iterator continues forward to the end, then walks all the way back
	for {
		x, ok := next1()
		if !ok {
			break
		}
		seen = append(seen, x)
		if len(seen) > len(snapshot)+8 {
			break
		}
	}
	var back []snapItem
	for {
		x, ok := prev1()
		if !ok {
			break
		}
		back = append([]snapItem{x}, back...)
		if len(back) > len(snapshot)+8 {
			break
		}
	}
	same := func(a, b []snapItem) bool {
		if len(a) != len(b) {
			return false
		}
		if c.Kind == "Map" {
			used := make([]bool, len(b))
		outer:
			for _, x := range a {
				for j, y := range b {
					if !used[j] && x == y {
						used[j] = true
						continue outer
					}
				}
				return false
			}
			return true
		}
		for i := range a {
			if a[i] != b[i] {
				return false
			}
		}
		return true
	}
	show := func(xs []snapItem) string {
		s := "["
		for i, x := range xs {
			if i > 0 {
				s += " "
			}
			if x.ident != nil {
				a := x.ident.(col.AssociationLike[float64, int])
				s += fmt.Sprintf("%v:%d@%p", a.GetKey(), a.GetValue(), a)
			} else if c.Kind == "Map" {
				s += fmt.Sprintf("%v:%d", math.Float64frombits(x.key), x.val)
			} else {
				s += fmt.Sprint(x.val)
			}
		}
		return s + "]"
	}
	if size1() != len(snapshot) {
		res.Violation = core.Violate("C17/snapshot/size-changed/"+c.Kind, "%s after %v: the iterator's size is %d, it was obtained over %d values", c.Kind, c.Mutations, size1(), len(snapshot))
		return
	}
	if !same(seen, snapshot) {
		res.Violation = core.Violate("C17/snapshot/forward/"+c.Kind, "%s: iterator obtained over %s yielded %s after the collection was mutated by %v", c.Kind, show(snapshot), show(seen), c.Mutations)
		return
	}
	if len(back) == len(seen) {
		for i := range back {
			if back[i] != seen[i] {
				res.Violation = core.Violate("C17/snapshot/self-inconsistent/"+c.Kind, "%s: walking back yielded %s after walking forward over %s", c.Kind, show(back), show(seen))
				return
			}
		}
	}
	if !same(back, snapshot) {
		res.Violation = core.Violate("C17/snapshot/backward/"+c.Kind, "%s: iterator obtained over %s yielded %s walking back after %v", c.Kind, show(snapshot), show(back), c.Mutations)
		return
	}
	// an iterator obtained now enumerates the collection as it is now (not an older snapshot)
	if current != nil {
		now := current()
		freshNext, _, freshSize, _ := newIter()
		var walked []snapItem
		for {
			x, ok := freshNext()
			if !ok || len(walked) > len(now)+8 {
				break
			}
			walked = append(walked, x)
		}
		onlySource := len(c.Mutations) > 0
		for _, m := range c.Mutations {
			onlySource = onlySource && strings.HasPrefix(m, "Source")
		}
		if onlySource && !same(now, snapshot) {
			res.Violation = core.Violate("C17/collection-follows-its-source/"+c.Kind, "%s made from a collection of another kind: after that source was changed in place (%v) the %s holds %s, it held %s", c.Kind, c.Mutations, c.Kind, show(now), show(snapshot))
			return
		}
		if freshSize() != len(now) || !same(walked, now) {
			res.Violation = core.Violate("C17/fresh-iterator-is-stale/"+c.Kind, "%s after %v: an iterator obtained now yields %s, the collection holds %s", c.Kind, c.Mutations, show(walked), show(now))
			return
		}
	}
	res.NonTrivial = mutatedBetween && c.Size > 0 && c.Pre < c.Size
	res.Classes = append(res.Classes, "kind-"+c.Kind)
	if c.NaN && c.Size >= 2 {
		res.Classes = append(res.Classes, "NaN-key")
	}
	if len(c.Other) > 0 {
		res.Classes = append(res.Classes, "second-iterator-moved")
	}
	return
}

func TestC17(t *testing.T) {
	r := core.Begin(t, "C17")
	defer r.End()
	core.DFS(r, core.Check[cursorCase]{Name: "all-move-sequences", Gen: genCursorCase(4, r.N(4, 6), false), Exec: execCursorCase, NoJournal: true}, 0)
	core.Rapid(r, core.Check[cursorCase]{Name: "random-walks", Gen: genCursorCase(50, 200, true), Exec: execCursorCase}, r.N(1000, 10000))
	core.DFS(r, core.Check[snapCase]{Name: "snapshot-small", Gen: genSnapCase(r.N(2, 3), false), Exec: execSnapCase, NoJournal: true}, 0)
	core.Rapid(r, core.Check[snapCase]{Name: "snapshot-random", Gen: genSnapCase(5, true), Exec: execSnapCase}, r.N(2100, 20000))
	core.DFS(r, core.Check[separateCase]{Name: "separate-collections", Gen: func(s core.Source) separateCase {
		return separateCase{Kind: core.Pick(s, snapKinds, "kind"), Workers: []int{2, 8, 32}[s.Choose(3, "workers")]}
	}, Exec: execSeparateIterators, HangLimit: 180 * time.Second}, 0)
}

func countFalse(xs []bool) int {
	n := 0
	for _, x := range xs {
		if !x {
			n++
		}
	}
	return n
}
