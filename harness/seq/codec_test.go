package seq

import "verifharness/lib"

// local names for the shared codecs (lib/codec.go)
var (
	cdInt      = lib.CdInt
	cdAny      = lib.CdAny
	cdString   = lib.CdString
	cdSlice    = lib.CdSlice
	cdPtr      = lib.CdPtr
	codecNames = lib.CodecNames
	encAny     = lib.EncAny
	decAny     = lib.DecAny
	cell       = lib.Cell
)

func encAll[E any](cd lib.Codec[E], codes []int) []E { return lib.EncAll(cd, codes) }
func decAll[E any](cd lib.Codec[E], vals []E) []int  { return lib.DecAll(cd, vals) }
