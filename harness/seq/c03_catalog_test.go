package seq

import (
	"fmt"
	"math"
	"sort"
	"testing"
	"time"

	age "github.com/craterdog/go-collection-framework/v4/agent"
	col "github.com/craterdog/go-collection-framework/v4/collection"
	"verifharness/core"
	"verifharness/lib"
)

// ---------------------------------------------------------------- C03 (Catalog) and C14 (Map): associative histories

type kv struct {
	K int `json:"k"` // key code 0..7
	V int `json:"v"` // value 0..3 (0 is the zero value)
}

type assocOp struct {
	Op     string `json:"op"`
	K      int    `json:"k,omitempty"`
	V      int    `json:"v,omitempty"`
	Ks     []int  `json:"ks,omitempty"`
	Ranker string `json:"ranker,omitempty"`
	Q      bool   `json:"q,omitempty"` // quiet: the views are not looked at after this operation
}

type assocCase struct {
	Kind string    `json:"kind"` // catalog | map
	Key  string    `json:"key"`
	Val  string    `json:"val,omitempty"` // value type: int (default) any string ptr
	Ctor string    `json:"ctor"`
	Init []kv      `json:"init,omitempty"`
	Ops  []assocOp `json:"ops"`
}

var catalogOps = []string{"SetValue", "SetValue", "SetValue", "GetValue", "GetValues", "GetKeys", "RemoveValue", "RemoveValue", "RemoveValues", "RemoveAll",
	"SortValues", "SortValuesWithRanker", "ReverseValues", "ShuffleValues"}
var mapOps = []string{"SetValue", "SetValue", "SetValue", "GetValue", "GetValues", "GetKeys", "RemoveValue", "RemoveValue", "RemoveValues", "RemoveAll", "RemoveAll/snapshot"}

func genAssocCase(kind string, keyTypes []string, maxOps, nkeys int) func(core.Source) assocCase {
	return func(s core.Source) assocCase {
		c := assocCase{Kind: kind}
		c.Key = core.Pick(s, keyTypes, "key")
		// value types whose zero value is nil or "" next to other "empty-looking" values (0, false, "")
		c.Val = core.Pick(s, []string{"int", "int", "any", "string", "ptr"}, "val")
		c.Ctor = core.Pick(s, []string{"Make", "MakeFromArray", "MakeFromMap", "MakeFromSequence", "MakeFromSequence/catalog", "MakeFromSequence/map"}, "ctor")
		if c.Ctor != "Make" {
			n := s.Choose(7, "ninit")
			c.Init = []kv{}
			for i := 0; i < n; i++ {
				c.Init = append(c.Init, kv{s.Choose(nkeys, "ik"), s.Choose(4, "iv")})
			}
		}
		ops := catalogOps
		if kind == "map" {
			ops = mapOps
		}
		nops := 1 + s.Choose(maxOps, "nops")
		// sparse: the views are looked at after some operations only (a view that is cached and not
		// invalidated by every mutator survives only changes nobody looked at)
		sparse := s.Choose(2, "sparse") == 0
		for i := 0; i < nops; i++ {
			op := assocOp{Op: core.Pick(s, ops, "op")}
			if sparse {
				op.Q = s.Choose(3, "quiet") != 0
			}
			switch op.Op {
			case "SetValue":
				op.K, op.V = s.Choose(nkeys, "k"), s.Choose(4, "v")
			case "GetValue", "RemoveValue":
				op.K = s.Choose(nkeys, "k")
			case "GetValues", "RemoveValues":
				n := s.Choose(5, "nks")
				op.Ks = []int{}
				for k := 0; k < n; k++ {
					op.Ks = append(op.Ks, s.Choose(nkeys, "k"))
				}
			case "SortValuesWithRanker":
				op.Ranker = core.Pick(s, []string{"reversed-key", "by-value"}, "ranker")
			}
			c.Ops = append(c.Ops, op)
		}
		return c
	}
}

type keyType[K comparable] struct {
	keys []K
	less func(a, b K) bool // nil: implementation defined
	show func(k K) string
}

var ptrTargets = []int{7, 7, 9, 9, 1, 1, 7, 3}
var ptrKeys []*int

func init() {
	for i := range ptrTargets {
		v := ptrTargets[i]
		ptrKeys = append(ptrKeys, &v)
	}
}

var (
	ktString = keyType[string]{[]string{"", "a", "b", "ab", "\xe9", "B", "\xe8", "\x00"}, func(a, b string) bool { return a < b }, func(k string) string { return fmt.Sprintf("%q", k) }}
	ktInt    = keyType[int]{[]int{0, 1, -1, 2, math.MaxInt64, math.MinInt64, 7, 3}, func(a, b int) bool { return a < b }, func(k int) string { return fmt.Sprint(k) }}
	ktRune   = keyType[rune]{[]rune{'a', 'b', 0, 'é', '😀', 'A', '\n', 'z'}, func(a, b rune) bool { return a < b }, func(k rune) string { return fmt.Sprintf("%q", k) }}
	ktFloat  = keyType[float64]{[]float64{0, math.Copysign(0, -1), 1.5, -2, 1e300, math.Inf(1), -1e-300, 3}, func(a, b float64) bool { return a < b }, func(k float64) string { return fmt.Sprint(k) }}
	ktAny    = keyType[any]{[]any{"a", int64(1), 1.0, true, nil, 'x', "b", int64(-5)}, nil, func(k any) string { return fmt.Sprintf("%#v", k) }}
	// float keys among which two NaNs (distinct payloads): a NaN never equals any key, itself included, so every
	// SetValue with it adds an association that no lookup finds
	ktNaN = keyType[float64]{[]float64{math.Float64frombits(0x7ff8000000000001), 0, 1.5, math.Float64frombits(0x7ff8000000000002), -2, 3, math.Inf(1), 1e300},
		func(a, b float64) bool { return a < b }, func(k float64) string {
			if k != k {
				return fmt.Sprintf("NaN#%x", math.Float64bits(k)&0xf)
			}
			return fmt.Sprint(k)
		}}
)

// sameKey is the identity of a key in a view: Go equality, or the same NaN bit pattern
func sameKey[K comparable](a, b K) bool {
	if a == b {
		return true
	}
	if a != a && b != b {
		fa, oka := any(a).(float64)
		fb, okb := any(b).(float64)
		return oka && okb && math.Float64bits(fa) == math.Float64bits(fb)
	}
	return false
}

type valType[V any] struct {
	vals []V // code 0 is the zero value
	same func(a, b V) bool
	show func(v V) string
}

var ptrVals = func() []*int {
	a, b, c := 0, 0, 5
	return []*int{nil, &a, &b, &c}
}()

var (
	vtInt    = valType[int]{[]int{0, 1, 2, 3}, func(a, b int) bool { return a == b }, func(v int) string { return fmt.Sprint(v) }}
	vtAny    = valType[any]{[]any{nil, "", int64(0), "x"}, func(a, b any) bool { return a == b }, func(v any) string { return fmt.Sprintf("%#v", v) }}
	vtString = valType[string]{[]string{"", "a", "b", "\x00"}, func(a, b string) bool { return a == b }, func(v string) string { return fmt.Sprintf("%q", v) }}
	vtPtr    = valType[*int]{ptrVals, func(a, b *int) bool { return a == b }, func(v *int) string { return fmt.Sprintf("%p", v) }}
)

func ktPtr() keyType[*int] {
	return keyType[*int]{ptrKeys, func(a, b *int) bool { return *a < *b }, func(k *int) string { return fmt.Sprintf("&%d@%p", *k, k) }}
}

func execAssocCase(c assocCase, _ core.Source) core.Result {
	switch c.Key {
	case "string":
		return execAssocK(c, ktString)
	case "int":
		return execAssocK(c, ktInt)
	case "rune":
		return execAssocK(c, ktRune)
	case "float64":
		return execAssocK(c, ktFloat)
	case "nan":
		return execAssocK(c, ktNaN)
	case "any":
		return execAssocK(c, ktAny)
	default:
		return execAssocK(c, ktPtr())
	}
}

func execAssocK[K comparable](c assocCase, kt keyType[K]) core.Result {
	switch c.Val {
	case "any":
		return execAssoc(c, kt, vtAny)
	case "string":
		return execAssoc(c, kt, vtString)
	case "ptr":
		return execAssoc(c, kt, vtPtr)
	default:
		return execAssoc(c, kt, vtInt)
	}
}

type pair[K comparable] struct {
	k K
	v int
}

// the common surface of Catalog and Map
type assocLike[K comparable, V any] interface {
	col.Associative[K, V]
	col.Sequential[col.AssociationLike[K, V]]
}

func execAssoc[K comparable, V any](c assocCase, kt keyType[K], vt valType[V]) (res core.Result) {
	n := lib.Notation()
	prop := "C03"
	if c.Kind == "map" {
		prop = "C14"
	}
	var model []pair[K] // insertion order (meaningful for the catalog only)
	find := func(k K) int {
		for i, p := range model {
			if p.k == k {
				return i
			}
		}
		return -1
	}
	set := func(k K, v int) {
		if i := find(k); i >= 0 {
			model[i].v = v
		} else {
			model = append(model, pair[K]{k, v})
		}
	}
	hasNaN := func() bool {
		for _, p := range model {
			if p.k != p.k {
				return true
			}
		}
		return false
	}
	sameVals := func(got []V, want []int) bool {
		if len(got) != len(want) {
			return false
		}
		for i := range got {
			if !vt.same(got[i], vt.vals[want[i]]) {
				return false
			}
		}
		return true
	}
	showVals := func(codes []int) string {
		parts := []string{}
		for _, c := range codes {
			parts = append(parts, vt.show(vt.vals[c]))
		}
		return fmt.Sprint(parts)
	}
	del := func(k K) int {
		i := find(k)
		if i < 0 {
			return 0
		}
		v := model[i].v
		model = append(model[:i:i], model[i+1:]...)
		return v
	}
	modelString := func() string {
		s := "["
		for i, p := range model {
			if i > 0 {
				s += " "
			}
			s += fmt.Sprintf("%s:%s", kt.show(p.k), vt.show(vt.vals[p.v]))
		}
		return s + "]"
	}
	A := col.Association[K, V](n)
	// an empty Go array or Go map comes as an allocated empty one or as nil, in turn
	nilWhenEmpty := len(c.Init) == 0 && len(c.Ops)%2 == 0
	initAssocs := func() []col.AssociationLike[K, V] {
		if nilWhenEmpty {
			return nil
		}
		out := []col.AssociationLike[K, V]{}
		for _, e := range c.Init {
			out = append(out, A.Make(kt.keys[e.K], vt.vals[e.V]))
		}
		return out
	}
	initMap := func() map[K]V {
		if nilWhenEmpty {
			return nil
		}
		m := map[K]V{}
		for _, e := range c.Init {
			m[kt.keys[e.K]] = vt.vals[e.V]
		}
		return m
	}
	var coll assocLike[K, V]
	var catalog col.CatalogLike[K, V]
	var source assocLike[K, V]                // the collection the constructor was given (sequence forms with a catalog or map as source)
	var argAssocs []col.AssociationLike[K, V] // the Go array of associations the constructor was given
	seqSource := func() col.Sequential[col.AssociationLike[K, V]] {
		switch c.Ctor {
		case "MakeFromSequence/catalog":
			source = col.Catalog[K, V](n).MakeFromArray(initAssocs())
			return source
		case "MakeFromSequence/map":
			source = col.Map[K, V](n).MakeFromArray(initAssocs())
			return source
		}
		return col.List[col.AssociationLike[K, V]](n).MakeFromArray(initAssocs())
	}
	ordered := c.Kind == "catalog"
	p, payload := lib.Call(func() {
		if c.Kind == "catalog" {
			C := col.Catalog[K, V](n)
			switch c.Ctor {
			case "Make":
				catalog = C.Make()
			case "MakeFromArray":
				argAssocs = initAssocs()
				catalog = C.MakeFromArray(argAssocs)
			case "MakeFromMap":
				catalog = C.MakeFromMap(initMap())
			case "MakeFromSequence", "MakeFromSequence/catalog", "MakeFromSequence/map":
				catalog = C.MakeFromSequence(seqSource())
			}
			coll = catalog
		} else {
			M := col.Map[K, V](n)
			switch c.Ctor {
			case "Make":
				coll = M.Make()
			case "MakeFromArray":
				argAssocs = initAssocs()
				coll = M.MakeFromArray(argAssocs)
			case "MakeFromMap":
				coll = M.MakeFromMap(initMap())
			case "MakeFromSequence", "MakeFromSequence/catalog", "MakeFromSequence/map":
				coll = M.MakeFromSequence(seqSource())
			}
		}
	})
	sourceBefore := ""
	if source != nil {
		sourceBefore = showAssocsOf(source, kt)
	}
	if p {
		res.Violation = core.Violate(prop+"/ctor-panicked", "constructor %s panicked: %s", c.Ctor, lib.Short(payload))
		return res
	}
	for _, e := range c.Init {
		set(kt.keys[e.K], e.V)
	}
	// matchAssocs pairs every listed association with a distinct model entry that has the same key (identity)
	// and value; it returns the model entries in the listed order, or the first association that has no partner
	matchAssocs := func(items []col.AssociationLike[K, V]) ([]pair[K], col.AssociationLike[K, V]) {
		used := make([]bool, len(model))
		var next []pair[K]
		for _, a := range items {
			found := false
			for i, m := range model {
				if !used[i] && sameKey(m.k, a.GetKey()) && vt.same(vt.vals[m.v], a.GetValue()) {
					used[i], found = true, true
					next = append(next, m)
					break
				}
			}
			if !found {
				return nil, a
			}
		}
		return next, nil
	}
	matchKeys := func(keys []K) (bool, K) {
		used := make([]bool, len(model))
		for _, k := range keys {
			found := false
			for i, m := range model {
				if !used[i] && sameKey(m.k, k) {
					used[i], found = true, true
					break
				}
			}
			if !found {
				return false, k
			}
		}
		var zero K
		return true, zero
	}
	showAssoc := func(a col.AssociationLike[K, V]) string {
		if a == nil {
			return "<nil association>"
		}
		return kt.show(a.GetKey()) + ":" + vt.show(a.GetValue())
	}
	// adoptOrder: where the order is unspecified (MakeFromMap, shuffle, a Map) the model takes over the
	// collection's order after checking that its associations are exactly the model's, each once
	adoptOrder := func(step int, what string) *core.Violation {
		var arr []col.AssociationLike[K, V]
		if p, payload := lib.Call(func() { arr = coll.AsArray() }); p {
			return core.Violate(prop+"/view-panicked", "step %d after %s: AsArray panicked: %s", step, what, lib.Short(payload))
		}
		if len(arr) != len(model) {
			return core.Violate(prop+"/"+opName(what)+"/size", "step %d after %s: %d associations, expected %d %s", step, what, len(arr), len(model), modelString())
		}
		for _, a := range arr {
			if a == nil {
				return core.Violate(prop+"/"+opName(what)+"/nil-association", "step %d after %s: the array view contains a nil association; expected %s", step, what, modelString())
			}
		}
		next, odd := matchAssocs(arr)
		if odd != nil {
			return core.Violate(prop+"/"+opName(what)+"/foreign-or-duplicate", "step %d after %s: the association %s is not in %s, or is listed more often than it was set", step, what, showAssoc(odd), modelString())
		}
		model = next
		return nil
	}
	check := func(step int, what string) *core.Violation {
		var keys []K
		var arr, walked []col.AssociationLike[K, V]
		var size int
		var empty bool
		if p, payload := lib.Call(func() {
			keys, arr, walked, size, empty = coll.GetKeys().AsArray(), coll.AsArray(), walk(coll.GetIterator()), coll.GetSize(), coll.IsEmpty()
		}); p {
			return core.Violate(prop+"/view-panicked", "step %d after %s: a view panicked: %s", step, what, lib.Short(payload))
		}
		if size != len(model) || empty != (len(model) == 0) || len(keys) != len(model) || len(arr) != len(model) || len(walked) != len(model) {
			return core.Violate(prop+"/views-disagree-on-size/"+opName(what), "step %d after %s: GetSize %d IsEmpty %v |GetKeys| %d |AsArray| %d |iteration| %d, expected %d associations %s",
				step, what, size, empty, len(keys), len(arr), len(walked), len(model), modelString())
		}
		for _, a := range append(append([]col.AssociationLike[K, V]{}, arr...), walked...) {
			if a == nil {
				return core.Violate(prop+"/nil-association/"+opName(what), "step %d after %s: a view contains a nil association; expected %s", step, what, modelString())
			}
		}
		if !ordered {
			// unordered views: each association exactly once, in every view
			if _, odd := matchAssocs(arr); odd != nil {
				return core.Violate(prop+"/AsArray-keys", "step %d after %s: AsArray lists %s, which is foreign or listed too often; expected %s", step, what, showAssoc(odd), modelString())
			}
			if _, odd := matchAssocs(walked); odd != nil {
				return core.Violate(prop+"/iteration-keys", "step %d after %s: iteration lists %s, which is foreign or listed too often; expected %s", step, what, showAssoc(odd), modelString())
			}
			if ok, odd := matchKeys(keys); !ok {
				return core.Violate(prop+"/GetKeys-keys", "step %d after %s: GetKeys lists %s, which is foreign or listed too often; expected %s", step, what, kt.show(odd), modelString())
			}
		}
		for i, m := range model {
			if ordered {
				if !sameKey(keys[i], m.k) {
					return core.Violate(prop+"/key-order/"+opName(what), "step %d after %s: GetKeys[%d] = %s, expected %s in %s", step, what, i+1, kt.show(keys[i]), kt.show(m.k), modelString())
				}
				if !sameKey(arr[i].GetKey(), m.k) || !vt.same(arr[i].GetValue(), vt.vals[m.v]) {
					return core.Violate(prop+"/array-view/"+opName(what), "step %d after %s: AsArray[%d] = %s, expected %s:%s in %s", step, what, i+1, showAssoc(arr[i]), kt.show(m.k), vt.show(vt.vals[m.v]), modelString())
				}
				if !sameKey(walked[i].GetKey(), m.k) || !vt.same(walked[i].GetValue(), vt.vals[m.v]) {
					return core.Violate(prop+"/iteration/"+opName(what), "step %d after %s: iteration[%d] = %s, expected %s:%s", step, what, i+1, showAssoc(walked[i]), kt.show(m.k), vt.show(vt.vals[m.v]))
				}
			}
		}
		for _, k := range kt.keys {
			want := 0
			if i := find(k); i >= 0 {
				want = model[i].v
			}
			if got := coll.GetValue(k); !vt.same(got, vt.vals[want]) {
				return core.Violate(prop+"/GetValue/"+opName(what), "step %d after %s: GetValue(%s) = %s, expected %s in %s", step, what, kt.show(k), vt.show(got), vt.show(vt.vals[want]), modelString())
			}
		}
		return nil
	}
	if c.Ctor == "MakeFromMap" || c.Ctor == "MakeFromSequence/map" {
		if v := adoptOrder(-1, c.Ctor); v != nil {
			res.Violation = v
			return res
		}
	}
	if v := check(-1, c.Ctor); v != nil {
		res.Violation = v
		return res
	}
	reordered, lookedUpAfter := false, false
	for step, op := range c.Ops {
		what := op.Op
		var v *core.Violation
		keysOf := func(codes []int) []K {
			out := make([]K, len(codes))
			for i, k := range codes {
				out[i] = kt.keys[k]
			}
			return out
		}
		switch op.Op {
		case "SetValue":
			k := kt.keys[op.K]
			what = fmt.Sprintf("SetValue(%s, %s)", kt.show(k), vt.show(vt.vals[op.V]))
			if find(k) >= 0 {
				res.Classes = append(res.Classes, "set-existing")
				if len(model) >= 2 {
					reordered = true
				}
			}
			set(k, op.V)
			coll.SetValue(k, vt.vals[op.V])
		case "GetValue":
			lookedUpAfter = lookedUpAfter || reordered // every key is read by check() anyway
		case "GetValues", "RemoveValues":
			ks := keysOf(op.Ks)
			what = fmt.Sprintf("%s(%v)", op.Op, op.Ks)
			var want []int
			for _, k := range ks {
				if op.Op == "GetValues" {
					if i := find(k); i >= 0 {
						want = append(want, model[i].v)
					} else {
						want = append(want, 0)
					}
				} else {
					if find(k) >= 0 && len(model) >= 2 {
						reordered = true
					}
					want = append(want, del(k))
				}
			}
			operand := col.List[K](n).MakeFromArray(ks)
			var got col.Sequential[V]
			if op.Op == "GetValues" {
				got = coll.GetValues(operand)
				lookedUpAfter = lookedUpAfter || reordered
			} else {
				got = coll.RemoveValues(operand)
			}
			if got == nil || !sameVals(got.AsArray(), want) {
				v = core.Violate(prop+"/"+op.Op+"/wrong", "step %d: %s returned %v, expected %s", step, what, seqString(got), showVals(want))
			}
		case "GetKeys":
		case "RemoveValue":
			k := kt.keys[op.K]
			what = fmt.Sprintf("RemoveValue(%s)", kt.show(k))
			if find(k) < 0 {
				res.Classes = append(res.Classes, "remove-absent")
			} else if len(model) >= 2 {
				reordered = true
			}
			want := del(k)
			if got := coll.RemoveValue(k); !vt.same(got, vt.vals[want]) {
				v = core.Violate(prop+"/RemoveValue/wrong", "step %d: %s returned %s, expected %s", step, what, vt.show(got), vt.show(vt.vals[want]))
			}
		case "RemoveAll":
			model = nil
			coll.RemoveAll()
		case "RemoveAll/snapshot":
			// RemoveAll while holding a key snapshot and an iterator (they must stay intact)
			keys := coll.GetKeys()
			it := coll.GetIterator()
			before := len(model)
			model = nil
			coll.RemoveAll()
			if keys.GetSize() != before || it.GetSize() != before {
				v = core.Violate(prop+"/snapshot-changed", "step %d: a key snapshot / iterator taken before RemoveAll changed size (%d, %d; expected %d)", step, keys.GetSize(), it.GetSize(), before)
			}
		case "SortValues", "SortValuesWithRanker":
			if len(model) >= 2 {
				reordered = true
			}
			var bad func(a, b pair[K]) bool // true when a must not come before b
			if op.Op == "SortValues" {
				catalog.SortValues()
				if kt.less != nil {
					bad = func(a, b pair[K]) bool { return kt.less(b.k, a.k) }
				} else {
					ranker := age.Collator[K]().Make()
					bad = func(a, b pair[K]) bool { return ranker.RankValues(a.k, b.k) == age.GreaterRank }
				}
			} else {
				what = "SortValuesWithRanker(" + op.Ranker + ")"
				index := func(k K) int {
					for i, x := range kt.keys {
						if x == k {
							return i
						}
					}
					return -1
				}
				var rank age.RankingFunction[col.AssociationLike[K, V]]
				vindex := func(x V) int {
					for i, y := range vt.vals {
						if vt.same(x, y) {
							return i
						}
					}
					return -1
				}
				if op.Ranker == "by-value" {
					rank = func(a, b col.AssociationLike[K, V]) age.Rank {
						return rankOfInts(vindex(a.GetValue()), vindex(b.GetValue()))
					}
					bad = func(a, b pair[K]) bool { return a.v > b.v }
				} else {
					rank = func(a, b col.AssociationLike[K, V]) age.Rank {
						return rankOfInts(index(b.GetKey()), index(a.GetKey()))
					}
					bad = func(a, b pair[K]) bool { return index(a.k) < index(b.k) }
				}
				catalog.SortValuesWithRanker(rank)
			}
			// a NaN key ranks as equal to every number under the natural order, which is then not a preorder:
			// only the permutation is checked
			unordered := hasNaN() && op.Op == "SortValues"
			if unordered {
				res.Classes = append(res.Classes, "sorted-with-NaN-key")
			}
			if v = adoptOrder(step, what); v == nil && !unordered {
				for i := 0; i+1 < len(model); i++ {
					if bad(model[i], model[i+1]) {
						v = core.Violate("C03/"+op.Op+"/not-ascending", "step %d: %s left %s before %s", step, what, kt.show(model[i].k), kt.show(model[i+1].k))
						break
					}
				}
			}
		case "ReverseValues":
			if len(model) >= 2 {
				reordered = true
			}
			catalog.ReverseValues()
			for a, b := 0, len(model)-1; a < b; a, b = a+1, b-1 {
				model[a], model[b] = model[b], model[a]
			}
		case "ShuffleValues":
			if len(model) >= 2 {
				reordered = true
			}
			catalog.ShuffleValues()
			v = adoptOrder(step, what)
		}
		if v == nil && !(op.Q && step+1 < len(c.Ops)) {
			v = check(step, what)
		}
		if v != nil {
			res.Violation = v
			return res
		}
		if reordered {
			lookedUpAfter = true // check() reads every universe key after every step
		}
	}
	if argAssocs != nil {
		// the associations handed to MakeFromArray stay the caller's: the history above has not changed them, and
		// changing them now does not reach the collection
		for i, e := range c.Init {
			if !sameKey(argAssocs[i].GetKey(), kt.keys[e.K]) || !vt.same(argAssocs[i].GetValue(), vt.vals[e.V]) {
				res.Violation = core.Violate(prop+"/ctor/shares-argument", "the history on a collection made by MakeFromArray changed association %d of the array it was given: now %s:%s, it was %s:%s", i+1,
					kt.show(argAssocs[i].GetKey()), vt.show(argAssocs[i].GetValue()), kt.show(kt.keys[e.K]), vt.show(vt.vals[e.V]))
				return res
			}
		}
		before := showAssocsOf(coll, kt)
		for _, a := range argAssocs {
			a.SetValue(vt.vals[3])
		}
		if now := showAssocsOf(coll, kt); now != before {
			res.Violation = core.Violate(prop+"/ctor/shares-argument", "changing the associations of the array given to MakeFromArray changed the collection: %s -> %s", before, now)
			return res
		}
	}
	if source != nil {
		// the collection the constructor read from is a collection of its own
		if now := showAssocsOf(source, kt); now != sourceBefore {
			res.Violation = core.Violate(prop+"/ctor/shares-source", "the history on a collection made by %s changed the source it was made from: %s -> %s", c.Ctor, sourceBefore, now)
			return res
		}
		before := showAssocsOf(coll, kt)
		source.SetValue(kt.keys[0], vt.vals[3])
		source.RemoveValue(kt.keys[1])
		source.RemoveAll()
		if now := showAssocsOf(coll, kt); now != before {
			res.Violation = core.Violate(prop+"/ctor/shares-source", "changing the source of %s changed the collection made from it: %s -> %s", c.Ctor, before, now)
			return res
		}
	}
	res.NonTrivial = reordered && lookedUpAfter
	res.Classes = append(res.Classes, "key-"+c.Key, "val-"+c.Val, "ctor-"+c.Ctor)
	return res
}

func showAssocsOf[K comparable, V any](a assocLike[K, V], kt keyType[K]) string {
	parts := []string{}
	for _, x := range a.AsArray() {
		parts = append(parts, fmt.Sprintf("%s:%#v", kt.show(x.GetKey()), x.GetValue()))
	}
	sort.Strings(parts)
	return fmt.Sprint(parts)
}

func TestC03(t *testing.T) {
	r := core.Begin(t, "C03")
	defer r.End()
	core.DFS(r, core.Check[largeCase]{Name: "large-sizes", Gen: genLarge([]string{"Catalog"}), Exec: execLarge("C03"), NoJournal: true}, 0)
	keyTypes := []string{"string", "int", "rune", "float64", "nan", "any", "ptr", "ptr"}
	core.Rapid(r, core.Check[assocCase]{Name: "history", Gen: genAssocCase("catalog", keyTypes, 40, 8), Exec: execAssocCase}, r.N(3000, 30000))
	// every history of up to 3 (quick) / 4 (thorough) operations over 3 keys, including pointer keys with equal pointees
	core.DFS(r, core.Check[assocCase]{Name: "small-histories", Gen: genSmallAssoc("catalog", r.N(3, 4)), Exec: execAssocCase, NoJournal: true}, 0)
	core.DFS(r, core.Check[longLivedCase]{Name: "long-lived-instance", Gen: genLongLived([]string{"Catalog"}, r.N(150000, 1200000)), Exec: execLongLived("C03"), NoJournal: true, HangLimit: 300 * time.Second}, 0)
	core.DFS(r, core.Check[lookupCase]{Name: "class-lookups", Gen: genLookups([]string{"Catalog"}), Exec: execLookups("C03"), NoJournal: true}, 0)
	core.DFS(r, core.Check[keysInUseCase]{Name: "key-sequence-in-use", Gen: func(s core.Source) keysInUseCase {
		return keysInUseCase{Fn: core.Pick(s, []string{"Catalog.RemoveValues", "Catalog.GetValues"}, "fn"), Rounds: r.N(3000, 30000)}
	}, Exec: execKeysInUse("C03"), NoJournal: true, HangLimit: 300 * time.Second}, 0)
}

// small enumerated histories: keys 0..2, values 1..2, no constructor data
func genSmallAssoc(kind string, maxOps int) func(core.Source) assocCase {
	return func(s core.Source) assocCase {
		c := assocCase{Kind: kind, Ctor: "Make"}
		c.Key = core.Pick(s, []string{"string", "ptr"}, "key")
		quiet := s.Choose(2, "look-at-the-end-only") == 1
		nops := 1 + s.Choose(maxOps, "nops")
		kinds := []string{"SetValue", "RemoveValue", "RemoveAll", "SortValues", "ReverseValues"}
		if kind == "map" {
			kinds = []string{"SetValue", "RemoveValue", "RemoveAll", "RemoveValues"}
		}
		for i := 0; i < nops; i++ {
			op := assocOp{Op: core.Pick(s, kinds, "op")}
			switch op.Op {
			case "SetValue":
				op.K, op.V = s.Choose(3, "k"), 1+s.Choose(2, "v")
			case "RemoveValue":
				op.K = s.Choose(3, "k")
			case "RemoveValues":
				op.Ks = []int{s.Choose(3, "k"), s.Choose(3, "k")}
			}
			op.Q = quiet
			c.Ops = append(c.Ops, op)
		}
		return c
	}
}
