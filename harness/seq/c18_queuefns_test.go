package seq

import (
	"fmt"
	"sync"
	"time"

	age "github.com/craterdog/go-collection-framework/v4/agent"
	col "github.com/craterdog/go-collection-framework/v4/collection"
	"verifharness/lib"
)

// ---------------------------------------------------------------- C18: the class functions of Queue that take or return a sequence

// Join takes a sequence of queues, Fork and Split return one.  Their helper goroutines work long after the
// call has returned: the sequence the caller handed in (or got back) stays the caller's, and changing it
// later -- replacing a queue by another one, emptying it -- must not redirect the streams.  The entries feed
// the pipeline in rounds and wait for each round to arrive, so that the change falls between two rounds.

// takeN reads n values from the queue, giving up after a while (a stream that was redirected never arrives)
func takeN(q col.QueueLike[int], n int) []int {
	out := []int{}
	done := make(chan struct{})
	var mu sync.Mutex
	go func() {
		defer close(done)
		for i := 0; i < n; i++ {
			v, ok := q.RemoveHead()
			if !ok {
				return
			}
			mu.Lock()
			out = append(out, v)
			mu.Unlock()
		}
	}()
	select {
	case <-done:
	case <-time.After(20 * time.Second):
	}
	mu.Lock()
	defer mu.Unlock()
	return append([]int{}, out...)
}

func init() {
	n := lib.Notation()
	Q := col.Queue[int](n)
	L := col.List[col.QueueLike[int]](n)
	aliasEntries = append(aliasEntries,
		aliasEntry{"Queue.Join/mutate-argument", func(size, pos int) (string, string, bool) {
			fan := 2 + size%2
			inputs := L.Make()
			var qs []col.QueueLike[int]
			for i := 0; i < fan; i++ {
				q := Q.MakeWithCapacity(4)
				qs = append(qs, q)
				inputs.AppendValue(q)
			}
			var group sync.WaitGroup
			out := Q.Join(&group, inputs)
			// the caller's list is changed right away and again between the rounds
			intruder := Q.MakeWithCapacity(4)
			slot := 1 + pos%fan
			inputs.SetValue(slot, intruder)
			var want, got []int
			for round := 0; round < 3; round++ {
				for i, q := range qs {
					v := round*10 + i + 1
					q.AddValue(v)
					want = append(want, v)
				}
				intruder.AddValue(900 + round)
				got = append(got, takeN(out, fan)...)
				if round == 0 {
					inputs.RemoveAll()
					inputs.AppendValue(intruder)
				}
			}
			for _, q := range qs {
				q.CloseQueue()
			}
			intruder.CloseQueue()
			return fmt.Sprint(want), fmt.Sprint(got), true
		}},
	)
	for _, fn := range []string{"Fork", "Split"} {
		fn := fn
		aliasEntries = append(aliasEntries,
			aliasEntry{"Queue." + fn + "/mutate-result", func(size, pos int) (string, string, bool) {
				fan := 2 + size%2
				input := Q.MakeWithCapacity(4)
				var group sync.WaitGroup
				var outputs col.Sequential[col.QueueLike[int]]
				if fn == "Fork" {
					outputs = Q.Fork(&group, input, uint(fan))
				} else {
					outputs = Q.Split(&group, input, uint(fan))
				}
				mine := append([]col.QueueLike[int]{}, outputs.AsArray()...)
				intruder := Q.MakeWithCapacity(16)
				// the returned sequence is the caller's to change
				changed := false
				if l, ok := outputs.(col.ListLike[col.QueueLike[int]]); ok {
					l.SetValue(1+pos%fan, intruder)
					changed = true
				} else if a, ok := outputs.(col.ArrayLike[col.QueueLike[int]]); ok {
					a.SetValue(1+pos%fan, intruder)
					changed = true
				}
				arr := outputs.AsArray()
				if len(arr) > 0 {
					arr[0] = intruder
				}
				var want, got []int
				for round := 0; round < 2; round++ {
					per := 1
					if fn == "Split" {
						per = fan
					}
					for k := 0; k < per; k++ {
						input.AddValue(round*10 + k + 1)
					}
					for i, q := range mine {
						if fn == "Fork" {
							want = append(want, round*10+1)
						} else {
							want = append(want, round*10+i+1)
						}
						got = append(got, takeN(q, 1)...)
					}
					if l, ok := outputs.(col.ListLike[col.QueueLike[int]]); ok && round == 0 {
						l.RemoveAll()
						l.AppendValue(intruder)
					}
				}
				input.CloseQueue()
				return fmt.Sprint(want, " nothing for a queue that is not an output: 0"), fmt.Sprint(got, " nothing for a queue that is not an output: ", intruder.GetSize()), changed
			}},
		)
	}
}

// ---------------------------------------------------------------- more than two parties

// A class function that returns a new collection may be called twice with the same operand, and on its own
// result.  Whatever the results share with the operand to save work has to cope with more than two parties: every
// party is changed in place in turn, and all the others must stay as they were.
func init() {
	n := lib.Notation()
	several := func(name string, derive func(src col.ListLike[int], k int) col.Sequential[int], change func(p col.Sequential[int], k int)) aliasEntry {
		return aliasEntry{name + "/several-results", func(size, pos int) (string, string, bool) {
			src := col.List[int](n).MakeFromArray(intsN(size))
			parties := []col.Sequential[int]{src}
			for k := 1; k <= 3; k++ {
				parties = append(parties, derive(src, k))
			}
			before, after := "", ""
			order := []int{1 + pos%3, 1 + (pos+1)%3, 0, 1 + (pos+2)%3}
			for _, k := range order {
				var others string
				for j, p := range parties {
					if j != k {
						others += fmt.Sprint(j, p.AsArray(), " ")
					}
				}
				change(parties[k], k)
				var now string
				for j, p := range parties {
					if j != k {
						now += fmt.Sprint(j, p.AsArray(), " ")
					}
				}
				before += others + "| "
				after += now + "| "
			}
			return before, after, size > 0
		}}
	}
	inPlace := func(p col.Sequential[int], k int) {
		if u, ok := p.(interface {
			col.Updatable[int]
			col.Sortable[int]
		}); ok && p.GetSize() > 0 {
			u.SetValue(1, -100-k)
			u.ReverseValues()
		} else if st, ok := p.(col.StackLike[int]); ok {
			if st.GetSize() > 0 {
				st.RemoveTop()
			}
			st.AddValue(-100 - k)
		} else if s, ok := p.(col.SetLike[int]); ok {
			s.AddValue(-100 - k)
			if s.GetSize() > 1 {
				s.RemoveValue(s.GetValue(-1))
			}
		}
	}
	L := col.List[int](n)
	aliasEntries = append(aliasEntries,
		several("List.Concatenate(x, [])", func(src col.ListLike[int], k int) col.Sequential[int] { return L.Concatenate(src, L.Make()) }, inPlace),
		several("List.Concatenate([], x)", func(src col.ListLike[int], k int) col.Sequential[int] { return L.Concatenate(L.Make(), src) }, inPlace),
		several("List.MakeFromSequence", func(src col.ListLike[int], k int) col.Sequential[int] { return L.MakeFromSequence(src) }, inPlace),
		several("List.GetValues(all)", func(src col.ListLike[int], k int) col.Sequential[int] {
			if src.GetSize() == 0 {
				return L.Make()
			}
			return src.GetValues(1, -1)
		}, inPlace),
		several("Array.MakeFromSequence", func(src col.ListLike[int], k int) col.Sequential[int] { return col.Array[int](n).MakeFromSequence(src) }, inPlace),
		several("Stack.MakeFromSequence", func(src col.ListLike[int], k int) col.Sequential[int] { return col.Stack[int](n).MakeFromSequence(src) }, inPlace),
		several("Set.MakeFromSequence", func(src col.ListLike[int], k int) col.Sequential[int] { return col.Set[int](n).MakeFromSequence(src) }, inPlace),
		several("Set.Or(x, {})", func(src col.ListLike[int], k int) col.Sequential[int] {
			S := col.Set[int](n)
			return S.Or(S.MakeFromSequence(src), S.Make())
		}, inPlace),
	)
}

// ---------------------------------------------------------------- a sequence the library did not make

// The constructors and bulk operations accept any Sequential[V], also one an application wrote itself -- whose
// AsArray() hands out its own backing array, which the aspect does not forbid.  What is made from it is a
// collection of its own: changing it does not reach the application's sequence (nor a sibling made from the same
// sequence), and changing the sequence later does not reach it.
type appSequence[V any] struct{ backing []V }

func (s *appSequence[V]) AsArray() []V  { return s.backing }
func (s *appSequence[V]) GetSize() int  { return len(s.backing) }
func (s *appSequence[V]) IsEmpty() bool { return len(s.backing) == 0 }
func (s *appSequence[V]) GetIterator() age.IteratorLike[V] {
	return age.Iterator[V]().MakeFromArray(s.backing)
}

func init() {
	n := lib.Notation()
	type maker struct {
		name string
		make func(src col.Sequential[int]) col.Sequential[int]
	}
	makers := []maker{
		{"Array.MakeFromSequence", func(src col.Sequential[int]) col.Sequential[int] { return col.Array[int](n).MakeFromSequence(src) }},
		{"List.MakeFromSequence", func(src col.Sequential[int]) col.Sequential[int] { return col.List[int](n).MakeFromSequence(src) }},
		{"Set.MakeFromSequence", func(src col.Sequential[int]) col.Sequential[int] { return col.Set[int](n).MakeFromSequence(src) }},
		{"Stack.MakeFromSequence", func(src col.Sequential[int]) col.Sequential[int] { return col.Stack[int](n).MakeFromSequence(src) }},
		{"Queue.MakeFromSequence", func(src col.Sequential[int]) col.Sequential[int] { return col.Queue[int](n).MakeFromSequence(src) }},
		{"List.AppendValues", func(src col.Sequential[int]) col.Sequential[int] {
			l := col.List[int](n).Make()
			l.AppendValues(src)
			return l
		}},
		{"List.InsertValues", func(src col.Sequential[int]) col.Sequential[int] {
			l := col.List[int](n).Make()
			l.InsertValues(0, src)
			return l
		}},
		{"Array.SetValues", func(src col.Sequential[int]) col.Sequential[int] {
			a := col.Array[int](n).Make(uint(src.GetSize()))
			if src.GetSize() > 0 {
				a.SetValues(1, src)
			}
			return a
		}},
	}
	change := func(p col.Sequential[int], k int) {
		switch t := p.(type) {
		case col.ArrayLike[int]:
			if t.GetSize() > 0 {
				t.SetValue(1, -100-k)
				t.ReverseValues()
			}
		case col.ListLike[int]:
			if t.GetSize() > 0 {
				t.SetValue(1, -100-k)
				t.SortValues()
			}
			t.AppendValue(-200 - k)
		case col.SetLike[int]:
			t.AddValue(-100 - k)
		case col.StackLike[int]:
			if t.GetSize() > 0 {
				t.RemoveTop()
			}
		case col.QueueLike[int]:
			if t.GetSize() > 0 {
				t.RemoveHead()
			}
		}
	}
	for _, m := range makers {
		m := m
		aliasEntries = append(aliasEntries, aliasEntry{m.name + "/application-sequence", func(size, pos int) (string, string, bool) {
			src := &appSequence[int]{backing: intsN(size)}
			first, second := m.make(src), m.make(src)
			before := fmt.Sprint(src.backing, second.AsArray())
			change(first, pos)
			mid := fmt.Sprint(src.backing, second.AsArray())
			// and the other way round: the application changes its own array
			kept := fmt.Sprint(first.AsArray())
			for i := range src.backing {
				src.backing[i] = -7
			}
			after := fmt.Sprint(first.AsArray())
			return before + kept, mid + after, size > 0
		}})
	}
	// associations a catalog handed out stay what they were, whatever happens to the catalog (or to any other
	// catalog) afterwards
	aliasEntries = append(aliasEntries, aliasEntry{"Catalog.AsArray/then-RemoveAll-and-refill", func(size, pos int) (string, string, bool) {
		C := col.Catalog[int, int](n)
		a := C.MakeFromArray(assocsN(size))
		saved := a.AsArray()
		var walked []col.AssociationLike[int, int]
		for it := a.GetIterator(); it.HasNext(); {
			walked = append(walked, it.GetNext())
		}
		before := showAssocs(saved) + showAssocs(walked)
		a.RemoveAll()
		other := C.Make()
		for k := 0; k < size+1; k++ {
			other.SetValue(100+k, 1000+k)
			a.SetValue(200+k, 2000+k)
		}
		merged := C.Merge(a, other)
		_ = C.Extract(merged, merged.GetKeys())
		return before, showAssocs(saved) + showAssocs(walked), size > 0
	}})
}
