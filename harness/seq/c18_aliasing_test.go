package seq

import (
	"fmt"
	"math"
	"sort"
	"testing"

	age "github.com/craterdog/go-collection-framework/v4/agent"
	col "github.com/craterdog/go-collection-framework/v4/collection"
	"verifharness/core"
	"verifharness/lib"
)

// ---------------------------------------------------------------- C18: arrays and maps crossing the API are copied

type aliasCase struct {
	Entry string `json:"entry"`
	Size  int    `json:"size"`
	Pos   int    `json:"pos"`
}

// An alias entry builds (argument or result) and a collection, mutates one side
// at position pos and reports what each side looks like before and after.
type aliasEntry struct {
	name string
	// run returns the observable content of the side that must NOT change, before and after
	// the write through the other reference, plus whether the write actually changed something.
	run func(size, pos int) (before, after string, wrote bool)
}

func intsN(size int) []int {
	out := make([]int, size)
	for i := range out {
		out[i] = (i + 1) * 10
	}
	return out
}

func assocsN(size int) []col.AssociationLike[int, int] {
	out := []col.AssociationLike[int, int]{}
	A := col.Association[int, int](lib.Notation())
	for i := 0; i < size; i++ {
		out = append(out, A.Make(i+1, (i+1)*10))
	}
	return out
}

func mapN(size int) map[int]int {
	m := map[int]int{}
	for i := 0; i < size; i++ {
		m[i+1] = (i + 1) * 10
	}
	return m
}

func showAssocs(as []col.AssociationLike[int, int]) string {
	ps := []string{}
	for _, a := range as {
		ps = append(ps, fmt.Sprintf("%d:%d", a.GetKey(), a.GetValue()))
	}
	sort.Strings(ps)
	return fmt.Sprint(ps)
}

// showAssocColl prints an associative collection through every view it has: the array view, the iteration,
// the keys and the values looked up for them, and (for a catalog) what Extract makes of its own keys -- a write
// through a returned sequence may reach any of them
func showAssocColl(c assocLike[int, int]) string {
	keys := c.GetKeys()
	ks := append([]int{}, keys.AsArray()...)
	vals := fmt.Sprint(c.GetValues(keys).AsArray())
	walked := showAssocs(walk(c.GetIterator()))
	out := showAssocs(c.AsArray()) + " iteration " + walked
	if cat, ok := c.(col.CatalogLike[int, int]); ok {
		out += fmt.Sprint(" keys ", ks, " values ", vals)
		out += " extract " + showAssocs(col.Catalog[int, int](lib.Notation()).Extract(cat, keys).AsArray())
	} else {
		sort.Ints(ks)
		out += fmt.Sprint(" keys ", ks, " size ", c.GetSize())
	}
	return out
}

// showSeq prints a collection through its array view and through an iterator: a write through a returned
// array or sequence may reach either of them
func showSeq[V any](c col.Sequential[V]) string {
	return fmt.Sprint(c.AsArray(), " iteration ", walk(c.GetIterator()), " size ", c.GetSize())
}

func showMap(m map[int]int) string {
	ps := []string{}
	for k, v := range m {
		ps = append(ps, fmt.Sprintf("%d:%d", k, v))
	}
	sort.Strings(ps)
	return fmt.Sprint(ps)
}

// seqOf is a sequence of ints of any of the five value kinds
type intSeq interface{ col.Sequential[int] }

func buildInt(kind string, vals []int) intSeq {
	n := lib.Notation()
	switch kind {
	case "Array":
		return col.Array[int](n).MakeFromArray(vals)
	case "List":
		return col.List[int](n).MakeFromArray(vals)
	case "Set":
		return col.Set[int](n).MakeFromArray(vals)
	case "Stack":
		return col.Stack[int](n).MakeFromArray(vals)
	default:
		return col.Queue[int](n).MakeFromArray(vals)
	}
}

func buildIntFromSeq(kind string, s col.Sequential[int]) intSeq {
	n := lib.Notation()
	switch kind {
	case "Array":
		return col.Array[int](n).MakeFromSequence(s)
	case "List":
		return col.List[int](n).MakeFromSequence(s)
	case "Set":
		return col.Set[int](n).MakeFromSequence(s)
	case "Stack":
		return col.Stack[int](n).MakeFromSequence(s)
	default:
		return col.Queue[int](n).MakeFromSequence(s)
	}
}

// mutateIntColl changes the collection at (roughly) position pos through its own API
func mutateIntColl(c intSeq, pos int) bool {
	switch x := c.(type) {
	case col.ListLike[int]:
		if x.GetSize() == 0 {
			x.AppendValue(-1)
		} else {
			// in place first, then growing (an append may land in spare capacity that somebody else still
			// looks at), then shrinking and reordering
			x.SetValue(pos%x.GetSize()+1, -1)
			x.AppendValue(-7)
			x.AppendValues(col.List[int](lib.Notation()).MakeFromArray([]int{-8, -9}))
			x.InsertValue(0, -6)
			x.RemoveValue(-1)
			x.SortValuesWithRanker(func(a, b int) age.Rank { return rankOfInts(b, a) })
		}
		return true
	case col.ArrayLike[int]:
		if x.GetSize() == 0 {
			return false
		}
		x.SetValue(pos%x.GetSize()+1, -1)
		x.ReverseValues()
		return true
	case col.SetLike[int]:
		x.AddValue(-1 - pos)
		if x.GetSize() > 1 {
			x.RemoveValue(x.GetValue(-1))
		}
		return true
	case col.StackLike[int]:
		if x.GetSize() > 0 {
			x.RemoveTop()
		}
		x.AddValue(-1)
		return true
	case col.QueueLike[int]:
		if x.GetSize() > 0 {
			x.RemoveHead()
		}
		x.AddValue(-1)
		return true
	}
	return false
}

// mutateSeqResult tries to change a returned sequence through whatever mutable interface it offers
func mutateSeqResult[V any](s col.Sequential[V], pos int, v V) bool {
	if s == nil || s.GetSize() == 0 {
		if l, ok := s.(col.ListLike[V]); ok {
			l.AppendValue(v)
			return true
		}
		return false
	}
	if u, ok := s.(col.Updatable[V]); ok {
		u.SetValue(pos%s.GetSize()+1, v)
		if so, ok := s.(col.Sortable[V]); ok {
			so.ReverseValues()
		}
		return true
	}
	return false
}

var aliasEntries []aliasEntry

func init() {
	n := lib.Notation()
	intKinds := []string{"Array", "List", "Set", "Stack", "Queue"}
	for _, kind := range intKinds {
		kind := kind
		// constructor from a Go array: mutate the argument / mutate the collection
		aliasEntries = append(aliasEntries,
			aliasEntry{kind + ".MakeFromArray/mutate-argument", func(size, pos int) (string, string, bool) {
				arg := intsN(size)
				c := buildInt(kind, arg)
				before := showSeq(c)
				if size == 0 {
					return before, before, false
				}
				arg[pos%size] = -1
				return before, showSeq(c), true
			}},
			aliasEntry{kind + ".MakeFromArray/mutate-collection", func(size, pos int) (string, string, bool) {
				arg := intsN(size)
				c := buildInt(kind, arg)
				before := fmt.Sprint(arg)
				w := mutateIntColl(c, pos)
				return before, fmt.Sprint(arg), w
			}},
			aliasEntry{kind + ".MakeFromSequence/mutate-argument", func(size, pos int) (string, string, bool) {
				arg := col.List[int](n).MakeFromArray(intsN(size))
				c := buildIntFromSeq(kind, arg)
				before := showSeq(c)
				w := mutateIntColl(arg, pos)
				return before, showSeq(c), w
			}},
			aliasEntry{kind + ".MakeFromSequence/mutate-collection", func(size, pos int) (string, string, bool) {
				arg := col.Array[int](n).MakeFromArray(intsN(size))
				c := buildIntFromSeq(kind, arg)
				before := showSeq(arg)
				w := mutateIntColl(c, pos)
				return before, showSeq(arg), w
			}},
			aliasEntry{kind + ".AsArray/mutate-result", func(size, pos int) (string, string, bool) {
				c := buildInt(kind, intsN(size))
				res := c.AsArray()
				before := showSeq(c)
				if len(res) == 0 {
					return before, before, false
				}
				res[pos%len(res)] = -1
				return before, showSeq(c), true
			}},
			aliasEntry{kind + ".AsArray/mutate-collection", func(size, pos int) (string, string, bool) {
				c := buildInt(kind, intsN(size))
				res := c.AsArray()
				before := fmt.Sprint(res)
				w := mutateIntColl(c, pos)
				return before, fmt.Sprint(res), w
			}},
		)
	}
	for _, kind := range intKinds {
		for _, from := range intKinds {
			kind, from := kind, from
			aliasEntries = append(aliasEntries,
				aliasEntry{kind + ".MakeFromSequence(" + from + ")/mutate-argument", func(size, pos int) (string, string, bool) {
					arg := buildInt(from, intsN(size))
					c := buildIntFromSeq(kind, arg)
					before := showSeq(c)
					w := mutateIntColl(arg, pos)
					return before, showSeq(c), w
				}},
				aliasEntry{kind + ".MakeFromSequence(" + from + ")/mutate-collection", func(size, pos int) (string, string, bool) {
					arg := buildInt(from, intsN(size))
					c := buildIntFromSeq(kind, arg)
					before := showSeq(arg)
					w := mutateIntColl(c, pos)
					return before, showSeq(arg), w
				}},
			)
		}
	}
	// a range of a collection of size+2 values: everything, a head, a tail or a middle part
	rangeOf := func(where string, size int) (int, int) {
		switch where {
		case "head":
			return 1, size
		case "tail":
			return 3, size + 2
		case "middle":
			return 2, size + 1
		}
		return 1, -1
	}
	for _, kind := range []string{"Array", "List", "Set"} {
		for _, where := range []string{"all", "head", "tail", "middle"} {
			kind, where := kind, where
			aliasEntries = append(aliasEntries,
				aliasEntry{kind + ".GetValues(" + where + ")/mutate-result", func(size, pos int) (string, string, bool) {
					c := buildInt(kind, intsN(size+2))
					before := showSeq(c)
					if size == 0 {
						return before, before, false
					}
					first, last := rangeOf(where, size)
					res := c.(col.Accessible[int]).GetValues(first, last)
					w := mutateSeqResult[int](res, pos, -1)
					return before, showSeq(c), w
				}},
				aliasEntry{kind + ".GetValues(" + where + ")/mutate-collection", func(size, pos int) (string, string, bool) {
					c := buildInt(kind, intsN(size+2))
					if size == 0 {
						return "", "", false
					}
					first, last := rangeOf(where, size)
					res := c.(col.Accessible[int]).GetValues(first, last)
					before := showSeq(res)
					w := mutateIntColl(c, pos)
					return before, showSeq(res), w
				}},
			)
		}
	}
	for _, where := range []string{"head", "tail", "middle"} {
		where := where
		aliasEntries = append(aliasEntries,
			aliasEntry{"List.RemoveValues(" + where + ")/mutate-result", func(size, pos int) (string, string, bool) {
				l := col.List[int](n).MakeFromArray(intsN(size + 2))
				if size == 0 {
					return "", "", false
				}
				first, last := rangeOf(where, size)
				res := l.RemoveValues(first, last) // leaves two values
				before := showSeq(l)
				w := mutateSeqResult[int](res, pos, -1)
				return before, showSeq(l), w
			}},
			aliasEntry{"List.RemoveValues(" + where + ")/mutate-collection", func(size, pos int) (string, string, bool) {
				l := col.List[int](n).MakeFromArray(intsN(size + 2))
				if size == 0 {
					return "", "", false
				}
				first, last := rangeOf(where, size)
				res := l.RemoveValues(first, last)
				before := showSeq(res)
				w := mutateIntColl(l, pos)
				return before, showSeq(res), w
			}},
		)
	}
	aliasEntries = append(aliasEntries,
		aliasEntry{"List.RemoveValues/mutate-result", func(size, pos int) (string, string, bool) {
			l := col.List[int](n).MakeFromArray(intsN(size + 1))
			if size == 0 {
				return "", "", false
			}
			res := l.RemoveValues(1, size) // leaves one value
			before := showSeq(l)
			w := mutateSeqResult[int](res, pos, -1)
			return before, showSeq(l), w
		}},
		aliasEntry{"List.RemoveValues/mutate-collection", func(size, pos int) (string, string, bool) {
			l := col.List[int](n).MakeFromArray(intsN(size + 1))
			if size == 0 {
				return "", "", false
			}
			res := l.RemoveValues(1, size)
			before := showSeq(res)
			w := mutateIntColl(l, pos)
			return before, showSeq(res), w
		}},
		aliasEntry{"List.Concatenate/mutate-operand", func(size, pos int) (string, string, bool) {
			L := col.List[int](n)
			a, b := L.MakeFromArray(intsN(size)), L.MakeFromArray(intsN(size))
			r := L.Concatenate(a, b)
			before := showSeq(r)
			w := mutateIntColl(a, pos)
			w = mutateIntColl(b, pos) || w
			return before, showSeq(r), w
		}},
		aliasEntry{"List.Concatenate(x, empty)/mutate-result", func(size, pos int) (string, string, bool) {
			L := col.List[int](n)
			a, b := L.MakeFromArray(intsN(size)), L.Make()
			r := L.Concatenate(a, b)
			before := fmt.Sprint(showSeq(a), showSeq(b))
			w := mutateIntColl(r, pos)
			return before, fmt.Sprint(showSeq(a), showSeq(b)), w
		}},
		aliasEntry{"List.Concatenate(empty, x)/mutate-operand", func(size, pos int) (string, string, bool) {
			L := col.List[int](n)
			a, b := L.Make(), L.MakeFromArray(intsN(size))
			r := L.Concatenate(a, b)
			before := showSeq(r)
			w := mutateIntColl(b, pos)
			return before, showSeq(r), w
		}},
		aliasEntry{"List.Concatenate/mutate-result", func(size, pos int) (string, string, bool) {
			L := col.List[int](n)
			a, b := L.MakeFromArray(intsN(size)), L.MakeFromArray(intsN(size))
			r := L.Concatenate(a, b)
			before := fmt.Sprint(showSeq(a), showSeq(b))
			w := mutateIntColl(r, pos)
			return before, fmt.Sprint(showSeq(a), showSeq(b)), w
		}},
	)
	for _, op := range []string{"And", "Or", "Sans", "Xor"} {
		op := op
		apply := func(a, b col.SetLike[int]) col.SetLike[int] {
			S := col.Set[int](n)
			switch op {
			case "And":
				return S.And(a, b)
			case "Or":
				return S.Or(a, b)
			case "Sans":
				return S.Sans(a, b)
			}
			return S.Xor(a, b)
		}
		aliasEntries = append(aliasEntries,
			aliasEntry{"Set." + op + "/mutate-result", func(size, pos int) (string, string, bool) {
				S := col.Set[int](n)
				a, b := S.MakeFromArray(intsN(size)), S.MakeFromArray(intsN(size + 1)[1:])
				r := apply(a, b)
				before := fmt.Sprint(showSeq(a), showSeq(b))
				w := mutateIntColl(r, pos)
				return before, fmt.Sprint(showSeq(a), showSeq(b)), w
			}},
			aliasEntry{"Set." + op + "(s, s)/mutate-result", func(size, pos int) (string, string, bool) {
				a := col.Set[int](n).MakeFromArray(intsN(size))
				r := apply(a, a)
				before := showSeq(a)
				w := mutateIntColl(r, pos)
				return before, showSeq(a), w
			}},
			aliasEntry{"Set." + op + "(s, s)/mutate-operand", func(size, pos int) (string, string, bool) {
				a := col.Set[int](n).MakeFromArray(intsN(size))
				r := apply(a, a)
				before := showSeq(r)
				w := mutateIntColl(a, pos)
				return before, showSeq(r), w
			}},
			aliasEntry{"Set." + op + "/mutate-operand", func(size, pos int) (string, string, bool) {
				S := col.Set[int](n)
				a, b := S.MakeFromArray(intsN(size)), S.MakeFromArray(intsN(size + 1)[1:])
				r := apply(a, b)
				before := showSeq(r)
				w := mutateIntColl(a, pos)
				w = mutateIntColl(b, pos) || w
				return before, showSeq(r), w
			}},
		)
	}
	// sets of floats: +0.0 is a member, and -0.0 (the same member under every collator, but another value)
	// is added afterwards -- a set that stores the newcomer over the old value writes into whatever array
	// the member lives in
	floatsN := func(size int) []float64 {
		out := []float64{0}
		for i := 1; i < size; i++ {
			out = append(out, float64(i)-2.5)
		}
		return out
	}
	negZero := math.Copysign(0, -1)
	addEqual := func(s col.SetLike[float64]) {
		s.AddValue(negZero)
		s.AddValues(col.List[float64](n).MakeFromArray([]float64{negZero, negZero}))
	}
	for _, op := range []string{"And", "Or", "Sans", "Xor", "MakeFromSequence"} {
		op := op
		apply := func(a, b col.SetLike[float64]) col.SetLike[float64] {
			S := col.Set[float64](n)
			switch op {
			case "And":
				return S.And(a, b)
			case "Or":
				return S.Or(a, b)
			case "Sans":
				return S.Sans(a, b)
			case "Xor":
				return S.Xor(a, b)
			}
			return S.MakeFromSequence(a)
		}
		for _, second := range []string{"disjoint", "same-values", "empty"} {
			second := second
			mk := func(size int) (col.SetLike[float64], col.SetLike[float64]) {
				S := col.Set[float64](n)
				a := S.MakeFromArray(floatsN(size))
				switch second {
				case "disjoint":
					return a, S.MakeFromArray([]float64{100, 101})
				case "same-values":
					return a, S.MakeFromArray(floatsN(size))
				}
				return a, S.Make()
			}
			aliasEntries = append(aliasEntries,
				aliasEntry{"Set[float64]." + op + "(a, " + second + ")/add-equal-value-to-result", func(size, pos int) (string, string, bool) {
					a, b := mk(size)
					r := apply(a, b)
					before := fmt.Sprint(showSeq(a), showSeq(b))
					addEqual(r)
					return before, fmt.Sprint(showSeq(a), showSeq(b)), size > 0
				}},
				aliasEntry{"Set[float64]." + op + "(a, " + second + ")/add-equal-value-to-operand", func(size, pos int) (string, string, bool) {
					a, b := mk(size)
					r := apply(a, b)
					before := showSeq(r)
					addEqual(a)
					addEqual(b)
					return before, showSeq(r), size > 0
				}},
			)
		}
	}
	// associative kinds
	for _, kind := range []string{"Catalog", "Map"} {
		kind := kind
		fromArray := func(a []col.AssociationLike[int, int]) assocLike[int, int] {
			if kind == "Catalog" {
				return col.Catalog[int, int](n).MakeFromArray(a)
			}
			return col.Map[int, int](n).MakeFromArray(a)
		}
		fromMap := func(m map[int]int) assocLike[int, int] {
			if kind == "Catalog" {
				return col.Catalog[int, int](n).MakeFromMap(m)
			}
			return col.Map[int, int](n).MakeFromMap(m)
		}
		fromSeq := func(s col.Sequential[col.AssociationLike[int, int]]) assocLike[int, int] {
			if kind == "Catalog" {
				return col.Catalog[int, int](n).MakeFromSequence(s)
			}
			return col.Map[int, int](n).MakeFromSequence(s)
		}
		mutateAssoc := func(c assocLike[int, int], pos int) bool {
			c.SetValue(pos+1, -1)
			c.SetValue(99, -2)
			c.RemoveValue(pos + 2)
			return true
		}
		aliasEntries = append(aliasEntries,
			aliasEntry{kind + ".MakeFromArray/mutate-argument", func(size, pos int) (string, string, bool) {
				arg := assocsN(size)
				c := fromArray(arg)
				before := showAssocColl(c)
				if size == 0 {
					return before, before, false
				}
				arg[pos%size] = col.Association[int, int](n).Make(77, 7)
				return before, showAssocColl(c), true
			}},
			aliasEntry{kind + ".MakeFromArray/mutate-collection", func(size, pos int) (string, string, bool) {
				arg := assocsN(size)
				c := fromArray(arg)
				before := showAssocs(arg)
				mutateAssoc(c, pos)
				for _, a := range c.AsArray() {
					a.SetValue(-5)
				}
				return before, showAssocs(arg), true
			}},
			aliasEntry{kind + ".MakeFromMap/mutate-argument", func(size, pos int) (string, string, bool) {
				arg := mapN(size)
				c := fromMap(arg)
				before := showAssocColl(c)
				arg[pos+1] = -1
				arg[99] = -2
				delete(arg, pos+2)
				return before, showAssocColl(c), true
			}},
			aliasEntry{kind + ".MakeFromMap/mutate-collection", func(size, pos int) (string, string, bool) {
				arg := mapN(size)
				c := fromMap(arg)
				before := showMap(arg)
				mutateAssoc(c, pos)
				c.RemoveAll()
				return before, showMap(arg), true
			}},
			aliasEntry{kind + ".MakeFromSequence/mutate-argument", func(size, pos int) (string, string, bool) {
				arg := col.List[col.AssociationLike[int, int]](n).MakeFromArray(assocsN(size))
				c := fromSeq(arg)
				before := showAssocColl(c)
				arg.AppendValue(col.Association[int, int](n).Make(77, 7))
				arg.RemoveValue(1)
				return before, showAssocColl(c), true
			}},
			aliasEntry{kind + ".MakeFromSequence/mutate-collection", func(size, pos int) (string, string, bool) {
				arg := col.List[col.AssociationLike[int, int]](n).MakeFromArray(assocsN(size))
				c := fromSeq(arg)
				before := showAssocs(arg.AsArray())
				mutateAssoc(c, pos)
				for _, a := range c.AsArray() {
					a.SetValue(-5)
				}
				c.RemoveAll()
				return before, showAssocs(arg.AsArray()), true
			}},
			aliasEntry{kind + ".AsArray/mutate-result", func(size, pos int) (string, string, bool) {
				c := fromMap(mapN(size))
				res := c.AsArray()
				before := showAssocColl(c)
				if len(res) == 0 {
					return before, before, false
				}
				res[pos%len(res)] = col.Association[int, int](n).Make(77, 7)
				return before, showAssocColl(c), true
			}},
			aliasEntry{kind + ".AsArray/mutate-collection", func(size, pos int) (string, string, bool) {
				c := fromMap(mapN(size))
				res := c.AsArray()
				keys := func() string {
					ks := []int{}
					for _, a := range res {
						ks = append(ks, a.GetKey())
					}
					sort.Ints(ks)
					return fmt.Sprint(ks)
				}
				before := keys()
				c.SetValue(99, -2)
				c.RemoveValue(pos + 1)
				c.RemoveAll()
				return before, keys(), true
			}},
			aliasEntry{kind + ".GetKeys/mutate-result", func(size, pos int) (string, string, bool) {
				c := fromMap(mapN(size))
				res := c.GetKeys()
				before := showAssocColl(c)
				w := mutateSeqResult[int](res, pos, 555)
				return before, showAssocColl(c), w
			}},
			aliasEntry{kind + ".GetKeys/mutate-collection", func(size, pos int) (string, string, bool) {
				c := fromMap(mapN(size))
				res := c.GetKeys()
				ks := func() string { a := res.AsArray(); sort.Ints(a); return fmt.Sprint(a) }
				before := ks()
				mutateAssoc(c, pos)
				c.RemoveAll()
				return before, ks(), true
			}},
			aliasEntry{kind + ".GetValues/mutate-result", func(size, pos int) (string, string, bool) {
				c := fromMap(mapN(size))
				res := c.GetValues(c.GetKeys())
				before := showAssocColl(c)
				w := mutateSeqResult[int](res, pos, 555)
				return before, showAssocColl(c), w
			}},
			aliasEntry{kind + ".GetValues/mutate-collection", func(size, pos int) (string, string, bool) {
				c := fromMap(mapN(size))
				res := c.GetValues(c.GetKeys())
				vs := func() string { a := res.AsArray(); sort.Ints(a); return fmt.Sprint(a) }
				before := vs()
				mutateAssoc(c, pos)
				for _, a := range c.AsArray() {
					a.SetValue(-5)
				}
				return before, vs(), true
			}},
			aliasEntry{kind + ".RemoveValues/mutate-result", func(size, pos int) (string, string, bool) {
				c := fromMap(mapN(size + 1))
				res := c.RemoveValues(col.List[int](n).MakeFromArray(intsDiv10(intsN(size))))
				before := showAssocColl(c)
				w := mutateSeqResult[int](res, pos, 555)
				return before, showAssocColl(c), w
			}},
		)
	}
	aliasEntries = append(aliasEntries,
		aliasEntry{"Catalog.Merge(c, c)/mutate-result", func(size, pos int) (string, string, bool) {
			C := col.Catalog[int, int](n)
			a := C.MakeFromMap(mapN(size))
			r := C.Merge(a, a)
			before := showAssocs(a.AsArray())
			r.SetValue(pos+1, -1)
			r.SetValue(98, 1)
			r.RemoveAll()
			return before, showAssocs(a.AsArray()), true
		}},
		aliasEntry{"List.Concatenate(l, l)/mutate-result", func(size, pos int) (string, string, bool) {
			L := col.List[int](n)
			a := L.MakeFromArray(intsN(size))
			r := L.Concatenate(a, a)
			before := showSeq(a)
			w := mutateIntColl(r, pos)
			return before, showSeq(a), w
		}},
		aliasEntry{"Catalog.Merge/mutate-result", func(size, pos int) (string, string, bool) {
			C := col.Catalog[int, int](n)
			a, b := C.MakeFromMap(mapN(size)), C.MakeFromMap(mapN(size+1))
			r := C.Merge(a, b)
			before := showAssocs(a.AsArray()) + showAssocs(b.AsArray())
			r.SetValue(pos+1, -1)
			for _, x := range r.AsArray() {
				x.SetValue(-5)
			}
			r.RemoveAll()
			return before, showAssocs(a.AsArray()) + showAssocs(b.AsArray()), true
		}},
		aliasEntry{"Catalog.Extract/mutate-result", func(size, pos int) (string, string, bool) {
			C := col.Catalog[int, int](n)
			a := C.MakeFromMap(mapN(size))
			r := C.Extract(a, a.GetKeys())
			before := showAssocs(a.AsArray())
			r.SetValue(pos+1, -1)
			for _, x := range r.AsArray() {
				x.SetValue(-5)
			}
			r.RemoveAll()
			return before, showAssocs(a.AsArray()), true
		}},
	)
}

func intsDiv10(xs []int) []int {
	out := make([]int, len(xs))
	for i, x := range xs {
		out[i] = x / 10
	}
	return out
}

func execAliasCase(c aliasCase, _ core.Source) (res core.Result) {
	var e *aliasEntry
	for i := range aliasEntries {
		if aliasEntries[i].name == c.Entry {
			e = &aliasEntries[i]
		}
	}
	if e == nil {
		panic(core.HarnessError{Msg: "unknown alias entry " + c.Entry})
	}
	var before, after string
	var wrote bool
	p, payload := lib.Call(func() { before, after, wrote = e.run(c.Size, c.Pos) })
	if p {
		res.Violation = core.Violate("C18/panicked/"+c.Entry, "%s (size %d, position %d) panicked: %s", c.Entry, c.Size, c.Pos, lib.Short(payload))
		return
	}
	if before != after {
		res.Violation = core.Violate("C18/aliased/"+c.Entry, "%s (size %d, position %d): the other side changed from %s to %s", c.Entry, c.Size, c.Pos, before, after)
		return
	}
	res.NonTrivial = wrote && c.Size >= 1
	res.Classes = append(res.Classes, fmt.Sprintf("size-%d", c.Size))
	return
}

func genAliasCase(s core.Source) aliasCase {
	names := make([]string, len(aliasEntries))
	for i := range aliasEntries {
		names[i] = aliasEntries[i].name
	}
	c := aliasCase{Entry: core.Pick(s, names, "entry"), Size: s.Choose(5, "size")}
	c.Pos = s.Choose(max(c.Size, 1), "pos")
	return c
}

// ---------------------------------------------------------------- self-operand part

type selfCase struct {
	Op   string `json:"op"`
	Size int    `json:"size"`
	Arg  int    `json:"arg"` // slot or index
	View string `json:"view"`
}

var selfOps = []string{"List.AppendValues", "List.InsertValues", "List.SetValues", "Array.SetValues", "List.ContainsAny", "List.ContainsAll",
	"Set.AddValues", "Set.RemoveValues", "Set.ContainsAny", "Set.ContainsAll", "Catalog.RemoveValues(GetKeys)", "Map.RemoveValues(GetKeys)",
	"Catalog.GetValues(GetKeys)", "Stack.from-self", "Queue.from-self"}

func genSelfCase(s core.Source) selfCase {
	// sizes 0..4, and sizes on both sides of 16, 64 and 128 (where an implementation may switch strategy)
	c := selfCase{Op: core.Pick(s, selfOps, "op"), Size: []int{0, 1, 2, 3, 4, 16, 17, 64, 65, 130}[s.Choose(10, "size")]}
	c.Arg = s.Choose(min(c.Size, 4)+1, "arg")
	if c.Size > 4 && c.Arg == 4 {
		c.Arg = c.Size // the far end
	}
	c.View = core.Pick(s, []string{"self", "GetValues-view", "AsArray-list"}, "view")
	return c
}

// execSelfCase runs the same bulk operation twice on identical collections: once with the
// receiver itself (or a view of it) as operand, once with an independent copy; the outcomes must be equal.
func execSelfCase(c selfCase, _ core.Source) (res core.Result) {
	n := lib.Notation()
	vals := intsN(c.Size)
	run := func(self bool) (out string) {
		defer func() {
			if e := recover(); e != nil {
				if _, ok := e.(core.HarnessError); ok {
					panic(e)
				}
				out = "panic"
			}
		}()
		operandFor := func(recv col.Sequential[int]) col.Sequential[int] {
			if !self {
				return col.List[int](n).MakeFromArray(vals)
			}
			switch c.View {
			case "GetValues-view":
				if a, ok := recv.(col.Accessible[int]); ok && c.Size > 0 {
					return a.GetValues(1, -1)
				}
			case "AsArray-list":
				return col.List[int](n).MakeFromArray(recv.AsArray())
			}
			return recv
		}
		switch c.Op {
		case "List.AppendValues":
			l := col.List[int](n).MakeFromArray(vals)
			l.AppendValues(operandFor(l))
			return fmt.Sprint(l.AsArray())
		case "List.InsertValues":
			l := col.List[int](n).MakeFromArray(vals)
			l.InsertValues(uint(c.Arg), operandFor(l))
			return fmt.Sprint(l.AsArray())
		case "List.SetValues":
			l := col.List[int](n).MakeFromArray(vals)
			l.SetValues(c.Arg+1, operandFor(l))
			return fmt.Sprint(l.AsArray())
		case "Array.SetValues":
			a := col.Array[int](n).MakeFromArray(vals)
			a.SetValues(c.Arg+1, operandFor(a))
			return fmt.Sprint(a.AsArray())
		case "List.ContainsAny":
			l := col.List[int](n).MakeFromArray(vals)
			return fmt.Sprint(l.ContainsAny(operandFor(l)), l.AsArray())
		case "List.ContainsAll":
			l := col.List[int](n).MakeFromArray(vals)
			return fmt.Sprint(l.ContainsAll(operandFor(l)), l.AsArray())
		case "Set.AddValues":
			s := col.Set[int](n).MakeFromArray(vals)
			s.AddValues(operandFor(s))
			return fmt.Sprint(s.AsArray())
		case "Set.RemoveValues":
			s := col.Set[int](n).MakeFromArray(vals)
			s.RemoveValues(operandFor(s))
			return fmt.Sprint(s.AsArray())
		case "Set.ContainsAny":
			s := col.Set[int](n).MakeFromArray(vals)
			return fmt.Sprint(s.ContainsAny(operandFor(s)), s.AsArray())
		case "Set.ContainsAll":
			s := col.Set[int](n).MakeFromArray(vals)
			return fmt.Sprint(s.ContainsAll(operandFor(s)), s.AsArray())
		case "Catalog.RemoveValues(GetKeys)", "Map.RemoveValues(GetKeys)", "Catalog.GetValues(GetKeys)":
			var a assocLike[int, int]
			if c.Op[0] == 'C' {
				a = col.Catalog[int, int](n).MakeFromArray(assocsN(c.Size))
			} else {
				a = col.Map[int, int](n).MakeFromArray(assocsN(c.Size))
			}
			var keys col.Sequential[int] = col.List[int](n).MakeFromArray(intsDiv10(vals))
			if self {
				keys = a.GetKeys()
			}
			var got []int
			if c.Op == "Catalog.GetValues(GetKeys)" {
				got = a.GetValues(keys).AsArray()
			} else {
				got = a.RemoveValues(keys).AsArray()
				sort.Ints(got)
			}
			return fmt.Sprint(got, showAssocs(a.AsArray()))
		case "Stack.from-self":
			s := col.Stack[int](n).MakeFromArray(vals)
			var src col.Sequential[int] = col.List[int](n).MakeFromArray(s.AsArray())
			if self {
				src = s
			}
			s2 := col.Stack[int](n).MakeFromSequence(src)
			s2.AddValue(-1)
			return fmt.Sprint(s.AsArray(), s2.AsArray())
		case "Queue.from-self":
			q := col.Queue[int](n).MakeFromArray(vals)
			var src col.Sequential[int] = col.List[int](n).MakeFromArray(q.AsArray())
			if self {
				src = q
			}
			q2 := col.Queue[int](n).MakeFromSequence(src)
			if uint(q2.GetSize()) < q2.GetCapacity() {
				q2.AddValue(-1) // (on a full queue AddValue waits for a consumer)
			} else {
				q2.RemoveHead()
			}
			return fmt.Sprint(q.AsArray(), q2.AsArray())
		}
		panic(core.HarnessError{Msg: "unknown self op " + c.Op})
	}
	withCopy := run(false)
	withSelf := run(true)
	if withCopy != withSelf {
		res.Violation = core.Violate("C18/self-operand/"+c.Op, "%s with the receiver (%s) as operand, size %d, argument %d gave %s; with an independent copy it gives %s", c.Op, c.View, c.Size, c.Arg, withSelf, withCopy)
		return
	}
	res.NonTrivial = c.Size >= 1
	return
}

func TestC18(t *testing.T) {
	r := core.Begin(t, "C18")
	defer r.End()
	core.DFS(r, core.Check[aliasCase]{Name: "entry-points", Gen: genAliasCase, Exec: execAliasCase, NoJournal: true}, 0)
	core.DFS(r, core.Check[selfCase]{Name: "self-operands", Gen: genSelfCase, Exec: execSelfCase, NoJournal: true}, 0)
}
