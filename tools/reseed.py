#!/usr/bin/python3
"""usage: reseed.py [tag ...]   -- re-runs the quick check of every kept seeded change (default: all) against /repo with
the patch applied, reverts, and records the outcome in meta.json under detected["<prop>/quick"].  Evidence is not written."""
import glob, json, os, subprocess, sys, time
tags = sys.argv[1:] or sorted(os.path.basename(d) for d in glob.glob('/verif/seeded/C*'))
env = dict(os.environ, VERIF_NO_EVIDENCE='1')
def sh(cmd, **kw):
    p = subprocess.run(cmd, capture_output=True, text=True, **kw)
    return p.returncode, p.stdout + p.stderr
assert sh(['git', '-C', '/repo', 'status', '--porcelain'])[1].strip() == '', '/repo is not clean'
missed = []
for tag in tags:
    d = '/verif/seeded/' + tag
    meta = json.load(open(d + '/meta.json'))
    pid = meta.get('property', tag[:3])
    rc, o = sh(['git', '-C', '/repo', 'apply', '--check', d + '/patch.diff'])
    if rc != 0:
        print(tag, 'patch no longer applies to /repo HEAD:', o.strip().splitlines()[:1]); sys.stdout.flush()
        meta['reseed'] = 'patch no longer applies to the current /repo HEAD'
        json.dump(meta, open(d + '/meta.json', 'w'), indent=1)
        continue
    sh(['git', '-C', '/repo', 'apply', d + '/patch.diff'])
    t0 = time.time()
    try:
        rc, o = sh(['/verif/check', pid, '--tier', 'quick'], cwd='/verif', env=env, timeout=3600)
    finally:
        sh(['git', '-C', '/repo', 'checkout', '--', '.'])
        sh(['git', '-C', '/repo', 'clean', '-fdq', 'v4'])
    lines = [l for l in o.splitlines() if l.startswith('VIOLATION') or l.startswith('  sub-check') or l.startswith('INCONCLUSIVE') or l.startswith('OK ')]
    meta.setdefault('detected', {})[pid + '/quick'] = {'exit': rc, 'summary': lines[:8], 'wall_s': round(time.time() - t0, 1)}
    meta.pop('reseed', None)
    json.dump(meta, open(d + '/meta.json', 'w'), indent=1)
    sigs = [l.split('signature:')[-1].strip() for l in lines if 'signature' in l][:2]
    print(tag, rc, sigs); sys.stdout.flush()
    if rc != 1:
        missed.append(tag)
print('MISSED:', missed)
