#!/bin/sh
# usage: tools/runall.sh [tier]  -- runs every registered check once and prints one line each
tier=${1:-quick}
cd "$(dirname "$0")/.."
for p in $(python3 -c "
import sys; sys.path.insert(0,'.')
from checks_table import CHECKS
print(' '.join(sorted(CHECKS)))"); do
  start=$(date +%s)
  out=$(./check $p --tier $tier 2>&1); rc=$?
  end=$(date +%s)
  echo "$p rc=$rc $((end-start))s $(echo "$out" | grep -E '^(OK|VIOLATION|INCONCLUSIVE|KNOWN)' | head -3 | tr '\n' '|' | cut -c1-300)"
done
