#!/usr/bin/python3
"""usage: altbatch.py [-j N] <tag> ...   -- runs tools/altseed.py for the tags, N at a time (default 4), and prints one line per tag"""
import json, os, subprocess, sys
from concurrent.futures import ThreadPoolExecutor
args = sys.argv[1:]
jobs, base = 4, 0
while args and args[0] in ('-j', '--slot-base'):
    if args[0] == '-j':
        jobs = int(args[1])
    else:
        base = int(args[1])  # first slot directory to use (two batches at once must not share slots)
    args = args[2:]
here = os.path.dirname(os.path.abspath(__file__))
import queue
slots = queue.Queue()
def one(tag):
    slot = slots.get()
    try:
        p = subprocess.run([sys.executable, os.path.join(here, 'altseed.py'), tag], capture_output=True, text=True, env=dict(os.environ, ALT_SLOT=str(slot)))
    finally:
        slots.put(slot)
    f = '/verif/seeded/%s/meta.json' % tag
    if not os.path.exists(f):
        return '%s NOT STORED: %s' % (tag, (p.stdout + p.stderr)[-400:])
    m = json.load(open(f))
    det = {k: (v.get('exit'), [s.split('signature:')[-1].strip() for s in v.get('summary', []) if 'signature' in s][:2]) for k, v in m.get('detected', {}).items()}
    return '%s confirmed=%s %s' % (tag, m.get('confirmation', {}).get('confirmed'), det)
for k in range(jobs):
    slots.put(base + k)
with ThreadPoolExecutor(max_workers=jobs) as ex:
    for line in ex.map(one, args):
        print(line); sys.stdout.flush()
