#!/usr/bin/python3
"""Rewrites the generated tables of DESIGN.md (between marker comments) from known_findings.json and seeded/*/meta.json."""
import glob, json, os, re
ROOT = os.path.dirname(os.path.dirname(os.path.abspath(__file__)))
d = open(os.path.join(ROOT, "DESIGN.md")).read()

ff = json.load(open(os.path.join(ROOT, "known_findings.json")))["findings"]
rows = ["| id | property | status | commit | what failed | witness (regression replay) |", "|---|---|---|---|---|---|"]
for f in sorted(ff, key=lambda f: (f["id"], f["property"])):
    rows.append("| %s | %s | %s | %s | %s | %s |" % (f["id"], f["property"], f["status"], f.get("commit", ""), f["what"].replace("|", "\\|"), ", ".join(os.path.basename(w) for w in f.get("witness_files", [])) or "(race report; not replayable)"))
findings = "\n".join(rows)

rows = ["| seed | property | what was changed | needs | detected by (quick tier unless noted) |", "|---|---|---|---|---|"]
n = det = 0
for m in sorted(glob.glob(os.path.join(ROOT, "seeded", "*", "meta.json"))):
    meta = json.load(open(m))
    tag = os.path.basename(os.path.dirname(m))
    dets = []
    for k, v in sorted(meta.get("detected", {}).items()):
        if v.get("exit") == 1:
            sig = [l for l in v.get("summary", []) if "signature" in l]
            dets.append(k.split("/")[0] + ": " + (sig[0].split("signature:")[1].strip() if sig else "violation") + (" (thorough tier only)" if k.endswith("/thorough") else ""))
    n += 1
    det += 1 if dets else 0
    thorough_only = locals().get("thorough_only", 0) + (1 if dets and all("thorough tier only" in d for d in dets) else 0)
    if meta.get("obsolete"):
        dets.append("obsolete: " + meta["obsolete"][:160])
    rows.append("| %s | %s | %s | %s | %s |" % (tag, meta["property"], meta.get("summary", "").replace("|", "\\|")[:300], meta.get("needs", "").replace("|", "\\|")[:260], "; ".join(dets) or "**missed**"))
rows.append("")
rows.append("%d seeded changes confirmed, %d detected (%d of them by the thorough tier only, the others by the quick tier)." % (n, det, thorough_only))
seeded = "\n".join(rows)

def put(doc, name, body):
    pat = re.compile(r"(<!-- %s -->).*?(<!-- /%s -->)" % (name, name), re.S)
    assert pat.search(doc), name
    return pat.sub(lambda m: m.group(1) + "\n" + body + "\n" + m.group(2), doc)

import sys
sys.path.insert(0, ROOT)
from checks_table import CHECKS
rows = ["| property | sub-check | driver | cases in the last quick run | distinct non-trivial | complete enumeration |", "|---|---|---|---|---|---|"]
for pid in sorted(CHECKS):
    path = os.path.join(ROOT, "evidence", pid + ".json")
    if not os.path.exists(path):
        continue
    ev = json.load(open(path))
    if ev.get("tier") != "quick":
        continue
    for sc in ev["coverage"]["sub_checks"]:
        rows.append("| %s | %s | %s | %d | %d | %s |" % (pid, sc["name"], sc["mode"], sc["evaluations"], sc["distinct_nontrivial"], "yes" if sc.get("exhaustive") else ""))
checks = "\n".join(rows)
d = put(d, "CHECKS-TABLE", checks)
d = put(d, "FINDINGS-TABLE", findings)
d = put(d, "SEEDED-TABLE", seeded)
open(os.path.join(ROOT, "DESIGN.md"), "w").write(d)
print("tables regenerated: %d findings rows, %d seeds" % (len(ff), n))
