#!/usr/bin/python3
"""Regenerates /verif/MANIFEST.json from checks_table.py and properties.jsonl."""
import json, os, sys
ROOT = os.path.dirname(os.path.dirname(os.path.abspath(__file__)))
sys.path.insert(0, ROOT)
from checks_table import CHECKS, HOOKS, NOT_APPLICABLE

props = [json.loads(l) for l in open(os.path.join(ROOT, "properties.jsonl")) if l.strip()]
checks = []
na = []
for p in props:
    pid = p["id"]
    c = CHECKS.get(pid)
    if c is None:
        na.append({"property_id": pid, "reason": NOT_APPLICABLE.get(pid, "no check registered")})
        continue
    checks.append({
        "property_id": pid,
        "quick_cmd": "./check %s --tier quick" % pid,
        "thorough_cmd": "./check %s --tier thorough" % pid,
        "evidence_file": "/verif/evidence/%s.json" % pid,
        "replay_cmd_template": "./check %s --replay {path}" % pid,
        "engine": "harness",
        "level_claimed": {"category": "exploration", "text": c["level_text"], "design_ref": c.get("design_ref", "DESIGN.md section 6, " + pid)},
        "level_note": c["level_note"],
        "technique": c["technique"],
    })
m = {
    "version": 1,
    "setup_cmd": "./check --setup",
    "hooks": HOOKS,
    "engines": [{"name": "harness", "path": "/verif/harness", "serves_properties": sorted(CHECKS.keys()),
                 "kind_free_text": "Go module: pgregory.net/rapid v1.3.0 generators behind a Source interface with three drivers (rapid random+shrink, exhaustive DFS enumeration, recorded replay), explicit oracles (reference models, round trips, differential and metamorphic relations), a cooperative scheduler that turns goroutine schedules into generated inputs, native go fuzzing and the race detector in the thorough/stress parts; python driver ./check"}],
    "checks": checks,
    "not_applicable": na,
    "notes": "Every check is generated-input search against an explicit oracle; see DESIGN.md. Exit codes: 0 held, 1 VIOLATION line printed, 2 inconclusive.",
}
json.dump(m, open(os.path.join(ROOT, "MANIFEST.json"), "w"), indent=1)
print("MANIFEST.json: %d checks, %d not_applicable" % (len(checks), len(na)))
