#!/usr/bin/python3
"""usage: altseed.py <tag> [--tier quick|thorough] [--checks C01,C18]   -- like tryseed.py, but /repo is never touched:
the checks run against the patched scratch worktree (VERIF_REPO), so several seeds can be tried at once and while other runs use /repo.
Confirms a seeded change delivered in /tmp/mut/<tag>/ (patch.diff, seeded_demo_test.go, meta.json):
  1. in a scratch worktree of /repo HEAD: baseline suite passes WITH the patch, the demo FAILS with it and PASSES without it;
  2. runs the property's check(s) against that patched worktree (VERIF_REPO=<worktree>), then removes it;
  3. stores everything under /verif/seeded/<tag>/ with the outcome in meta.json."""
import json, os, shutil, subprocess, sys, time
tag = sys.argv[1]
tier = 'quick'
checks = None
args = sys.argv[2:]
while args:
    if args[0] == '--tier': tier = args[1]; args = args[2:]
    elif args[0] == '--checks': checks = args[1].split(','); args = args[2:]
    else: raise SystemExit('bad arg ' + args[0])
src = '/tmp/mut/' + tag
if not os.path.exists(src + '/patch.diff') and os.path.exists('/verif/seeded/%s/patch.diff' % tag):
    src = '/verif/seeded/' + tag
meta = json.load(open(src + '/meta.json'))
pid = meta['property']
env = dict(os.environ, GOFLAGS='-mod=mod', GOPROXY='off', GOSUMDB='off', GOTOOLCHAIN='local', VERIF_NO_EVIDENCE='1')
def run(cmd, cwd=None, timeout=1800):
    p = subprocess.run(cmd, cwd=cwd, env=env, capture_output=True, text=True, timeout=timeout, shell=isinstance(cmd, str))
    return p.returncode, p.stdout + p.stderr
out = {'tag': tag, 'property': pid}
# a small fixed set of scratch directories (slots): every distinct directory adds a full set of entries to the Go
# build cache, which filled the disk when each tag had a directory of its own
slot = os.environ.get('ALT_SLOT', '0')
base = '/tmp/altslot-' + slot
wt = base + '/repo'
os.makedirs(base, exist_ok=True)
run(['git', '-C', '/repo', 'worktree', 'remove', '--force', wt])
rc, o = run(['git', '-C', '/repo', 'worktree', 'add', '--detach', wt, 'HEAD'])
assert rc == 0, o
try:
    demo_dir = meta.get('demo_dir', 'collection').strip('/')
    if demo_dir.startswith('v4/'): demo_dir = demo_dir[3:]
    if demo_dir in ('.', 'v4', ''): demo_dir = ''
    demos = [f for f in os.listdir(src) if f.endswith('_test.go')]
    race = ' -race' if '-race' in meta.get('demo_cmd', '') else ''
    assert demos, 'no demo test'
    rc, o = run(['git', 'apply', '--check', src + '/patch.diff'], cwd=wt)
    out['applies'] = rc == 0
    if rc != 0:
        out['apply_error'] = o[-500:]
        raise SystemExit(json.dumps(out, indent=1))
    # without the patch: demo passes
    for d in demos: shutil.copy(os.path.join(src, d), os.path.join(wt, 'v4', demo_dir, d))
    rc, o = run('go test -vet=off -count=1' + race + ' ./' + (demo_dir or '.') + '/', cwd=wt + '/v4')
    out['demo_passes_without_change'] = rc == 0
    if rc != 0: out['demo_without_output'] = o[-800:]
    run(['git', 'apply', src + '/patch.diff'], cwd=wt)
    rc, o = run('go test -vet=off -count=1' + race + ' ./' + (demo_dir or '.') + '/', cwd=wt + '/v4')
    out['demo_fails_with_change'] = rc != 0
    out['demo_output'] = o[-600:]
    for d in demos: os.remove(os.path.join(wt, 'v4', demo_dir, d))
    rc, o = run('go build ./... && go test -vet=off -count=1 ./...', cwd=wt + '/v4')
    out['suite_passes_with_change'] = rc == 0
    if rc != 0: out['suite_output'] = o[-800:]
    rc, o = run('go build -tags verif ./...', cwd=wt + '/v4')
    out['builds_with_hooks'] = rc == 0
    confirmed = out.get('demo_passes_without_change') and out.get('demo_fails_with_change') and out.get('suite_passes_with_change')
    out['confirmed'] = bool(confirmed)
    results = {}
    if confirmed:
        # the worktree holds the patch (and no demo file): run the checks against it
        cenv = dict(env, VERIF_REPO=wt)
        for c in (checks or [pid]):
            t0 = time.time()
            p = subprocess.run(['/verif/check', c, '--tier', tier], cwd='/verif', env=cenv, capture_output=True, text=True, timeout=7200)
            rc, o = p.returncode, p.stdout + p.stderr
            lines = [l for l in o.splitlines() if l.startswith('VIOLATION') or l.startswith('  sub-check') or l.startswith('INCONCLUSIVE') or l.startswith('OK ')]
            results[c] = {'exit': rc, 'wall_s': round(time.time() - t0, 1), 'summary': lines[:8], 'detail': o[-1500:] if rc != 0 else ''}
finally:
    run(['git', '-C', '/repo', 'worktree', 'remove', '--force', wt])
    shutil.rmtree(wt, ignore_errors=True)
out['checks_' + tier] = results
dst = '/verif/seeded/' + tag
os.makedirs(dst, exist_ok=True)
if src != dst:
    for f in os.listdir(src):
        shutil.copy(os.path.join(src, f), os.path.join(dst, f))
meta.update({'confirmation': {k: v for k, v in out.items() if k not in ('checks_' + tier,)}, 'what_i_ran': 'tools/altseed.py %s (scratch worktree: suite with change, demo with/without change; then ./check with VERIF_REPO pointing at the patched worktree)' % tag})
meta.setdefault('detected', {})
for c, r in results.items():
    meta['detected'][c + '/' + tier] = {'exit': r['exit'], 'summary': r['summary'], 'wall_s': r['wall_s']}
json.dump(meta, open(dst + '/meta.json', 'w'), indent=1)
brief = {k: v for k, v in out.items() if k not in ('demo_output',)}
for c, r in results.items():
    r.pop('detail', None)
print(json.dumps(brief, indent=1))
