#!/bin/sh
# usage: tools/runsome.sh <tier> <pid>...
tier=$1; shift
cd "$(dirname "$0")/.."
for p in "$@"; do
  start=$(date +%s)
  out=$(./check $p --tier $tier 2>&1); rc=$?
  end=$(date +%s)
  echo "$p rc=$rc $((end-start))s $(echo "$out" | grep -E '^(OK|VIOLATION|INCONCLUSIVE|KNOWN)' | head -3 | tr '\n' '|' | cut -c1-300)"
done
