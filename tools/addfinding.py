#!/usr/bin/python3
"""usage: addfinding.py ID PROP STATUS COMMIT SIGNATURE WHAT [witness_file ...]"""
import json, sys, os
ROOT = os.path.dirname(os.path.dirname(os.path.abspath(__file__)))
fid, prop, status, commit, sig, what = sys.argv[1:7]
wit = sys.argv[7:]
path = os.path.join(ROOT, "known_findings.json")
ff = json.load(open(path))
ff["findings"] = [f for f in ff["findings"] if not (f["id"] == fid and f["property"] == prop)]
e = {"id": fid, "property": prop, "status": status, "signature": sig, "what": what, "witness_files": wit}
if status == "fixed":
    e["commit"] = commit
    e["line"] = "fixed: property=%s %s %s" % (prop, commit, what)
ff["findings"].append(e)
ff["findings"].sort(key=lambda f: (f["id"], f["property"]))
json.dump(ff, open(path, "w"), indent=1)
print("recorded", fid, prop, status)
