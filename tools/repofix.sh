#!/bin/sh
# usage: tools/repofix.sh <commit message file>   -- runs the baseline suite (guard off) and commits /repo only if it passes
set -e
export GOFLAGS=-mod=mod GOPROXY=off GOSUMDB=off GOTOOLCHAIN=local
cd /repo/v4
test -z "$(gofmt -l .)" || { echo "gofmt:"; gofmt -l .; exit 1; }
go build ./...
go test -vet=off -count=1 ./... 2>&1 | tail -6
go test -vet=off -count=1 ./... >/dev/null 2>&1
cd /repo
git add -A
git commit -q -F "$1"
git log --oneline | head -1
