#!/usr/bin/python3
"""usage: mkprompt.py <variant-letter> <pid>... : writes /tmp/mut/prompts/<pid><variant>.txt and creates the worktrees /tmp/wt-<pid><variant>"""
import json, os, subprocess, sys
props = {json.loads(l)['id']: json.loads(l) for l in open('/verif/properties.jsonl') if l.strip()}
os.makedirs('/tmp/mut/prompts', exist_ok=True)
TEMPLATE = open(os.path.join(os.path.dirname(os.path.abspath(__file__)), 'seed_prompt.txt')).read()
hints = json.load(open(os.path.join(os.path.dirname(os.path.abspath(__file__)), 'seed_hints.json')))
variant = sys.argv[1]
extra = {
 'a': '',
 'b': '\nADDITIONAL REQUIREMENT: make the defect depend on TWO things at once (for example a particular size AND a particular position, or a particular kind AND a second call), and avoid the most obvious candidate function: pick a less central code path that the property still covers.',
 'd': '\nADDITIONAL REQUIREMENT: make TWO cooperating edits in two DIFFERENT functions (preferably different files), each of which looks harmless or even like a clean-up when reviewed alone and neither of which breaks the property alone; only together do they break it. patch.diff contains both. In meta.json describe both sites.',
 'e': '\nADDITIONAL REQUIREMENT: disguise the defect as a performance optimisation (a cache, a fast path, an early exit, a skipped copy, a reused buffer or agent) with a plausible comment; it must be wrong only in a corner case that ordinary use does not hit.',
 'f': '\nADDITIONAL REQUIREMENT: the defect must only show for a specific element/key TYPE or VALUE CLASS (for example: the zero value of the type, an empty string or empty collection as element, nil inside a container, NaN or negative zero, a value at an integer boundary, a non-ASCII rune or string, a rune vs an int32, an unsigned value above the signed range, a very long value, a repeated value) while the same operations on ordinary small ints or short ASCII strings stay correct.',
 'g': '\nADDITIONAL REQUIREMENT: put the defect into an OBSERVER / accessor / metadata path (for example GetSize, IsEmpty, GetCapacity, GetCollator, GetKeys, GetValues, GetIndex, Contains*, HasNext/HasPrevious, GetSlot, AsArray, String/FormatValue of a particular kind) or into a CONSTRUCTOR path, not into the central mutating method; it must be wrong only in a corner case.',
 'h': '\nADDITIONAL REQUIREMENT: make the defect STATE-DEPENDENT: it must only show AFTER a specific earlier operation on the same instance (for example after RemoveAll, after a sort/reverse/shuffle, after a call that panicked, after the capacity was reached once, after an iterator was taken, after a close) - the same later operation on a fresh instance is correct.',
 'i': '\nADDITIONAL REQUIREMENT: put the defect on an ERROR / BOUNDARY path: a call that must be refused (panic) is now accepted, or panics only after it has already changed part of the state, or a valid call exactly at a boundary (first/last index, slot 0 or size, exactly full, exactly empty, capacity 1, a range of length 0 or 1, the deepest allowed nesting) is now refused or treated as its neighbour. Calls well inside the valid range stay correct.',
 'j': '\nADDITIONAL REQUIREMENT: the defect must only show when TWO DIFFERENT collection kinds or API layers meet: a collection built from / compared with / merged with / formatted inside a collection of ANOTHER kind (a List from a Set or a Queue, a Catalog from a Map, a Stack inside a List, an Array as a Set element, an Association as a value), or the same operation reached through the module-level wrapper functions in v4/Module.go instead of the class in v4/collection. The same operation within one kind through the class API stays correct.',
 'k': '\nADDITIONAL REQUIREMENT: assume the maintainers already run a model-based random test for this property: up to 40 random operations on a small collection of small ints or short strings, every observer compared with a reference model after every step, plus a few thousand random inputs. Your change must SURVIVE such a test and still break the property for some realistic use: think of what such a test does not vary (rare argument combinations, sizes beyond a few dozen, long idle sequences, particular orders of construction, specific Unicode/number formats, interplay of three or more calls).',
 'l': '\nADDITIONAL REQUIREMENT: write the kind of slip a maintainer makes during an ordinary REFACTORING: extracting a helper and passing the wrong variable, inverting a condition while simplifying it, merging two similar branches that differed in one detail, hoisting a statement out of a loop, changing a loop bound or a slice expression, replacing a hand-written loop by a library call with slightly different semantics. It must read like a clean-up and must be DIFFERENT from everything in the already-used list (another function or another mechanism).',
 'n': '\nADDITIONAL REQUIREMENT: do NOT edit the file a reviewer would associate with this property first. Put the change into a SHARED DEPENDENCY that the property only reaches indirectly: the agent package (collator, sorter, iterator) for a collection property, the underlying array/list/map that a set, stack, queue or catalog is built on, the scanner or formatter helpers for a parser/constructor property, the collection classes for a notation property, Package.go/Module.go helpers. The change must look reasonable where it is made, keep that dependency\'s own obvious behaviour intact, and break THIS property only through the way the dependent code uses it.',
 'p': '\nADDITIONAL REQUIREMENT: read the QUANTIFIER of the property carefully and aim at the corner of the stated domain that a generator samples least: the far end of a size range, the least usual configuration or argument position, the rarest of the listed element types, the combination of two listed dimensions that are usually varied one at a time, an operand that is the same object as another, the last of many steps. The defect must be invisible on the typical middle of the domain and undeniable on that corner (still inside the stated domain).',
 'o': '\nADDITIONAL REQUIREMENT: look at the git history of the worktree (git log --oneline, git show <commit>): several commits whose message starts with "fix:" repaired real defects. Write a REGRESSION: a change that brings back a VARIANT of one of those defects for this property -- not a plain revert of the fix (the exact original failing input must still work), but the same kind of mistake on a neighbouring path, argument form, boundary or kind that the fix did not have to touch, or a later "simplification" of the fixed code that is right for the original input and wrong for a related one.',
 'c': '\nADDITIONAL REQUIREMENT: the change must be a one-token or one-line edit (an operator, a constant, an index expression, an omitted statement) somewhere OTHER than the function a reviewer would look at first; it must only matter for inputs that are large, deeply nested, or at a boundary.',
}[variant]
for pid in sys.argv[2:]:
    p = props[pid]
    tag = pid + variant
    wt = '/tmp/wt-' + tag
    prompt = TEMPLATE.format(wt=wt, pid=pid, title=p['title'], statement=p['statement'], quant=p['quantifier']['text'], hint=hints[pid], files=', '.join(p['anchors']['files']), tag=tag) + extra
    import glob
    used = []
    for f in sorted(glob.glob('/verif/seeded/%s*/meta.json' % pid)):
        used.append(json.load(open(f)).get('summary', '')[:400])
    if used:
        prompt += "\n\nALREADY USED by earlier seeds (pick something DIFFERENT: another function, another mechanism):\n" + "\n".join(" - " + u for u in used)
    open('/tmp/mut/prompts/%s.txt' % tag, 'w').write(prompt)
    if not os.path.exists(wt):
        subprocess.run(['git', '-C', '/repo', 'worktree', 'add', '--detach', wt, 'HEAD'], check=True, capture_output=True)
    print(tag, wt)
